#!/usr/bin/env python3
"""Development tool: which postconditions can be evaluated natively (on floats, unpatched code)?

For every contract and a sample of its cases the contract is replayed natively on random inputs; obligations whose native
evaluation raises (value None) can never contribute a failing input.  Prints them per contract."""
import glob
import importlib
import inspect
import os
import random
import sys
from collections import defaultdict

sys.path.insert(0, os.path.dirname(os.path.dirname(os.path.abspath(__file__))))
from pyvc import runner  # noqa: E402
from pyvc.contract import Contract  # noqa: E402


class PosRng(random.Random):
    def uniform(self, a, b):
        return super().uniform(0.2, 2.0)


def main():
    only = sys.argv[1:]
    for fn in sorted(glob.glob(os.path.join(os.path.dirname(__file__), "..", "contracts", "c??_*.py"))):
        modname = "contracts." + os.path.basename(fn)[:-3]
        if only and not any(o in modname for o in only):
            continue
        mod = importlib.import_module(modname)
        for name, cls in vars(mod).items():
            if not (inspect.isclass(cls) and issubclass(cls, Contract) and cls is not Contract and cls.__module__ == modname) or getattr(cls, "abstract", False):
                continue
            c = cls()
            cases = list(c.cases("quick"))
            if not cases:
                continue
            stat = defaultdict(lambda: [0, 0, 0])
            ran = skipped = 0
            for case in cases[:: max(1, len(cases) // 12)][:12]:
                for rng in (random.Random(1), PosRng(2)):
                    try:
                        r, detail, _ = runner.native_replay(c, case, {}, rng=rng)
                    except Exception as e:
                        stat[f"<native replay raised {type(e).__name__}>"][2] += 1
                        continue
                    if r is None:
                        skipped += 1
                        continue
                    ran += 1
                    for n, ok in r:
                        n = n.split("[")[0]
                        stat[n][0 if ok is True else 1 if ok is False else 2] += 1
            bad = {n: v for n, v in stat.items() if v[2] or v[1]}
            print(f"{modname}.{name}: runs={ran} precondition-skips={skipped} " + ("all obligations evaluated True" if not bad else ""))
            for n, (t, f, u) in bad.items():
                print(f"    {n}: True={t} False={f} unevaluable={u}")


if __name__ == "__main__":
    main()
