#!/bin/bash
# tools/harvest_seed.sh <ID> [<seed-dir>] : confirm a sub-agent's seeded change in a fresh scratch worktree, store under seeded/<ID>/
# (patch applies; demo PASSes on the clean tree, FAILs with the patch; existing suite passes with the patch)
ID=$1; SRC=${2:-/tmp/wt_$ID/SEED}; NAME=${3:-$ID}
DST=/verif/seeded/$NAME; HV=/tmp/hv_$NAME
set -u
mkdir -p $DST; cp $SRC/patch.diff $SRC/demo.py $DST/; [ -f $SRC/notes.md ] && cp $SRC/notes.md $DST/
git -C /repo worktree remove --force $HV >/dev/null 2>&1; rm -rf $HV
git -C /repo worktree add -q --detach $HV HEAD || exit 3
mkdir -p $HV/SEED; cp $DST/demo.py $HV/SEED/
cd $HV
(PYTHONDONTWRITEBYTECODE=1 timeout 900 /venv/bin/python SEED/demo.py > $DST/demo_clean.log 2>&1); CLEAN=$?
git apply $DST/patch.diff; APPLY=$?
(PYTHONDONTWRITEBYTECODE=1 timeout 900 /venv/bin/python SEED/demo.py > $DST/demo_patched.log 2>&1); PATCHED=$?
(PYTHONDONTWRITEBYTECODE=1 PATH=/venv/bin:$PATH /venv/bin/python -m pytest -q -p no:cacheprovider --timeout=900 -n 8 glotaran benchmark > $DST/suite_patched.log 2>&1)
SUITE=$(tail -1 $DST/suite_patched.log)
FAILED=$(grep -c "^FAILED" $DST/suite_patched.log)
FAILED_NAMES=$(grep "^FAILED" $DST/suite_patched.log | cut -c1-120 | tr '\n' ';')
cd /; git -C /repo worktree remove --force $HV; rm -rf $HV
python3 - "$ID" "$DST" "$CLEAN" "$APPLY" "$PATCHED" "$SUITE" "$FAILED" "$FAILED_NAMES" <<'PY'
import json, sys, os
pid, dst, clean, apply_, patched, suite, failed, names = sys.argv[1:9]
notes = open(os.path.join(dst, 'notes.md')).read() if os.path.exists(os.path.join(dst, 'notes.md')) else ''
files = [l[6:] for l in open(os.path.join(dst,'patch.diff')) if l.startswith('+++ b/')]
meta = {
  "property": pid,
  "files_changed": [f.strip() for f in files],
  "needs_to_manifest": "see notes.md (written by the sub-agent that produced the change)",
  "confirmed": {
    "patch_applies_to_repo_head": apply_ == "0",
    "demo_exit_clean_tree": int(clean), "demo_exit_with_patch": int(patched),
    "suite_with_patch": suite, "suite_failed_tests": int(failed), "suite_failed_names": names,
    "ran": ["git worktree add /tmp/hv_<id> HEAD", "python SEED/demo.py (clean)", "git apply patch.diff", "python SEED/demo.py (patched)", "pytest -n 8 glotaran benchmark (patched)", "git worktree remove"],
  },
  "kept": (apply_ == "0" and clean == "0" and patched != "0"),
}
json.dump(meta, open(os.path.join(dst, 'meta.json'), 'w'), indent=1)
print(pid, json.dumps(meta["confirmed"]))
PY
