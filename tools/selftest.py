#!/usr/bin/env python3
"""Mutation self-test of the machinery (development tool, not a registered check).

Applies each catalogue entry to /repo (exact text replacement), runs the quick check of the property,
compares the exit code with the expectation (1 for property-breaking edits, 0 for harmless edits) and
undoes the edit.  /repo must be clean; it is clean afterwards.  Results: selftest/RESULTS.md.
"""
import json
import os
import subprocess
import sys
import time

VERIF = os.path.dirname(os.path.dirname(os.path.abspath(__file__)))
REPO = os.environ.get("PYVC_REPO", "/repo")
G = REPO + "/glotaran/"

# (name, property, file, old, new, expected exit)
CATALOGUE = [
    # ---- property-breaking edits
    ("vp_zeroing_loop_short", "C01", "optimization/variable_projection.py", "for i in range(matrix.shape[1]):", "for i in range(matrix.shape[1] - 1):", 1),
    ("vp_T_to_N", "C01", "optimization/variable_projection.py", 'lapack.dormqr("L", "T"', 'lapack.dormqr("L", "N"', 1),
    ("vp_unsliced_clp", "C01", "optimization/variable_projection.py", "return clp[: matrix.shape[1]], residual", "return clp, residual", 1),
    ("nnls_residual_sign", "C01", "optimization/nnls.py", "residual = data - np.dot(matrix, clp)", "residual = data + np.dot(matrix, clp)", 1),
    ("scale_dropped_unlinked", "C02", "optimization/matrix_provider.py", "self.get_matrix_container(label).create_scaled_matrix(scale),", "self.get_matrix_container(label),", 1),
    ("weight_neighbour_column", "C02", "optimization/matrix_provider.py", "matrix.create_weighted_matrix(weight[:, i])", "matrix.create_weighted_matrix(weight[:, max(i - 1, 0)])", 1),
    ("relation_after_constraint", "C02", "optimization/matrix_provider.py", "        result = self.apply_relations(result, global_axis)\n        result = self.apply_constraints(result, global_axis)", "        result = self.apply_constraints(result, global_axis)\n        result = self.apply_relations(result, global_axis)", 1),
    ("penalties_not_cleared", "C10", "optimization/estimation_provider.py", "        self._clp_penalty.clear()", "        pass", 1),
    ("weighted_residual_swapped", "C03", "optimization/optimization_group.py", 'result_dataset["residual"] = result_dataset["residual"] / weight', 'result_dataset["residual"] = result_dataset["residual"] * weight', 1),
    ("clp_by_position", "C03", "optimization/estimation_provider.py", "                                self._matrix_provider.aligned_full_clp_labels[index].index(label)\n", "                                clp_labels.index(label)\n", 1),
    ("kmatrix_to_from_swapped", "C04", "builtin/megacomplexes/decay/k_matrix.py", "                mat[to_idx, fr_idx] += param", "                mat[fr_idx, to_idx] += param", 1),
    ("sequential_product_bound", "C04", "builtin/megacomplexes/decay/k_matrix.py", "for m in range(j + 1) if i != m", "for m in range(j) if i != m", 1),
    ("das_not_transposed", "C04", "builtin/megacomplexes/decay/util.py", ".values @ a_matrix.T", ".values @ a_matrix", 1),
    ("normalized_includes_excluded", "C04", "builtin/megacomplexes/decay/initial_concentration.py", "normalized[idx] /= np.sum(normalized[idx])", "normalized[idx] /= np.sum(normalized)", 1),
    ("kernel_alpha_plus", "C05", "builtin/megacomplexes/decay/decay_matrix_gaussian_irf.py", "np.exp(alpha * (alpha - 2 * beta))", "np.exp(alpha * (alpha + 2 * beta))", 1),
    ("kernel_erfcx_sign", "C05", "builtin/megacomplexes/decay/decay_matrix_gaussian_irf.py", "erfcx(-thresh)", "erfcx(thresh)", 1),
    ("kernel_missing_half", "C05", "builtin/megacomplexes/decay/decay_matrix_gaussian_irf.py", "scale * 0.5 * (1 + erf(thresh))", "scale * (1 + erf(thresh))", 1),
    ("centers_plus_shift", "C05", "builtin/megacomplexes/decay/util.py", "all_centers.append(centers - shift)", "all_centers.append(centers + shift)", 1),
    ("dispersion_power_off_by_one", "C05", "builtin/megacomplexes/decay/irf.py", "centers += disp * np.power(dist, i + 1)", "centers += disp * np.power(dist, i)", 1),
    ("combine_assign_instead_of_add", "C06", "optimization/matrix_provider.py", "                    result_matrix[:, idx] += matrix_right[:, clp_labels_right.index(label)]", "                    result_matrix[:, idx] = matrix_right[:, clp_labels_right.index(label)]", 1),
    ("doas_ones_fill", "C07", "builtin/megacomplexes/damped_oscillation/damped_oscillation_megacomplex.py", "        matrix = np.zeros(matrix_shape, dtype=np.float64)", "        matrix = np.ones(matrix_shape, dtype=np.float64)", 1),
    ("doas_shift_sign", "C07", "builtin/megacomplexes/damped_oscillation/damped_oscillation_megacomplex.py", "    shifted_axis = model_axis - (center - shift)", "    shifted_axis = model_axis - center - shift", 1),
    ("artifact_second_derivative", "C07", "builtin/megacomplexes/coherent_artifact/coherent_artifact_megacomplex.py", "(center**2 - width**2 - 2 * center * axis + axis**2)", "(center**2 + width**2 - 2 * center * axis + axis**2)", 1),
    ("gaussian_fwhm_factor", "C07", "builtin/megacomplexes/spectral/shape.py", "np.square(2 * (axis - self.location) / self.width)", "np.square((axis - self.location) / self.width)", 1),
    ("applies_strict", "C08", "model/interval_item.py", "return lower <= index <= upper", "return lower <= index < upper", 1),
    ("applies_no_swap", "C08", "model/interval_item.py", "            if lower > upper:\n                lower, upper = upper, lower\n", "", 1),
    ("only_not_negated", "C08", "model/clp_constraint.py", "return not super().applies(index)", "return super().applies(index)", 1),
    ("slice_plus_one_dropped", "C08", "optimization/data_provider.py", "np.abs(axis - interval_max).argmin() + 1", "np.abs(axis - interval_max).argmin()", 1),
    ("align_tolerance_strict", "C09", "optimization/data_provider.py", "diff.min() <= tolerance", "diff.min() < tolerance", 1),
    ("align_weights_zeros", "C09", "optimization/data_provider.py", "index_weights.append(np.ones(size))", "index_weights.append(np.zeros(size))", 1),
    ("optimizer_no_copy", "C10", "optimization/optimizer.py", "self._parameters = scheme.parameters.copy()", "self._parameters = scheme.parameters", 1),
    ("on_index_parallel", "C10", "builtin/megacomplexes/decay/decay_matrix_gaussian_irf.py", "@nb.jit(nopython=True, parallel=False)\ndef calculate_decay_matrix_gaussian_irf_on_index(", "@nb.jit(nopython=True, parallel=True)\ndef calculate_decay_matrix_gaussian_irf_on_index(", 1),
    ("exp_dropped", "C11", "parameter/parameter.py", "self.value = np.exp(value) if self.non_negative else value", "self.value = value", 1),
    ("vary_ignored", "C11", "parameter/parameters.py", "if not exclude_non_vary or (parameter.vary and parameter.expression is None):", "if True:", 1),
    ("expression_single_pass", "C12", "parameter/parameters.py", "            for match in PARAMETER_EXPRESSION_REGEX.findall(parameter.expression):\n                if self.has(match[0]):\n                    update(self.get(match[0]))\n", "", 1),
    ("additional_penalty_of_last_call", "C13", "optimization/optimizer.py", '        full_penalty = self.calculate_penalty()\n        result_args["cost"] = 0.5 * np.dot(full_penalty, full_penalty)\n\n        result_args["additional_penalty"] = [\n            group.get_additional_penalties() for group in self._optimization_groups\n        ]\n', '        result_args["additional_penalty"] = [\n            group.get_additional_penalties() for group in self._optimization_groups\n        ]\n\n        full_penalty = self.calculate_penalty()\n        result_args["cost"] = 0.5 * np.dot(full_penalty, full_penalty)\n', 1),
    ("latest_lookup_deletes_whole_name", "C18", "project/project.py", '        result_name = re.sub(r"_run_\\d{4}$", "", result_name)\n        return self.get_result_path(result_name, latest=True)', '        result_name = re.sub(self._result_registry.result_pattern, "", result_name)\n        return self.get_result_path(result_name, latest=True)', 1),
    ("linked_results_in_aligned_order", "C03", "optimization/estimation_provider.py", "            order = np.argsort(dataset_indices)\n", "            order = np.arange(len(dataset_indices))\n", 1),
    ("is_linkable_reads_all_data", "C02", "model/dataset_group.py", "            if label not in self.dataset_models:\n", "            if False:\n", 1),
    ("weight_transposed_by_shape", "C03", "optimization/optimization_group.py", "            if result_dataset.data.dims[0] != model_dimension:\n", "            if weight.shape != result_dataset.data.shape:\n", 1),
    ("pfid_full_rate_vectors", "C07", "builtin/megacomplexes/pfid/pfid_megacomplex.py", "        (left_shifted_axis[:, None] - dk[neg_idx]) / -sqwidth\n", "        (left_shifted_axis[:, None] - dk[:]) / -sqwidth\n", 1),
    ("expression_parameter_selected_by_vary", "C11", "parameter/parameters.py", "            if not exclude_non_vary or (parameter.vary and parameter.expression is None):", "            if not exclude_non_vary or parameter.vary:", 1),
    ("dof_without_clps", "C13", "optimization/optimizer.py", '                - result_args["number_of_clps"]\n', "", 1),
    ("rmse_not_sqrt", "C13", "optimization/optimizer.py", 'np.sqrt(result_args["reduced_chi_square"])', 'result_args["reduced_chi_square"]', 1),
    ("covariance_unmasked", "C13", "optimization/optimizer.py", "mask = jacobian_sv_square > np.finfo(float).eps", "mask = jacobian_sv_square > -1", 1),
    ("simulate_by_position", "C14", "simulation/simulation.py", 'clp.isel({global_dimension: i}).sel({"clp_label": matrix.clp_labels}),', "clp.isel({global_dimension: i}).values[: len(matrix.clp_labels)],", 1),
    ("seed_after_noise", "C14", "simulation/simulation.py", "        if noise_seed is not None:\n            np.random.seed(noise_seed)\n        result[\"data\"] = (result.data.dims, np.random.normal(result.data, noise_std_dev))", "        result[\"data\"] = (result.data.dims, np.random.normal(result.data, noise_std_dev))\n        if noise_seed is not None:\n            np.random.seed(noise_seed)", 1),
    ("exception_rewrapped", "C15", "optimization/optimizer.py", "                if self._raise:\n                    raise e\n", "                if self._raise:\n                    raise RuntimeError(str(e))\n", 1),
    ("tee_not_restored_on_error", "C15", "utils/tee.py", "        sys.stdout = self.stdout\n        return None", "        if exc_type is None:\n            sys.stdout = self.stdout\n        return None", 1),
    ("history_index_minus_one", "C15", "optimization/optimizer.py", "self._parameters.set_from_history(self._parameter_history, -2)", "self._parameters.set_from_history(self._parameter_history, 0)", 0),  # record 0 == x0: equivalent on this grid (kept as a harmless edit)
    ("protect_folder_check_dropped", "C18", "plugin_system/io_plugin_utils.py", "    elif path.is_dir() and os.listdir(str(path)):", "    elif False and path.is_dir() and os.listdir(str(path)):", 1),
    ("save_dataset_unprotected", "C18", "plugin_system/data_io_registration.py", "    protect_from_overwrite(file_name, allow_overwrite=allow_overwrite)\n", "    protect_from_overwrite(file_name, allow_overwrite=True)\n", 1),
    ("registry_overwrites_short_name", "C19", "plugin_system/base_registry.py", "        plugin_register_key = full_plugin_name(plugin)\n        if full_plugin_name", "        if full_plugin_name", 1),
    ("set_plugin_no_dot_check", "C19", "plugin_system/base_registry.py", '    if "." in plugin_register_key:\n        raise ValueError(\n            f"The value of', '    if False:\n        raise ValueError(\n            f"The value of', 1),
    ("parameter_issues_skip_lists", "C20", "model/item.py", "        elif structure is list:\n            for v in value:\n                yield name, v if isinstance(v, str) else (name, v.label)  # type:ignore[misc]\n", "        elif structure is list:\n            for v in value[:1]:\n                yield name, v if isinstance(v, str) else (name, v.label)  # type:ignore[misc]\n", 1),
    # ---- harmless edits: the property still holds, the check must stay green
    # ---- all-sizes (PyVC-U) contracts: harmless edits must still prove, breaking ones must not
    ("harmless_vp_rename_temp", "C01", "optimization/variable_projection.py", '    temp, _, _ = lapack.dormqr("L", "T", qr, tau, data, max(1, matrix.shape[1]), overwrite_c=0)\n\n    clp, _ = lapack.dtrtrs(qr, temp)\n\n    for i in range(matrix.shape[1]):\n        temp[i] = 0\n\n    # Kaufman Q2 step 5\n\n    residual, _, _ = lapack.dormqr("L", "N", qr, tau, temp,', '    projected, _, _ = lapack.dormqr("L", "T", qr, tau, data, max(1, matrix.shape[1]), overwrite_c=0)\n\n    clp, _ = lapack.dtrtrs(qr, projected)\n\n    for i in range(matrix.shape[1]):\n        projected[i] = 0\n\n    # Kaufman Q2 step 5\n\n    residual, _, _ = lapack.dormqr("L", "N", qr, tau, projected,', 0),
    ("harmless_irf_switch_over_moved", "C05", "builtin/megacomplexes/decay/decay_matrix_gaussian_irf.py", "if thresh < -1:", "if thresh < -1.5:", 0),
    ("harmless_irf_kernel_rename_loop_variable", "C05", "builtin/megacomplexes/decay/decay_matrix_gaussian_irf.py", "        for n_r in nb.prange(rates.size):\n            r_n = rates[n_r]", "        for col in nb.prange(rates.size):\n            n_r = col\n            r_n = rates[col]", 0),
    ("harmless_no_irf_assign_into_zeroed_matrix", "C04", "builtin/megacomplexes/decay/util.py", "            matrix[n_t, n_r] += np.exp(-r_n * t_n)", "            matrix[n_t, n_r] = np.exp(-t_n * r_n)", 0),
    ("harmless_slice_abs_operands_swapped", "C08", "optimization/data_provider.py", "np.abs(axis - interval_min).argmin()", "np.abs(interval_min - axis).argmin()", 0),
    ("harmless_align_condition_reordered", "C09", "optimization/data_provider.py", "if len(diff) > 0 and diff.min() <= tolerance:", "if len(diff) >= 1 and tolerance >= diff.min():", 0),
    ("irf_kernel_assign_instead_of_accumulate", "C05", "builtin/megacomplexes/decay/decay_matrix_gaussian_irf.py", "                    matrix[n_t, n_r] += scale * 0.5 * erfcx(-thresh) * np.exp(-beta * beta)", "                    matrix[n_t, n_r] = scale * 0.5 * erfcx(-thresh) * np.exp(-beta * beta)", 1),
    ("irf_all_indices_widths_of_first_index", "C05", "builtin/megacomplexes/decay/decay_matrix_gaussian_irf.py", "            all_widths[n_w],", "            all_widths[0],", 1),
    ("no_irf_kernel_last_time_point_skipped", "C04", "builtin/megacomplexes/decay/util.py", "        for n_t in range(times.size):", "        for n_t in range(times.size - 1):", 1),
    ("slice_infinite_lower_bound_starts_at_one", "C08", "optimization/data_provider.py", "minimum = 0 if np.isinf(interval_min)", "minimum = 1 if np.isinf(interval_min)", 1),
    ("align_backward_excludes_equal", "C09", "optimization/data_provider.py", "            target_axis = target_axis[diff <= 0]\n            diff = diff[diff <= 0]", "            target_axis = target_axis[diff < 0]\n            diff = diff[diff < 0]", 1),
    # ---- bugs that only bite beyond the shapes of the symbolic (S-level) runs: all-sizes contracts + native sweeps
    ("irf_kernel_only_first_three_gaussians", "C05", "builtin/megacomplexes/decay/decay_matrix_gaussian_irf.py", "    for n_i in nb.prange(centers.size):", "    for n_i in nb.prange(min(centers.size, 3)):", 1),
    ("align_only_short_target_axes", "C09", "optimization/data_provider.py", "        if len(diff) > 0 and diff.min() <= tolerance:", "        if 0 < len(diff) < 50 and diff.min() <= tolerance:", 1),
    ("slice_wrong_for_long_axes", "C08", "optimization/data_provider.py", "        minimum = 0 if np.isinf(interval_min) else np.abs(axis - interval_min).argmin()", "        minimum = 0 if np.isinf(interval_min) or axis.size > 20 else np.abs(axis - interval_min).argmin()", 1),
    ("retrieve_clps_relation_by_missing_label", "C01", "optimization/estimation_provider.py", "                and relation.applies(index)\n                and relation.source in clp_labels", "                and relation.target not in reduced_clp_labels\n                and relation.source in clp_labels", 1),
    ("harmless_retrieve_clps_condition_order", "C01", "optimization/estimation_provider.py", "                relation.target in clp_labels\n                and relation.applies(index)\n                and relation.source in clp_labels", "                relation.applies(index)\n                and relation.target in clp_labels\n                and relation.source in clp_labels", 0),
    ("vp_zeroing_stops_at_eight_columns", "C01", "optimization/variable_projection.py", "    for i in range(matrix.shape[1]):", "    for i in range(min(matrix.shape[1], 8)):", 1),
    ("harmless_no_irf_kernel_loops_interchanged", "C04", "builtin/megacomplexes/decay/util.py", "    for n_r in nb.prange(rates.size):\n        r_n = rates[n_r]\n        for n_t in range(times.size):\n            t_n = times[n_t]\n            matrix[n_t, n_r] += np.exp(-r_n * t_n)", "    for n_t in nb.prange(times.size):\n        t_n = times[n_t]\n        for n_r in range(rates.size):\n            r_n = rates[n_r]\n            matrix[n_t, n_r] += np.exp(-r_n * t_n)", 0),
    ("harmless_irf_kernel_loops_interchanged", "C05", "builtin/megacomplexes/decay/decay_matrix_gaussian_irf.py", "    for n_i in nb.prange(centers.size):\n        center, width, scale = centers[n_i], widths[n_i], scales[n_i]\n        for n_r in nb.prange(rates.size):\n            r_n = rates[n_r]\n            backsweep_valid = backsweep and abs(r_n) * backsweep_period > 0.001\n            alpha = (r_n * width) / SQRT2\n            for n_t in nb.prange(times.size):\n                t_n = times[n_t]", "    for n_r in nb.prange(rates.size):\n        r_n = rates[n_r]\n        backsweep_valid = backsweep and abs(r_n) * backsweep_period > 0.001\n        for n_t in nb.prange(times.size):\n            t_n = times[n_t]\n            for n_i in nb.prange(centers.size):\n                center, width, scale = centers[n_i], widths[n_i], scales[n_i]\n                alpha = (r_n * width) / SQRT2", 0),
    ("harmless_vp_rename_local", "C01", "optimization/variable_projection.py", "    for i in range(matrix.shape[1]):\n        temp[i] = 0", "    for col in range(matrix.shape[1]):\n        temp[col] = 0", 0),
    ("harmless_applies_min_max", "C08", "model/interval_item.py", "            if lower > upper:\n                lower, upper = upper, lower\n", "            lower, upper = min(lower, upper), max(lower, upper)\n", 0),
    ("harmless_enumerate_to_range", "C02", "optimization/matrix_provider.py", "        for i, index in enumerate(global_axis):\n            matrix = matrices[i]\n            clp_labels = matrix.clp_labels\n            removed_clp_labels", "        for i in range(len(global_axis)):\n            index = global_axis[i]\n            matrix = matrices[i]\n            clp_labels = matrix.clp_labels\n            removed_clp_labels", 0),
    ("harmless_kmatrix_reorder_statements", "C04", "builtin/megacomplexes/decay/k_matrix.py", "                mat[to_idx, fr_idx] += param\n                mat[fr_idx, fr_idx] -= param", "                mat[fr_idx, fr_idx] -= param\n                mat[to_idx, fr_idx] += param", 0),
    ("harmless_registry_local_name", "C19", "plugin_system/base_registry.py", "        old_key = plugin_register_key\n        plugin_register_key = full_plugin_name(plugin)\n        if full_plugin_name(plugin_registry[old_key]) != full_plugin_name(plugin):", "        old_key = plugin_register_key\n        plugin_register_key = full_plugin_name(plugin)\n        if full_plugin_name(plugin_registry[old_key]) != plugin_register_key:", 0),
    ("harmless_kernel_reassociate", "C05", "builtin/megacomplexes/decay/decay_matrix_gaussian_irf.py", "matrix[n_t, n_r] += scale * 0.5 * erfcx(-thresh) * np.exp(-beta * beta)", "matrix[n_t, n_r] += 0.5 * scale * (erfcx(-thresh) * np.exp(-beta * beta))", 0),
    ("harmless_parameters_list_comprehension", "C11", "parameter/parameters.py", "        for label, value in zip(labels, values):\n            self.get(label).set_value_from_optimization(value)\n", "        for position in range(len(labels)):\n            self.get(labels[position]).set_value_from_optimization(values[position])\n", 0),
]


def main():
    only = [a for a in sys.argv[1:] if not a.startswith("--")]
    assert subprocess.run(["git", "-C", REPO, "status", "--porcelain", "--untracked-files=no"], capture_output=True, text=True).stdout.strip() == "", "/repo not clean"
    rows = []
    for name, prop, rel, old, new, expect in CATALOGUE:
        if only and name not in only and prop not in only:
            continue
        path = G + rel
        src = open(path).read()
        if src.count(old) != 1:
            rows.append((name, prop, expect, "n/a", f"pattern occurs {src.count(old)} times", 0))
            print(name, "PATTERN", src.count(old), flush=True)
            continue
        open(path, "w").write(src.replace(old, new))
        t = time.time()
        try:
            r = subprocess.run([os.path.join(VERIF, "check"), prop, "--tier", "quick", "--no-evidence"], capture_output=True, text=True, cwd=VERIF)
        finally:
            subprocess.run(["git", "-C", REPO, "checkout", "--", "."], check=True)
        viol = [l.split("replay=")[1].split("/")[-1].rsplit("-", 1)[0] for l in r.stdout.splitlines() if l.startswith("VIOLATION")]
        rows.append((name, prop, expect, r.returncode, "; ".join(viol[:2]), round(time.time() - t, 1)))
        print(name, prop, "expected", expect, "got", r.returncode, viol[:1], flush=True)
    os.makedirs(os.path.join(VERIF, "selftest"), exist_ok=True)
    with open(os.path.join(VERIF, "selftest", "RESULTS.md" if not only else "RESULTS_partial.md"), "w") as f:
        f.write("# Mutation self-test (tools/selftest.py, quick tier)\n\n| mutant | property | expected exit | exit | first failing obligations | s |\n|---|---|---|---|---|---|\n")
        for row in rows:
            f.write("| " + " | ".join(str(x) for x in row) + " |\n")
        bad = [r for r in rows if r[3] != r[2]]
        f.write(f"\n{len(rows)} entries, {len(bad)} not as expected: {[r[0] for r in bad]}\n")
    print("not as expected:", [r[0] for r in rows if r[3] != r[2]])


if __name__ == "__main__":
    main()
