#!/usr/bin/env python3
"""Print the prompt for a seeded-breakage sub-agent (property text only, nothing from /verif)."""
import json, sys
pid = sys.argv[1]
wt = sys.argv[2]
focus = sys.argv[3] if len(sys.argv) > 3 else ''
for l in open('/verif/properties.jsonl'):
    p = json.loads(l)
    if p['id'] == pid:
        break
print(f"""You are helping to test a verification effort for the Python library pyglotaran (global and target analysis of time-resolved spectroscopy). You get ONE semantic property of the library and your own scratch git worktree of the library at {wt} (a checkout of the current code). Work ONLY inside {wt} . Do not read or touch /repo or /verif at all.

PROPERTY {p['id']}: {p['title']}
Statement: {p['statement']}
Quantified over: {p['quantifier']['text']}
Relevant files (hint): {', '.join(p['anchors']['files'])}

YOUR TASK: produce a realistic change (a bug a developer could plausibly introduce, e.g. in a refactoring or optimisation) to the library source under {wt}/glotaran (NOT to tests) such that
  1. the library still imports and the EXISTING test suite still passes completely, and
  2. the property above is violated,
  3. the violation needs something SPECIFIC to manifest - an unusual input, a particular configuration or shape, a multi-step sequence of operations, a fault at a particular point, or two cooperating edited sites that each look fine alone - NOT something ordinary use would expose at once (otherwise the existing tests would fail anyway).
Prefer a subtle semantic change in the functions named in the hint over anything cosmetic.{(' For THIS task, place the change in this part of the mechanism (not elsewhere): ' + focus + '.') if focus else ''} One to three small edits. Do not add new dependencies. Do not edit or delete tests.

HOW TO RUN THINGS (no network; everything is installed):
  - python: /venv/bin/python  (run it with cwd={wt} so that `import glotaran` picks up YOUR worktree; check with: cd {wt} && /venv/bin/python -c "import glotaran; print(glotaran.__file__)")
  - the existing test suite: cd {wt} && PYTHONDONTWRITEBYTECODE=1 /venv/bin/python -m pytest -q -p no:cacheprovider --timeout=900 -n 8 glotaran  (takes ~90 s; 1 test, glotaran/cli/test/test_cli.py::test_cli_deprecation, fails already WITHOUT any change because the `glotaran` executable is not on PATH - ignore that one; everything else must pass). Run targeted test files first while iterating, the full suite once at the end.

DELIVERABLES, all written into the directory {wt}/SEED/ (create it):
  - patch.diff : output of `git -C {wt} diff -- glotaran` (your change, applicable with `git apply` to a clean checkout)
  - demo.py    : a small standalone program (run as `cd <checkout> && /venv/bin/python SEED/demo.py` or with a path argument - make it import glotaran from the current working directory) that exits 0 and prints PASS on the UNCHANGED code and exits 1 and prints FAIL on the changed code, demonstrating the property violation through the public API / the functions named in the hint. Verify BOTH: with your change applied it fails; on the clean tree it passes. IMPORTANT: do NOT use `git stash` (the stash is shared with other worktrees of this repository and will be clobbered); instead save your change with `git -C {wt} diff -- glotaran > {wt}/SEED/patch.diff`, revert it with `git -C {wt} apply -R {wt}/SEED/patch.diff`, run the demo on the clean tree, then re-apply it with `git -C {wt} apply {wt}/SEED/patch.diff`.
  - notes.md   : 5-15 lines: what you changed, why the existing tests do not notice, what exactly is needed for the violation to manifest, and the commands you ran with their outcomes (full test-suite result line included).
Leave the worktree with your change applied (uncommitted). Do not commit. When finished, reply with a short summary (what the change is, which function(s), what triggers it, test-suite result line). If, while exploring, you notice that the UNCHANGED code already violates the property for some input or sequence you can show, add a short section 'clean-code observations' with the exact reproduction to notes.md and to your summary (do not build your seed on it).""")
