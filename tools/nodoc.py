#!/usr/bin/env python3
"""Print python files without docstrings/blank lines (reading aid)."""
import ast, sys
for fn in sys.argv[1:]:
    src = open(fn).read()
    tree = ast.parse(src)
    lines = src.splitlines()
    drop = set()
    for node in ast.walk(tree):
        if isinstance(node, (ast.FunctionDef, ast.ClassDef, ast.Module, ast.AsyncFunctionDef)):
            if node.body and isinstance(node.body[0], ast.Expr) and isinstance(getattr(node.body[0], "value", None), ast.Constant) and isinstance(node.body[0].value.value, str):
                d = node.body[0]
                drop.update(range(d.lineno, d.end_lineno + 1))
    print("#####", fn)
    for i, l in enumerate(lines, 1):
        if i in drop or not l.strip():
            continue
        print(f"{i}:{l}")
