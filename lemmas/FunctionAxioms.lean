/-
The ground axiom schemas that the z3 side of PyVC assumes about the uninterpreted functions exp, log, sqrt, cos, sin
(`pyvc/axioms.py`), each proved for the real functions of Mathlib.  (erf: `erf_neg` and the convolution theorem are in
Convolution.lean, where erf is defined by its integral; erfcx z = exp(z²)(1 - erf z) is its definition.)
-/
import Mathlib.Analysis.SpecialFunctions.Log.Basic
import Mathlib.Analysis.SpecialFunctions.Sqrt
import Mathlib.Analysis.SpecialFunctions.Trigonometric.Basic

open Real

namespace PyVC

theorem ax_exp_pos (a : ℝ) : 0 < exp a := exp_pos a
theorem ax_exp_mul (a b : ℝ) : exp a * exp b = exp (a + b) := (exp_add a b).symm
theorem ax_exp_zero : exp 0 = 1 := exp_zero
theorem ax_exp_log (x : ℝ) (hx : 0 < x) : exp (log x) = x := exp_log hx
theorem ax_log_exp (a : ℝ) : log (exp a) = a := log_exp a
theorem ax_sqrt (x : ℝ) (hx : 0 ≤ x) : √x * √x = x ∧ 0 ≤ √x := ⟨mul_self_sqrt hx, sqrt_nonneg x⟩
theorem ax_cos_sin (a : ℝ) : cos a * cos a + sin a * sin a = 1 := by
  have := cos_sq_add_sin_sq a
  nlinarith [this]
theorem ax_cos_neg (a : ℝ) : cos (-a) = cos a := cos_neg a
theorem ax_sin_neg (a : ℝ) : sin (-a) = -sin a := sin_neg a
theorem ax_cos_zero : cos 0 = 1 := cos_zero
/-- numpy's exp of a complex number, read by PyVC-U as a pair of reals: exp(a + ib) = exp a cos b + i exp a sin b -/
theorem ax_cexp_re (a b : ℝ) : (Complex.exp ⟨a, b⟩).re = exp a * cos b := Complex.exp_re ⟨a, b⟩
theorem ax_cexp_im (a b : ℝ) : (Complex.exp ⟨a, b⟩).im = exp a * sin b := Complex.exp_im ⟨a, b⟩
theorem ax_sin_zero : sin 0 = 0 := sin_zero
theorem ax_exp_strict_mono (a b : ℝ) : (a < b ↔ exp a < exp b) ∧ (a = b ↔ exp a = exp b) :=
  ⟨exp_lt_exp.symm, ⟨fun h => by rw [h], fun h => exp_injective h⟩⟩
theorem ax_log_strict_mono (a b : ℝ) (ha : 0 < a) (hb : 0 < b) :
    (a < b ↔ log a < log b) ∧ (a = b ↔ log a = log b) :=
  ⟨(log_lt_log_iff ha hb).symm, ⟨fun h => by rw [h], fun h => log_injOn_pos ha hb h⟩⟩
theorem ax_log_one : log 1 = 0 := log_one
theorem ax_log_sign (x : ℝ) (hx : 0 < x) : (1 < x ↔ 0 < log x) ∧ (x = 1 ↔ log x = 0) :=
  ⟨(log_pos_iff hx.le).symm, ⟨fun h => by rw [h, log_one], fun h => by
    have := exp_log hx
    rw [h, exp_zero] at this
    exact this.symm⟩⟩

end PyVC

#print axioms PyVC.ax_exp_pos
#print axioms PyVC.ax_exp_mul
#print axioms PyVC.ax_exp_zero
#print axioms PyVC.ax_exp_log
#print axioms PyVC.ax_log_exp
#print axioms PyVC.ax_sqrt
#print axioms PyVC.ax_cos_sin
#print axioms PyVC.ax_cos_neg
#print axioms PyVC.ax_sin_neg
#print axioms PyVC.ax_cos_zero
#print axioms PyVC.ax_cexp_re
#print axioms PyVC.ax_cexp_im
#print axioms PyVC.ax_sin_zero
#print axioms PyVC.ax_exp_strict_mono
#print axioms PyVC.ax_log_strict_mono
#print axioms PyVC.ax_log_one
#print axioms PyVC.ax_log_sign
