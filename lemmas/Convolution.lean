/-
Lemma of analysis used by the C05 contracts (PyVC).

The contracts on the real kernels discharge that every decay column with a Gaussian IRF is, cell by cell and for
every size, the sum over the Gaussians of
    scale · 1/2 · exp(α(α − 2β)) · (1 + erf(β − α)),     α = kσ/√2,  β = (t − μ)/(σ√2)
(`KernelOnIndex`, `IrfKernelsAllSizes`; `erf` uninterpreted there).  What the property says is that the column is
the *convolution* of exp(−k t) (t ≥ 0) with the area-normalised Gaussian.  That the closed form is that
convolution integral is proved here, for the error function defined by its integral:

    ∫_{−∞}^{t} exp(−k (t − s)) · exp(−(s − μ)²/(2σ²)) / (σ √(2π)) ds  =  closed form          (σ > 0, all k, μ, t)

by exhibiting the antiderivative H of exp(k s)·gaussian(s), its limit 0 at −∞, and the fundamental theorem of
calculus on (−∞, t].  `erf_neg` is one of the ground axioms the z3 side assumes about `erf`.
-/
import Mathlib.Analysis.SpecialFunctions.Gaussian.GaussianIntegral
import Mathlib.MeasureTheory.Integral.IntegralEqImproper
import Mathlib.MeasureTheory.Measure.Lebesgue.Integral

open Real MeasureTheory Set Filter Topology

namespace PyVC

/-- the error function, by its integral -/
noncomputable def erf (x : ℝ) : ℝ := 2 / √π * ∫ u in (0:ℝ)..x, exp (-u ^ 2)

theorem continuous_gauss : Continuous fun u : ℝ => exp (-u ^ 2) := by fun_prop

theorem erf_hasDerivAt (x : ℝ) : HasDerivAt erf (2 / √π * exp (-x ^ 2)) x := by
  unfold erf
  have h := intervalIntegral.integral_hasDerivAt_right
    (continuous_gauss.intervalIntegrable 0 x)
    (continuous_gauss.stronglyMeasurableAtFilter _ _) continuous_gauss.continuousAt
  exact h.const_mul (2 / √π)

/-- `erf` is odd (one of the ground axioms the z3 contracts use for the uninterpreted `erf`). -/
theorem erf_neg (x : ℝ) : erf (-x) = -erf x := by
  unfold erf
  have h := intervalIntegral.integral_comp_neg (a := x) (b := 0) (fun u : ℝ => exp (-u ^ 2))
  simp only [neg_sq, neg_zero] at h
  rw [← h, intervalIntegral.integral_symm]
  ring

theorem integral_gauss_Iic_zero : ∫ u in Iic (0:ℝ), exp (-u ^ 2) = √π / 2 := by
  have h1 := integral_gaussian_Ioi 1
  have h2 := integral_comp_neg_Iic (0:ℝ) (fun u : ℝ => exp (-u ^ 2))
  simp only [neg_zero, neg_sq] at h2
  rw [h2]
  simpa using h1

theorem integrable_gauss : Integrable fun u : ℝ => exp (-u ^ 2) := by
  simpa using integrable_exp_neg_mul_sq (b := 1) one_pos

theorem erf_tendsto_atBot : Tendsto erf atBot (𝓝 (-1)) := by
  have h := intervalIntegral_tendsto_integral_Iic (0:ℝ) (integrable_gauss.integrableOn) tendsto_id
  -- h : Tendsto (fun i => ∫ u in i..0, exp (-u^2)) atBot (𝓝 (∫ u in Iic 0, exp (-u^2)))
  rw [integral_gauss_Iic_zero] at h
  have h2 : Tendsto (fun x : ℝ => 2 / √π * -(∫ u in x..(0:ℝ), exp (-u ^ 2))) atBot (𝓝 (2 / √π * -(√π / 2))) :=
    (h.neg).const_mul _
  have hpi : (0:ℝ) < √π := Real.sqrt_pos.mpr Real.pi_pos
  have e : 2 / √π * -(√π / 2) = -1 := by field_simp
  rw [e] at h2
  refine h2.congr (fun x => ?_)
  unfold erf
  rw [intervalIntegral.integral_symm, neg_neg]


theorem erf_strictMono : StrictMono erf := by
  apply strictMono_of_deriv_pos
  intro x
  rw [(erf_hasDerivAt x).deriv]
  have hpi : (0:ℝ) < √π := Real.sqrt_pos.mpr Real.pi_pos
  positivity

/-- `-1 < erf z < 1` (ground axiom of the z3 side) -/
theorem erf_bounds (z : ℝ) : -1 < erf z ∧ erf z < 1 := by
  have hlow : ∀ y : ℝ, -1 < erf y := fun y =>
    lt_of_le_of_lt (erf_strictMono.monotone.le_of_tendsto erf_tendsto_atBot (y - 1)) (erf_strictMono (by linarith : y - 1 < y))
  refine ⟨hlow z, ?_⟩
  have := hlow (-z)
  rw [erf_neg] at this
  linarith

/-- The closed form of the property: 1/2 exp(α(α-2β)) (1 + erf(β-α)). -/
noncomputable def closedForm (k μ σ t : ℝ) : ℝ :=
  1 / 2 * exp (k * σ / √2 * (k * σ / √2 - 2 * ((t - μ) / (σ * √2)))) * (1 + erf ((t - μ) / (σ * √2) - k * σ / √2))

/-- area-normalised Gaussian -/
noncomputable def gaussian (μ σ s : ℝ) : ℝ := exp (-(s - μ) ^ 2 / (2 * σ ^ 2)) / (σ * √(2 * π))

/-- antiderivative of exp(k s) * gaussian -/
noncomputable def H (k μ σ s : ℝ) : ℝ :=
  1 / 2 * exp (k * μ + k ^ 2 * σ ^ 2 / 2) * (1 + erf ((s - μ) / (σ * √2) - k * σ / √2))

theorem integrand_eq (k μ σ : ℝ) (hσ : 0 < σ) (s : ℝ) :
    1 / 2 * exp (k * μ + k ^ 2 * σ ^ 2 / 2)
        * (2 / √π * exp (-((s - μ) / (σ * √2) - k * σ / √2) ^ 2) * (1 / (σ * √2)))
      = exp (k * s) * gaussian μ σ s := by
  have h2 : (0:ℝ) < √2 := Real.sqrt_pos.mpr two_pos
  have hpi : (0:ℝ) < √π := Real.sqrt_pos.mpr Real.pi_pos
  have hs2 : √2 * √2 = 2 := Real.mul_self_sqrt (by norm_num)
  have hs2pi : √(2 * π) = √2 * √π := Real.sqrt_mul (by norm_num) π
  have hexp : exp (k * s) * exp (-(s - μ) ^ 2 / (2 * σ ^ 2))
      = exp (k * μ + k ^ 2 * σ ^ 2 / 2) * exp (-((s - μ) / (σ * √2) - k * σ / √2) ^ 2) := by
    rw [← Real.exp_add, ← Real.exp_add]
    congr 1
    field_simp
    ring_nf
    rw [show √2 ^ 2 = 2 from by rw [sq]; exact hs2]
    ring
  unfold gaussian
  rw [hs2pi]
  have hr : exp (k * s) * (exp (-(s - μ) ^ 2 / (2 * σ ^ 2)) / (σ * (√2 * √π)))
      = (exp (k * s) * exp (-(s - μ) ^ 2 / (2 * σ ^ 2))) / (σ * (√2 * √π)) := by ring
  rw [hr, hexp]
  field_simp

theorem H_hasDerivAt (k μ σ : ℝ) (hσ : 0 < σ) (s : ℝ) :
    HasDerivAt (H k μ σ) (exp (k * s) * gaussian μ σ s) s := by
  have hψ : HasDerivAt (fun s : ℝ => (s - μ) / (σ * √2) - k * σ / √2) (1 / (σ * √2)) s := by
    have := ((hasDerivAt_id s).sub_const μ).div_const (σ * √2)
    simpa using this.sub_const (k * σ / √2)
  have he := (erf_hasDerivAt ((s - μ) / (σ * √2) - k * σ / √2)).comp s hψ
  have hH := ((he.const_add 1).const_mul (1 / 2 * exp (k * μ + k ^ 2 * σ ^ 2 / 2)))
  have hfun : H k μ σ = fun s => 1 / 2 * exp (k * μ + k ^ 2 * σ ^ 2 / 2) * (1 + (erf ∘ fun s : ℝ => (s - μ) / (σ * √2) - k * σ / √2) s) := rfl
  rw [hfun]
  exact hH.congr_deriv (integrand_eq k μ σ hσ s)

theorem psi_tendsto (k μ σ : ℝ) (hσ : 0 < σ) :
    Tendsto (fun s : ℝ => (s - μ) / (σ * √2) - k * σ / √2) atBot atBot := by
  have h2 : (0:ℝ) < √2 := Real.sqrt_pos.mpr two_pos
  have hc : (0:ℝ) < σ * √2 := mul_pos hσ h2
  have h1 : Tendsto (fun s : ℝ => s - μ) atBot atBot := tendsto_atBot_add_const_right _ _ tendsto_id
  have h3 : Tendsto (fun s : ℝ => (s - μ) / (σ * √2)) atBot atBot := h1.atBot_div_const hc
  exact tendsto_atBot_add_const_right _ _ h3

theorem H_tendsto (k μ σ : ℝ) (hσ : 0 < σ) : Tendsto (H k μ σ) atBot (𝓝 0) := by
  have h := erf_tendsto_atBot.comp (psi_tendsto k μ σ hσ)
  have h1 : Tendsto (fun s : ℝ => 1 / 2 * exp (k * μ + k ^ 2 * σ ^ 2 / 2) * (1 + (erf ∘ fun s : ℝ => (s - μ) / (σ * √2) - k * σ / √2) s)) atBot
      (𝓝 (1 / 2 * exp (k * μ + k ^ 2 * σ ^ 2 / 2) * (1 + -1))) := (h.const_add 1).const_mul _
  have hfun : H k μ σ = fun s => 1 / 2 * exp (k * μ + k ^ 2 * σ ^ 2 / 2) * (1 + (erf ∘ fun s : ℝ => (s - μ) / (σ * √2) - k * σ / √2) s) := rfl
  rw [hfun]
  have e : 1 / 2 * exp (k * μ + k ^ 2 * σ ^ 2 / 2) * (1 + -1) = 0 := by ring
  rw [e] at h1
  exact h1

theorem integrable_integrand (k μ σ : ℝ) (hσ : 0 < σ) :
    Integrable fun s : ℝ => exp (k * s) * gaussian μ σ s := by
  have h2 : (0:ℝ) < √2 := Real.sqrt_pos.mpr two_pos
  have hc : (σ * √2)⁻¹ ≠ 0 := inv_ne_zero (mul_pos hσ h2).ne'
  have hg : Integrable fun s : ℝ => exp (-((s - μ) / (σ * √2) - k * σ / √2) ^ 2) := by
    have h1 := (integrable_gauss.comp_add_right (-(μ / (σ * √2)) - k * σ / √2)).comp_mul_left' hc
    refine h1.congr (Eventually.of_forall fun s => ?_)
    show exp (-((σ * √2)⁻¹ * s + (-(μ / (σ * √2)) - k * σ / √2)) ^ 2) = _
    congr 2
    field_simp
    ring
  have := ((hg.const_mul (2 / √π)).mul_const (1 / (σ * √2))).const_mul (1 / 2 * exp (k * μ + k ^ 2 * σ ^ 2 / 2))
  refine this.congr (Eventually.of_forall fun s => ?_)
  exact integrand_eq k μ σ hσ s

/-- C05: the decay column is the convolution of exp(-k t) (t ≥ 0) with the area-normalised Gaussian. -/
theorem convolution_closed_form (k μ σ : ℝ) (hσ : 0 < σ) (t : ℝ) :
    ∫ s in Iic t, exp (-k * (t - s)) * gaussian μ σ s = closedForm k μ σ t := by
  have hsplit : ∀ s : ℝ, exp (-k * (t - s)) * gaussian μ σ s = exp (-k * t) * (exp (k * s) * gaussian μ σ s) := by
    intro s
    rw [← mul_assoc, ← Real.exp_add]
    congr 2
    ring
  simp_rw [hsplit]
  rw [MeasureTheory.integral_const_mul]
  rw [integral_Iic_of_hasDerivAt_of_tendsto' (fun s _ => H_hasDerivAt k μ σ hσ s)
    (integrable_integrand k μ σ hσ).integrableOn (H_tendsto k μ σ hσ), sub_zero]
  unfold H closedForm
  have hs2 : √2 * √2 = 2 := Real.mul_self_sqrt (by norm_num)
  have h2 : (0:ℝ) < √2 := Real.sqrt_pos.mpr two_pos
  rw [show exp (-k * t) * (1 / 2 * exp (k * μ + k ^ 2 * σ ^ 2 / 2) * (1 + erf ((t - μ) / (σ * √2) - k * σ / √2)))
      = 1 / 2 * (exp (-k * t) * exp (k * μ + k ^ 2 * σ ^ 2 / 2)) * (1 + erf ((t - μ) / (σ * √2) - k * σ / √2)) from by ring]
  rw [← Real.exp_add]
  congr 3
  field_simp
  ring_nf
  rw [show √2 ^ 2 = 2 from by rw [sq]; exact hs2]
  ring

end PyVC

#print axioms PyVC.convolution_closed_form
#print axioms PyVC.erf_neg
#print axioms PyVC.erf_bounds
