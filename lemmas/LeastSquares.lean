/-
Lemmas of linear algebra used by the C01 contracts (PyVC), for every m and n.

The contracts on the real code (`contracts/c01_linear.py`) discharge, with z3, obligations about the
*glue code* of `residual_variable_projection` / `residual_nnls` (what is passed to LAPACK / scipy's
nnls, what is zeroed, what is returned).  What remains is mathematics: that those facts, together
with the contracts of the library routines, imply optimality.  That step is proved here once and
for all, and re-checked by `lean` on every run of the C01 check.
-/
import Mathlib.Data.Matrix.Mul
import Mathlib.Tactic.Linarith
import Mathlib.Tactic.Abel
import Mathlib.Algebra.Order.BigOperators.Group.Finset
import Mathlib.Data.Real.Basic
import Mathlib.LinearAlgebra.Matrix.DotProduct

open Matrix

namespace PyVC

variable {m n : ℕ}

theorem dot_self_nonneg (v : Fin m → ℝ) : 0 ≤ v ⬝ᵥ v := by
  unfold dotProduct
  exact Finset.sum_nonneg (fun i _ => mul_self_nonneg _)

/-- `r · (A d) = d · (Aᵀ r)` -/
theorem dot_mulVec_eq (A : Matrix (Fin m) (Fin n) ℝ) (r : Fin m → ℝ) (d : Fin n → ℝ) :
    r ⬝ᵥ (A *ᵥ d) = d ⬝ᵥ (Aᵀ *ᵥ r) := by
  rw [Matrix.dotProduct_mulVec, Matrix.mulVec_transpose, dotProduct_comm]

/-- Expansion of the objective around any point `x`:
`‖b − A y‖² = ‖b − A x‖² + 2 (x − y)·Aᵀ(b − A x) + ‖A (x − y)‖²`. -/
theorem objective_expansion (A : Matrix (Fin m) (Fin n) ℝ) (b : Fin m → ℝ) (x y : Fin n → ℝ) :
    (b - A *ᵥ y) ⬝ᵥ (b - A *ᵥ y)
      = (b - A *ᵥ x) ⬝ᵥ (b - A *ᵥ x) + 2 * ((x - y) ⬝ᵥ (Aᵀ *ᵥ (b - A *ᵥ x)))
        + (A *ᵥ (x - y)) ⬝ᵥ (A *ᵥ (x - y)) := by
  have hy : b - A *ᵥ y = (b - A *ᵥ x) + A *ᵥ (x - y) := by
    rw [Matrix.mulVec_sub]; abel
  rw [hy]
  simp only [add_dotProduct, dotProduct_add]
  rw [← dot_mulVec_eq A (b - A *ᵥ x) (x - y), dotProduct_comm (A *ᵥ (x - y)) (b - A *ᵥ x)]
  ring

/-- C01, variable projection: a residual orthogonal to every matrix column is the residual of a
minimiser of `‖b − A x‖` (over all `x`). -/
theorem vp_optimal (A : Matrix (Fin m) (Fin n) ℝ) (b : Fin m → ℝ) (c : Fin n → ℝ)
    (h : Aᵀ *ᵥ (b - A *ᵥ c) = 0) (x : Fin n → ℝ) :
    (b - A *ᵥ c) ⬝ᵥ (b - A *ᵥ c) ≤ (b - A *ᵥ x) ⬝ᵥ (b - A *ᵥ x) := by
  rw [objective_expansion A b c x, h]
  have := dot_self_nonneg (A *ᵥ (c - x))
  simp only [dotProduct_zero, mul_zero, add_zero]
  linarith

/-- The obligations discharged on `residual_variable_projection` in Q-coordinates imply the
hypothesis of `vp_optimal`:  with `A = Q·R'` (`R' = [R;0]`), `QᵀQ = 1`, the returned residual being
`Q·temp` (contract of `dormqr('N')`, obligation O3), `R'ᵀ·temp = 0` (obligation O5) and
`residual = b − A·clp` (obligation `residual_is_data_minus_matrix_times_clp`). -/
theorem vp_orthogonal_of_q_coordinates (Q : Matrix (Fin m) (Fin m) ℝ) (R' : Matrix (Fin m) (Fin n) ℝ)
    (temp b : Fin m → ℝ) (clp : Fin n → ℝ)
    (hQ : Qᵀ * Q = 1) (h5 : R'ᵀ *ᵥ temp = 0) (hres : b - (Q * R') *ᵥ clp = Q *ᵥ temp) :
    (Q * R')ᵀ *ᵥ (b - (Q * R') *ᵥ clp) = 0 := by
  rw [hres, Matrix.transpose_mul, ← Matrix.mulVec_mulVec, Matrix.mulVec_mulVec temp Qᵀ Q, hQ,
    Matrix.one_mulVec, h5]

/-- C01, variable projection, end to end in the terms of the contract. -/
theorem vp_minimises (Q : Matrix (Fin m) (Fin m) ℝ) (R' : Matrix (Fin m) (Fin n) ℝ)
    (temp b : Fin m → ℝ) (clp : Fin n → ℝ)
    (hQ : Qᵀ * Q = 1) (h5 : R'ᵀ *ᵥ temp = 0) (hres : b - (Q * R') *ᵥ clp = Q *ᵥ temp)
    (x : Fin n → ℝ) :
    (b - (Q * R') *ᵥ clp) ⬝ᵥ (b - (Q * R') *ᵥ clp) ≤ (b - (Q * R') *ᵥ x) ⬝ᵥ (b - (Q * R') *ᵥ x) :=
  vp_optimal (Q * R') b clp (vp_orthogonal_of_q_coordinates Q R' temp b clp hQ h5 hres) x

/-- C01, NNLS: a feasible point satisfying the Karush-Kuhn-Tucker conditions
(`w = Aᵀ(b − A x) ≤ 0`, `x_j w_j = 0`) minimises `‖b − A y‖` over all `y ≥ 0`. -/
theorem nnls_kkt_optimal (A : Matrix (Fin m) (Fin n) ℝ) (b : Fin m → ℝ) (x : Fin n → ℝ)
    (hw : ∀ j, (Aᵀ *ᵥ (b - A *ᵥ x)) j ≤ 0) (hc : ∀ j, x j * (Aᵀ *ᵥ (b - A *ᵥ x)) j = 0)
    (y : Fin n → ℝ) (hy : ∀ j, 0 ≤ y j) :
    (b - A *ᵥ x) ⬝ᵥ (b - A *ᵥ x) ≤ (b - A *ᵥ y) ⬝ᵥ (b - A *ᵥ y) := by
  rw [objective_expansion A b x y]
  have h1 := dot_self_nonneg (A *ᵥ (x - y))
  have h2 : 0 ≤ (x - y) ⬝ᵥ (Aᵀ *ᵥ (b - A *ᵥ x)) := by
    unfold dotProduct
    apply Finset.sum_nonneg
    intro j _
    have e : (x - y) j * (Aᵀ *ᵥ (b - A *ᵥ x)) j
        = x j * (Aᵀ *ᵥ (b - A *ᵥ x)) j - y j * (Aᵀ *ᵥ (b - A *ᵥ x)) j := by
      simp [Pi.sub_apply, sub_mul]
    rw [e, hc j]
    have := mul_nonpos_of_nonneg_of_nonpos (hy j) (hw j)
    linarith
  linarith

/-- C01, variable projection, from exactly what is discharged on the code for every m, n (PyVC-U obligations
O0-O3) and the contracts of the LAPACK routines:
* `w = Qᵀ b`  (first `dormqr`, O1a),
* row by row, either the projected vector was zeroed and `clp` solves that row of the triangular system
  (rows `< n`: O2 + `dtrtrs` contract), or the row of `[R;0]` is zero and the entry of `Qᵀ b` was kept (rows `≥ n`: O2),
* `residual = Q temp` (second `dormqr`, O3), `Q` orthogonal (`dgeqrf` contract).
Conclusion: the residual that enters the fit is `b − A clp`, it is orthogonal to the columns of `A = Q [R;0]`, and
`clp` minimises `‖b − A x‖`. -/
theorem vp_end_to_end (Q : Matrix (Fin m) (Fin m) ℝ) (R' : Matrix (Fin m) (Fin n) ℝ)
    (b w temp residual : Fin m → ℝ) (clp : Fin n → ℝ)
    (hQ1 : Qᵀ * Q = 1) (hQ2 : Q * Qᵀ = 1) (hw : w = Qᵀ *ᵥ b)
    (hrow : ∀ k, (temp k = 0 ∧ (R' *ᵥ clp) k = w k) ∨ ((∀ j, R' k j = 0) ∧ temp k = w k))
    (hres : residual = Q *ᵥ temp) :
    residual = b - (Q * R') *ᵥ clp ∧ (Q * R')ᵀ *ᵥ residual = 0 ∧
      ∀ x, residual ⬝ᵥ residual ≤ (b - (Q * R') *ᵥ x) ⬝ᵥ (b - (Q * R') *ᵥ x) := by
  have htemp : temp = w - R' *ᵥ clp := by
    funext k
    rcases hrow k with ⟨h0, hk⟩ | ⟨hz, hk⟩
    · simp [Pi.sub_apply, h0, hk]
    · have : (R' *ᵥ clp) k = 0 := by
        simp [Matrix.mulVec, dotProduct, hz]
      simp [Pi.sub_apply, hk, this]
  have h5 : R'ᵀ *ᵥ temp = 0 := by
    funext j
    simp only [Matrix.mulVec, dotProduct, Matrix.transpose_apply, Pi.zero_apply]
    apply Finset.sum_eq_zero
    intro k _
    rcases hrow k with ⟨h0, _⟩ | ⟨hz, _⟩
    · rw [h0, mul_zero]
    · rw [hz j, zero_mul]
  have hQw : Q *ᵥ w = b := by
    rw [hw, Matrix.mulVec_mulVec, hQ2, Matrix.one_mulVec]
  have hid : b - (Q * R') *ᵥ clp = Q *ᵥ temp := by
    rw [htemp, Matrix.mulVec_sub, hQw, Matrix.mulVec_mulVec]
  have horth := vp_orthogonal_of_q_coordinates Q R' temp b clp hQ1 h5 hid
  refine ⟨by rw [hres, hid], by rw [hres, ← hid]; exact horth, fun x => ?_⟩
  rw [hres, ← hid]
  exact vp_optimal (Q * R') b clp horth x

/-- C14: data generated without noise, `b = A c₀`, are reproduced exactly by a least-squares solution
(orthogonal residual): the residual vanishes, and at full column rank the estimated clp is `c₀`. -/
theorem exact_data_recovered (A : Matrix (Fin m) (Fin n) ℝ) (b : Fin m → ℝ) (c₀ clp : Fin n → ℝ)
    (hb : b = A *ᵥ c₀) (horth : Aᵀ *ᵥ (b - A *ᵥ clp) = 0) :
    b - A *ᵥ clp = 0 ∧ ((∀ x, A *ᵥ x = 0 → x = 0) → clp = c₀) := by
  have hr : b - A *ᵥ clp = A *ᵥ (c₀ - clp) := by rw [hb, Matrix.mulVec_sub]
  have h0 : (b - A *ᵥ clp) ⬝ᵥ (b - A *ᵥ clp) = 0 := by
    conv_lhs => rhs; rw [hr]
    rw [dot_mulVec_eq, horth, dotProduct_zero]
  have hres : b - A *ᵥ clp = 0 := dotProduct_self_eq_zero.mp h0
  refine ⟨hres, fun hinj => ?_⟩
  have := hinj (c₀ - clp) (by rw [← hr, hres])
  exact (sub_eq_zero.mp this).symm

end PyVC

#print axioms PyVC.vp_minimises
#print axioms PyVC.vp_end_to_end
#print axioms PyVC.nnls_kkt_optimal
#print axioms PyVC.exact_data_recovered
