/-
Lemma of analysis used by the C07 contracts (PyVC): the skewed Gaussian shape is continuous as the skewness tends to 0.

The contracts discharge on the real `SpectralShapeSkewedGaussian.calculate` the documented formula
    A · exp(-log 2 · (log(1 + 2 b (x - x₀)/Δ) / b)²)        (where the argument of the log is positive)
and, for |b| ≤ 1e-8, the exact fall-back to the Gaussian  A · exp(-log 2 · (2 (x - x₀)/Δ)²).  That the fall-back
*is* the limit of the formula for b → 0 (b ≠ 0), for every x, x₀, A and Δ, is proved here.
-/
import Mathlib.Analysis.SpecialFunctions.Log.Deriv
import Mathlib.Analysis.SpecialFunctions.ExpDeriv
import Mathlib.Analysis.Calculus.Deriv.Slope

open Real Filter Topology

namespace PyVC

theorem log_one_add_mul_div_tendsto (u : ℝ) :
    Tendsto (fun b : ℝ => log (1 + b * u) / b) (𝓝[≠] 0) (𝓝 u) := by
  have hin : HasDerivAt (fun b : ℝ => 1 + b * u) u 0 := by
    simpa using ((hasDerivAt_id (0:ℝ)).mul_const u).const_add 1
  have hlog : HasDerivAt (fun b : ℝ => log (1 + b * u)) u 0 := by
    have h := hin.log (by simp)
    simpa using h
  have hs := hasDerivAt_iff_tendsto_slope.mp hlog
  refine hs.congr' ?_
  filter_upwards [self_mem_nhdsWithin] with b _
  simp [slope_def_field]

theorem skewed_gaussian_limit (A x x₀ Δ : ℝ) :
    Tendsto (fun b : ℝ => A * exp (-log 2 * (log (1 + 2 * b * (x - x₀) / Δ) / b) ^ 2)) (𝓝[≠] 0)
      (𝓝 (A * exp (-log 2 * (2 * (x - x₀) / Δ) ^ 2))) := by
  have h := log_one_add_mul_div_tendsto (2 * (x - x₀) / Δ)
  have hc : Continuous fun y : ℝ => A * exp (-log 2 * y ^ 2) := by fun_prop
  have h2 := (hc.tendsto (2 * (x - x₀) / Δ)).comp h
  refine h2.congr (fun b => ?_)
  simp only [Function.comp]
  congr 6
  ring

/-- half maximum at ± FWHM/2 (the z3 side uses `exp(-log 2) = 1/2` as a ground axiom) -/
theorem gaussian_half_maximum (A x₀ Δ : ℝ) (hΔ : Δ ≠ 0) :
    A * exp (-log 2 * (2 * ((x₀ + Δ / 2) - x₀) / Δ) ^ 2) = A / 2
      ∧ A * exp (-log 2 * (2 * ((x₀ - Δ / 2) - x₀) / Δ) ^ 2) = A / 2 := by
  have h1 : 2 * ((x₀ + Δ / 2) - x₀) / Δ = 1 := by field_simp; ring
  have h2 : 2 * ((x₀ - Δ / 2) - x₀) / Δ = -1 := by field_simp; ring
  have he : exp (-log 2) = 1 / 2 := by
    rw [Real.exp_neg, Real.exp_log (by norm_num : (0:ℝ) < 2)]
    norm_num
  constructor
  · rw [h1]; simp [he]; ring
  · rw [h2]; simp [he]; ring

end PyVC

#print axioms PyVC.skewed_gaussian_limit
#print axioms PyVC.gaussian_half_maximum
