/-
Lemma of linear algebra used by the C13 contract (PyVC), for every size.

The contract on the real `Optimizer.calculate_covariance_matrix_and_standard_errors` discharges with z3
that the reported covariance is  C = Σ_{i retained} v_i v_iᵀ / s_i²  = V · diag(d) · Vᵀ  with
d_i = 1/s_i² for the retained singular values and d_i = 0 otherwise, where `numpy.linalg.svd`
(contract, trusted) returned J = U · diag(s) · Vᵀ with UᵀU = 1 and VᵀV = 1.

What remains is mathematics: C is the Moore-Penrose pseudo-inverse of JᵀJ (all four Penrose
conditions, and symmetry), provided every singular value that was cut off is exactly zero;
in general C is the pseudo-inverse of the truncated V · diag(retained s²) · Vᵀ.
-/
import Mathlib.Data.Matrix.Mul
import Mathlib.Data.Matrix.Diagonal
import Mathlib.Data.Real.Basic
import Mathlib.Tactic.Ring
import Mathlib.Tactic.FieldSimp
import Mathlib.Tactic.Linarith

open Matrix

namespace PyVC

variable {m p k : ℕ}

/-- `JᵀJ = V diag(s²) Vᵀ` from the singular value decomposition. -/
theorem gram_of_svd (U : Matrix (Fin m) (Fin k) ℝ) (V : Matrix (Fin p) (Fin k) ℝ) (s : Fin k → ℝ)
    (hU : Uᵀ * U = 1) :
    (U * diagonal s * Vᵀ)ᵀ * (U * diagonal s * Vᵀ) = V * diagonal (fun i => s i * s i) * Vᵀ := by
  rw [Matrix.transpose_mul, Matrix.transpose_mul, Matrix.transpose_transpose, Matrix.diagonal_transpose]
  calc V * (diagonal s * Uᵀ) * (U * diagonal s * Vᵀ)
      = V * (diagonal s * (Uᵀ * U) * diagonal s) * Vᵀ := by simp only [Matrix.mul_assoc]
    _ = V * diagonal (fun i => s i * s i) * Vᵀ := by
        rw [hU, Matrix.mul_one, Matrix.diagonal_mul_diagonal]

/-- product of two matrices of the form `V diag(.) Vᵀ` with `VᵀV = 1`. -/
theorem sandwich_mul (V : Matrix (Fin p) (Fin k) ℝ) (hV : Vᵀ * V = 1) (a b : Fin k → ℝ) :
    (V * diagonal a * Vᵀ) * (V * diagonal b * Vᵀ) = V * diagonal (fun i => a i * b i) * Vᵀ := by
  calc (V * diagonal a * Vᵀ) * (V * diagonal b * Vᵀ)
      = V * (diagonal a * (Vᵀ * V) * diagonal b) * Vᵀ := by simp only [Matrix.mul_assoc]
    _ = V * diagonal (fun i => a i * b i) * Vᵀ := by
        rw [hV, Matrix.mul_one, Matrix.diagonal_mul_diagonal]

theorem sandwich_symm (V : Matrix (Fin p) (Fin k) ℝ) (a : Fin k → ℝ) :
    (V * diagonal a * Vᵀ)ᵀ = V * diagonal a * Vᵀ := by
  rw [Matrix.transpose_mul, Matrix.transpose_mul, Matrix.transpose_transpose, Matrix.diagonal_transpose,
    Matrix.mul_assoc]

/-- C13: the four Penrose conditions for `C = V diag(d) Vᵀ` against `G = V diag(lam) Vᵀ`,
given `lam_i d_i lam_i = lam_i` and `d_i lam_i d_i = d_i` for every i
(true for d_i = 1/lam_i on the retained values and d_i = 0 = lam_i on the others). -/
theorem penrose_conditions (V : Matrix (Fin p) (Fin k) ℝ) (hV : Vᵀ * V = 1) (lam d : Fin k → ℝ)
    (h1 : ∀ i, lam i * d i * lam i = lam i) (h2 : ∀ i, d i * lam i * d i = d i) :
    let G := V * diagonal lam * Vᵀ
    let C := V * diagonal d * Vᵀ
    G * C * G = G ∧ C * G * C = C ∧ (G * C)ᵀ = G * C ∧ (C * G)ᵀ = C * G ∧ Cᵀ = C := by
  intro G C
  refine ⟨?_, ?_, ?_, ?_, ?_⟩
  · show (V * diagonal lam * Vᵀ) * (V * diagonal d * Vᵀ) * (V * diagonal lam * Vᵀ) = _
    rw [sandwich_mul V hV, sandwich_mul V hV]
    have e : (fun i => (fun i => lam i * d i) i * lam i) = lam := funext h1
    rw [e]
  · show (V * diagonal d * Vᵀ) * (V * diagonal lam * Vᵀ) * (V * diagonal d * Vᵀ) = _
    rw [sandwich_mul V hV, sandwich_mul V hV]
    have e : (fun i => (fun i => d i * lam i) i * d i) = d := funext h2
    rw [e]
  · show ((V * diagonal lam * Vᵀ) * (V * diagonal d * Vᵀ))ᵀ = _
    rw [sandwich_mul V hV, sandwich_symm]
  · show ((V * diagonal d * Vᵀ) * (V * diagonal lam * Vᵀ))ᵀ = _
    rw [sandwich_mul V hV, sandwich_symm]
  · exact sandwich_symm V d

/-- The cut-off used by the code: `d_i = 1/s_i²` where `s_i² > eps`, `0` elsewhere; the hypotheses of
`penrose_conditions` hold when every value that is cut off is exactly zero. -/
theorem cutoff_inverse_conditions (eps : ℝ) (heps : 0 ≤ eps) (s : Fin k → ℝ)
    (hcut : ∀ i, s i * s i > eps ∨ s i = 0) :
    let lam := fun i => s i * s i
    let d := fun i => if s i * s i > eps then 1 / (s i * s i) else 0
    (∀ i, lam i * d i * lam i = lam i) ∧ (∀ i, d i * lam i * d i = d i) := by
  intro lam d
  constructor
  · intro i
    show s i * s i * (if s i * s i > eps then 1 / (s i * s i) else 0) * (s i * s i) = s i * s i
    by_cases h : s i * s i > eps
    · have hne : s i * s i ≠ 0 := ne_of_gt (lt_of_le_of_lt heps h)
      rw [if_pos h]
      field_simp
    · rcases hcut i with h' | h'
      · exact absurd h' h
      · rw [h']; simp
  · intro i
    show (if s i * s i > eps then 1 / (s i * s i) else 0) * (s i * s i)
        * (if s i * s i > eps then 1 / (s i * s i) else 0)
        = (if s i * s i > eps then 1 / (s i * s i) else 0)
    by_cases h : s i * s i > eps
    · have hne : s i * s i ≠ 0 := ne_of_gt (lt_of_le_of_lt heps h)
      rw [if_pos h]
      field_simp
    · rw [if_neg h]; simp

end PyVC

#print axioms PyVC.gram_of_svd
#print axioms PyVC.penrose_conditions
#print axioms PyVC.cutoff_inverse_conditions
