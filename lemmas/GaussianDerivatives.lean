/-
Lemma of analysis used by the C07 contracts (PyVC): the coherent-artifact columns discharged on the kernels,
    g(t) = exp(-(t - c)^2 / (2 w^2)),   g(t) (c - t) / w^2,   g(t) ((c - t)^2 - w^2) / w^4,
are the IRF Gaussian and its first and second time derivatives (w ≠ 0, all c, t).
-/
import Mathlib.Analysis.SpecialFunctions.ExpDeriv
import Mathlib.Analysis.Calculus.Deriv.Pow
import Mathlib.Analysis.Calculus.Deriv.Mul
import Mathlib.Tactic.FieldSimp
import Mathlib.Tactic.Ring

open Real

namespace PyVC

noncomputable def g (c w t : ℝ) : ℝ := exp (-(t - c) ^ 2 / (2 * w ^ 2))

theorem sq_hasDerivAt (c t : ℝ) : HasDerivAt (fun t : ℝ => (t - c) ^ 2) (2 * (t - c)) t := by
  have h0 : HasDerivAt (fun t : ℝ => t - c) 1 t := by simpa using (hasDerivAt_id t).sub_const c
  have h := h0.fun_pow 2
  simp only [Nat.cast_ofNat, Nat.add_one_sub_one, pow_one, mul_one] at h
  exact h

theorem g_hasDerivAt (c w : ℝ) (hw : w ≠ 0) (t : ℝ) :
    HasDerivAt (g c w) (g c w t * (c - t) / w ^ 2) t := by
  have h1 : HasDerivAt (fun t : ℝ => -(t - c) ^ 2 / (2 * w ^ 2)) (-(2 * (t - c)) / (2 * w ^ 2)) t :=
    ((sq_hasDerivAt c t).fun_neg).div_const (2 * w ^ 2)
  have h2 : HasDerivAt (fun t : ℝ => exp (-(t - c) ^ 2 / (2 * w ^ 2)))
      (exp (-(t - c) ^ 2 / (2 * w ^ 2)) * (-(2 * (t - c)) / (2 * w ^ 2))) t := h1.exp
  have e : exp (-(t - c) ^ 2 / (2 * w ^ 2)) * (-(2 * (t - c)) / (2 * w ^ 2)) = g c w t * (c - t) / w ^ 2 := by
    unfold g
    field_simp
    ring
  exact h2.congr_deriv e

theorem g'_hasDerivAt (c w : ℝ) (hw : w ≠ 0) (t : ℝ) :
    HasDerivAt (fun t => g c w t * (c - t) / w ^ 2) (g c w t * ((c - t) ^ 2 - w ^ 2) / w ^ 4) t := by
  have h1 := g_hasDerivAt c w hw t
  have h2 : HasDerivAt (fun t : ℝ => c - t) (-1) t := by
    simpa using (hasDerivAt_id t).const_sub c
  have h3 : HasDerivAt (fun t : ℝ => g c w t * (c - t) / w ^ 2)
      ((g c w t * (c - t) / w ^ 2 * (c - t) + g c w t * -1) / w ^ 2) t := (h1.fun_mul h2).div_const (w ^ 2)
  have e : (g c w t * (c - t) / w ^ 2 * (c - t) + g c w t * -1) / w ^ 2 = g c w t * ((c - t) ^ 2 - w ^ 2) / w ^ 4 := by
    field_simp
    ring
  exact h3.congr_deriv e

end PyVC

#print axioms PyVC.g_hasDerivAt
#print axioms PyVC.g'_hasDerivAt
