/-
Lemma of linear algebra / analysis used by the C04 contracts (PyVC), for every number of compartments.

The contracts on the real code (`contracts/c04_decay.py`) discharge, with z3, for the A-matrix `A` and
the rates `r` computed by the real `KMatrix.a_matrix` / `KMatrix.rates`:

  * `rate_equation_K_A_l_equals_minus_rate_A_l[l]` :  K · A[l,:]ᵀ = −r_l · A[l,:]ᵀ   (for every l)
  * `initial_condition_sum_of_A_rows_is_j`          :  Σ_l A[l,:] = j
  * `column_of_compartment_is_sum_A_exp_minus_rate_t` : column c of the matrix at time t is Σ_l A[l,c]·exp(−r_l t)

What remains is mathematics: these imply that the columns are the components of exp(K t) j - the
solution of the compartmental rate equations c' = K c, c(0) = j.  No assumption on the eigenvalues
(distinct or not) or on A being invertible is needed.
-/
import Mathlib.Analysis.Normed.Algebra.MatrixExponential
import Mathlib.Analysis.SpecialFunctions.Exponential

open Matrix NormedSpace
open scoped Nat Matrix.Norms.Operator

namespace PyVC

variable {n : ℕ}

theorem pow_mulVec_eigen (M : Matrix (Fin n) (Fin n) ℝ) (v : Fin n → ℝ) (μ : ℝ)
    (h : M *ᵥ v = μ • v) (k : ℕ) : (M ^ k) *ᵥ v = μ ^ k • v := by
  induction k with
  | zero => simp
  | succ k ih =>
    rw [pow_succ, ← Matrix.mulVec_mulVec, h, Matrix.mulVec_smul, ih, smul_smul, pow_succ, mul_comm]

/-- An eigenvector of `M` is an eigenvector of `exp M`, with eigenvalue `exp μ`. -/
theorem exp_mulVec_eigen (M : Matrix (Fin n) (Fin n) ℝ) (v : Fin n → ℝ) (μ : ℝ)
    (h : M *ᵥ v = μ • v) : (exp M) *ᵥ v = Real.exp μ • v := by
  have hs : HasSum (fun k : ℕ => ((k !⁻¹ : ℝ)) • M ^ k) (exp M) :=
    exp_series_hasSum_exp' (𝕂 := ℝ) M
  have hc : Continuous (fun A : Matrix (Fin n) (Fin n) ℝ => A *ᵥ v) :=
    Continuous.matrix_mulVec continuous_id continuous_const
  have h1 := hs.map (Matrix.mulVec.addMonoidHomLeft v) hc
  have h2 : HasSum (fun k : ℕ => (μ ^ k / (k ! : ℝ)) • v) (Real.exp μ • v) := by
    rw [Real.exp_eq_exp_ℝ]
    exact (expSeries_div_hasSum_exp μ).smul_const v
  have e : (Matrix.mulVec.addMonoidHomLeft v ∘ fun k : ℕ => ((k !⁻¹ : ℝ)) • M ^ k)
      = fun k : ℕ => (μ ^ k / (k ! : ℝ)) • v := by
    funext k
    simp [Matrix.mulVec.addMonoidHomLeft, Matrix.smul_mulVec, pow_mulVec_eigen M v μ h k,
      smul_smul, div_eq_inv_mul]
  rw [e] at h1
  exact h1.unique h2

/-- C04: the decay columns are the solution of the rate equations.
`a l` is row `l` of the A-matrix (a vector over the compartments). -/
theorem decay_columns_are_matrix_exponential (K : Matrix (Fin n) (Fin n) ℝ)
    (a : Fin n → Fin n → ℝ) (r : Fin n → ℝ) (j : Fin n → ℝ) (t : ℝ)
    (hrate : ∀ l, K *ᵥ (a l) = (-(r l)) • a l) (hinit : ∑ l, a l = j) :
    (exp (t • K)) *ᵥ j = ∑ l, Real.exp (-(r l) * t) • a l := by
  rw [← hinit, Matrix.mulVec_sum]
  apply Finset.sum_congr rfl
  intro l _
  apply exp_mulVec_eigen
  rw [Matrix.smul_mulVec, hrate l, smul_smul, mul_comm]

/-- componentwise form: the concentration of compartment `c` at time `t`. -/
theorem decay_concentration (K : Matrix (Fin n) (Fin n) ℝ)
    (a : Fin n → Fin n → ℝ) (r : Fin n → ℝ) (j : Fin n → ℝ) (t : ℝ)
    (hrate : ∀ l, K *ᵥ (a l) = (-(r l)) • a l) (hinit : ∑ l, a l = j) (c : Fin n) :
    ((exp (t • K)) *ᵥ j) c = ∑ l, a l c * Real.exp (-(r l) * t) := by
  rw [decay_columns_are_matrix_exponential K a r j t hrate hinit]
  simp [Finset.sum_apply, mul_comm]

end PyVC

#print axioms PyVC.decay_concentration
