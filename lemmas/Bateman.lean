/-
Lemma of algebra used by the C04 contracts (PyVC): the closed form that `KMatrix.a_matrix_sequential` evaluates,

    A[i][j] = (∏_{m<j} k_m) / (∏_{m≤j, m≠i} (k_m − k_i))   for i ≤ j,      0 otherwise,

is Bateman's solution of the chain 0 → 1 → … → n−1 → ∅ for EVERY number of compartments n and pairwise distinct
rates: the rows satisfy the rate equations  k_{a−1}·A[l][a−1] − k_a·A[l][a] = −k_l·A[l][a]  and the initial
condition  Σ_l A[l][a] = δ_{a0}  (everything starts in the first compartment) - exactly the two identities the z3
contracts discharge on the real code for chains of up to 5 (6) compartments.  The initial condition is the
vanishing of the sum of the Lagrange nodal weights of at least two distinct nodes, proved here from Mathlib's
`Lagrange.sum_basis` by comparing leading coefficients.
-/
import Mathlib.LinearAlgebra.Lagrange
import Mathlib.Data.Real.Basic

open Polynomial Finset

namespace PyVC

variable {ι : Type*} [DecidableEq ι]

/-- leading coefficient of a Lagrange basis polynomial = its nodal weight -/
theorem leadingCoeff_basis (s : Finset ι) (v : ι → ℝ) (i : ι) :
    (Lagrange.basis s v i).leadingCoeff = Lagrange.nodalWeight s v i := by
  unfold Lagrange.basis Lagrange.nodalWeight
  rw [Polynomial.leadingCoeff_prod]
  apply Finset.prod_congr rfl
  intro j _
  unfold Lagrange.basisDivisor
  rw [Polynomial.leadingCoeff_mul, Polynomial.leadingCoeff_C, Polynomial.leadingCoeff_X_sub_C, mul_one]

/-- The nodal weights of at least two distinct nodes sum to zero. -/
theorem sum_nodalWeight_eq_zero (s : Finset ι) (v : ι → ℝ) (hvs : Set.InjOn v s) (hs : 2 ≤ s.card) :
    ∑ i ∈ s, Lagrange.nodalWeight s v i = 0 := by
  have hne : s.Nonempty := Finset.card_pos.mp (by omega)
  have h1 := Lagrange.sum_basis hvs hne
  have hc := congrArg (fun p : ℝ[X] => p.coeff (s.card - 1)) h1
  simp only [Polynomial.finsetSum_coeff] at hc
  have h0 : (1 : ℝ[X]).coeff (s.card - 1) = 0 := by
    rw [Polynomial.coeff_one]
    have : s.card - 1 ≠ 0 := by omega
    simp [this]
  rw [h0] at hc
  rw [← hc]
  apply Finset.sum_congr rfl
  intro i hi
  rw [← leadingCoeff_basis, Polynomial.leadingCoeff, Lagrange.natDegree_basis hvs hi]


/-! ### The closed form of the sequential (chain) model: Bateman's solution -/

/-- numerator: product of the rates before compartment `j` -/
noncomputable def P (k : ℕ → ℝ) (j : ℕ) : ℝ := ∏ m ∈ range j, k m

/-- denominator for component `i` in compartment `j` -/
noncomputable def D (k : ℕ → ℝ) (i j : ℕ) : ℝ := ∏ m ∈ (range (j + 1)).erase i, (k m - k i)

/-- the A-matrix of `KMatrix.a_matrix_sequential`: row = component (rate `k i`), column = compartment -/
noncomputable def A (k : ℕ → ℝ) (i j : ℕ) : ℝ := if i ≤ j then P k j / D k i j else 0

theorem D_ne_zero (k : ℕ → ℝ) (n : ℕ) (hk : Set.InjOn k (range n : Set ℕ)) {i j : ℕ} (hi : i ≤ j) (hj : j < n) :
    D k i j ≠ 0 := by
  unfold D
  rw [Finset.prod_ne_zero_iff]
  intro m hm
  rw [Finset.mem_erase, Finset.mem_range] at hm
  intro h
  have hm' : m ∈ (range n : Set ℕ) := by simp; omega
  have hi' : i ∈ (range n : Set ℕ) := by simp; omega
  exact hm.1 (hk hm' hi' (sub_eq_zero.mp h))

theorem D_succ (k : ℕ → ℝ) {i b : ℕ} (hi : i ≤ b) : D k i (b + 1) = D k i b * (k (b + 1) - k i) := by
  unfold D
  have h : (range (b + 1 + 1)).erase i = insert (b + 1) ((range (b + 1)).erase i) := by
    ext m
    simp only [Finset.mem_erase, Finset.mem_range, Finset.mem_insert]
    omega
  rw [h, Finset.prod_insert, mul_comm]
  simp only [Finset.mem_erase, Finset.mem_range]
  omega

/-- rate equations of the chain `0 → 1 → … `: for every component `l` and compartment `a`,
`k_{a-1} A[l][a-1] − k_a A[l][a] = −k_l A[l][a]`  (the term with `a-1` absent for `a = 0`). -/
theorem bateman_rate_equation (k : ℕ → ℝ) (n : ℕ) (hk : Set.InjOn k (range n : Set ℕ)) (l a : ℕ) (ha : a < n) :
    (if 1 ≤ a then k (a - 1) * A k l (a - 1) else 0) - k a * A k l a = -(k l) * A k l a := by
  rcases Nat.lt_trichotomy l a with hlt | heq | hgt
  · -- l < a: a = b + 1
    obtain ⟨b, rfl⟩ : ∃ b, a = b + 1 := ⟨a - 1, by omega⟩
    have hlb : l ≤ b := by omega
    have hD := D_ne_zero k n hk hlb (by omega : b < n)
    have hx : k (b + 1) - k l ≠ 0 := by
      intro h
      have h1 : (b + 1) ∈ (range n : Set ℕ) := by simp; omega
      have h2 : l ∈ (range n : Set ℕ) := by simp; omega
      have := hk h1 h2 (sub_eq_zero.mp h)
      omega
    simp only [A, hlb, (by omega : l ≤ b + 1), if_true, (by omega : 1 ≤ b + 1), Nat.add_sub_cancel]
    rw [D_succ k hlb]
    unfold P
    rw [Finset.prod_range_succ]
    field_simp
    ring
  · subst heq
    by_cases h1 : 1 ≤ l
    · have : ¬ (l ≤ l - 1) := by omega
      simp [A, h1, this]
    · simp [A, h1]
  · have h2 : ¬ (l ≤ a) := by omega
    have h3 : ¬ (l ≤ a - 1) := by omega
    simp [A, h2, h3]

/-- initial condition: everything starts in the first compartment, `Σ_l A[l][a] = δ_{a0}`. -/
theorem bateman_initial_condition (k : ℕ → ℝ) (n : ℕ) (hk : Set.InjOn k (range n : Set ℕ)) (a : ℕ) (ha : a < n) :
    ∑ l ∈ range n, A k l a = if a = 0 then 1 else 0 := by
  -- only l ≤ a contribute
  have hsplit : ∑ l ∈ range n, A k l a = ∑ l ∈ range (a + 1), P k a / D k l a := by
    rw [← Finset.sum_subset (Finset.range_mono (by omega : a + 1 ≤ n))]
    · apply Finset.sum_congr rfl
      intro l hl
      rw [Finset.mem_range] at hl
      simp [A, (by omega : l ≤ a)]
    · intro l _ hl
      rw [Finset.mem_range] at hl
      have : ¬ l ≤ a := by omega
      unfold A
      rw [if_neg this]
  rw [hsplit]
  by_cases h0 : a = 0
  · subst h0
    simp [P, D]
  · rw [if_neg h0]
    have hk' : Set.InjOn k ((range (a + 1) : Finset ℕ) : Set ℕ) := by
      intro x hx y hy hxy
      apply hk _ _ hxy
      · simp at hx ⊢; omega
      · simp at hy ⊢; omega
    have hz := sum_nodalWeight_eq_zero (range (a + 1)) k hk' (by simp; omega)
    -- 1 / D l a = (-1)^a * nodalWeight
    have hD : ∀ l ∈ range (a + 1), P k a / D k l a = P k a * (-1) ^ a * Lagrange.nodalWeight (range (a + 1)) k l := by
      intro l hl
      unfold D Lagrange.nodalWeight
      rw [div_eq_mul_inv, mul_assoc]
      congr 1
      rw [← Finset.prod_inv_distrib]
      have hcard : ((range (a + 1)).erase l).card = a := by
        rw [Finset.card_erase_of_mem hl, Finset.card_range]; rfl
      have hp : (-1 : ℝ) ^ a = ∏ _m ∈ (range (a + 1)).erase l, (-1 : ℝ) := by
        rw [Finset.prod_const, hcard]
      rw [hp, ← Finset.prod_mul_distrib]
      apply Finset.prod_congr rfl
      intro m _
      rw [← neg_sub (k l) (k m), inv_neg]
      ring
    rw [Finset.sum_congr rfl hD, ← Finset.mul_sum, hz, mul_zero]

end PyVC

#print axioms PyVC.bateman_rate_equation
#print axioms PyVC.bateman_initial_condition
