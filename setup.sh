#!/bin/bash
# Build the overlay venv: python 3.12 (repo deps via .pth onto /venv) + z3-solver + cvc5 from the offline wheelhouse.
set -e
HERE="$(cd "$(dirname "$0")" && pwd)"
cd "$HERE"
if [ -x .venv/bin/python ] && .venv/bin/python -c "import z3, numpy, glotaran" >/dev/null 2>&1; then
  echo "venv ok"; exit 0
fi
rm -rf .venv
/venv/bin/python -m venv .venv
PIP_NO_INDEX=1 .venv/bin/pip install -q --no-index --find-links /opt/veriftools/wheels z3-solver cvc5 jsonschema
SP=$(.venv/bin/python -c "import sysconfig; print(sysconfig.get_paths()['purelib'])")
echo "import site; site.addsitedir('/venv/lib/python3.12/site-packages')" > "$SP/repo_overlay.pth"
.venv/bin/python -c "import z3, numpy, glotaran; print('venv built', z3.get_version_string())"
