"""Toy functions for the self-test of the PyVC-U proof rules (pyvc/wp.py): each rule must *reject* what it should."""


def fill(a, n):
    for i in range(n):
        a[i] = 1


def fill_rows(m, rows):
    for i in range(rows):
        fill(m[i], 3)


def write_other(a, b):
    b[0] = 5


def out_of_bounds(a, n):
    a[n] = 0


def alias(a):
    b = a
    b[0] = 1


def early(a, n):
    for i in range(n - 1):
        a[i] = 1


def zip_copy(a, b, out):
    idx = 0
    for x, y in zip(a, b):
        out[idx] = x + y
        idx += 1


def complex_parts(a, out):
    z = (2.0 + 1j * a[0]) * (0 - 1j)
    out[0] = z.real
    out[1] = z.imag
