"""Path exploration (decision-replay DFS) and obligation discharge for PyVC."""
from __future__ import annotations

import os
import subprocess
import tempfile
import time
from fractions import Fraction

import z3

from . import sym
from .sym import EngineError, PathAbort, SymBool, SymReal

FEAS_TIMEOUT_MS = 2000


class PathCtx:
    """One execution of the code under contract along one decision sequence."""

    def __init__(self, prefix, base_constraints=()):
        self.prefix = list(prefix)
        self.decisions: list[bool] = []
        self.forced: list[bool] = []  # decision i had only one feasible side
        self.pc: list = []  # z3 constraints of this path (branches + assumptions)
        self.branch_at: list[int] = []  # index in pc of decision i (or -1 if forced)
        self.nonzero: list = []
        self.ghost: dict = {}
        self.notes: list[str] = []
        self.solver = z3.Solver()
        self.solver.set("timeout", FEAS_TIMEOUT_MS)
        # a second solver holding only the linear constraints: an over-approximation of the path used
        # to settle forced decisions quickly (unsat there => unsat under the full path condition)
        self.lin = z3.Solver()
        self.lin.set("timeout", FEAS_TIMEOUT_MS)
        self.decided = {}
        for c in base_constraints:
            self._add(c)
            self.pc.append(c)
        self.n_base = len(self.pc)
        self.feas_unknown = 0

    # -- assumptions
    def assume(self, cond, note=None):
        """Add a constraint that is not a branch (precondition, callee post-condition)."""
        t = sym.as_bool_term(cond)
        self.pc.append(t)
        self._add(t)
        if note:
            self.notes.append(note)

    def _add(self, t):
        self.solver.add(t)
        if is_linear(t):
            self.lin.add(t)

    def assume_nonzero(self, den):
        s = z3.simplify(den)
        if z3.is_rational_value(s):
            if s.numerator_as_long() == 0:
                raise ZeroDivisionError("division by zero")
            return
        key = s.sexpr()
        if key in self.ghost.setdefault("_nz", set()):
            return
        self.ghost["_nz"].add(key)
        self.nonzero.append(s)
        c = s != 0
        self.pc.append(c)
        self._add(c)

    # -- the only place paths fork
    def branch(self, cond) -> bool:
        cond = z3.simplify(cond)
        if z3.is_true(cond):
            return True
        if z3.is_false(cond):
            return False
        key = cond.get_id()
        hit = self.decided.get(key)
        if hit is not None and hit[0].eq(cond):
            # the same condition was decided earlier on this path: the path condition implies it
            # (the term is kept alive in the cache, so its id cannot be reused for another term)
            return hit[1]
        i = len(self.decisions)
        if i < len(self.prefix):
            choice, forced = self.prefix[i]
        else:
            can_t = can_f = None
            if is_linear(cond):
                # settle implied conditions on the linear over-approximation of the path (the path itself
                # is feasible, so if one side is impossible the other one is taken)
                if self.lin.check(z3.Not(cond)) == z3.unsat:
                    can_t, can_f = True, False
                elif self.lin.check(cond) == z3.unsat:
                    can_t, can_f = False, True
            if can_t is None:
                can_t = self._feasible(cond)
                can_f = self._feasible(z3.Not(cond))
            if can_t and can_f:
                choice, forced = True, False
            elif can_t:
                choice, forced = True, True
            elif can_f:
                choice, forced = False, True
            else:
                raise PathAbort()
        self.decisions.append((choice, forced))
        self.decided[key] = (cond, choice)
        if not forced:
            c = cond if choice else z3.Not(cond)
            self.pc.append(c)
            self._add(c)
        return choice

    def _feasible(self, c) -> bool:
        if is_linear(c) and self.lin.check(c) == z3.unsat:
            return False
        r = self.solver.check(c)
        if r == z3.unknown:
            self.feas_unknown += 1
            return True
        return r == z3.sat


_LIN_CACHE = {}


def is_linear(t) -> bool:
    """No product of two non-numeral terms, no division by a non-numeral, no uninterpreted function."""
    i = t.get_id()
    hit = _LIN_CACHE.get(i)
    if hit is not None and hit[0].eq(t):
        return hit[1]
    r = True
    if z3.is_app(t):
        k = t.decl().kind()
        ch = t.children()
        if k == z3.Z3_OP_MUL:
            if sum(0 if z3.is_rational_value(c) or z3.is_int_value(c) else 1 for c in ch) > 1:
                r = False
        elif k == z3.Z3_OP_DIV:
            if not (z3.is_rational_value(ch[1]) or z3.is_int_value(ch[1])):
                r = False
        elif k == z3.Z3_OP_POWER:
            r = False
        elif k == z3.Z3_OP_UNINTERPRETED and t.num_args() > 0:
            r = False
        if r:
            r = all(is_linear(c) for c in ch)
    elif z3.is_quantifier(t):
        r = False
    if len(_LIN_CACHE) < 200000:
        _LIN_CACHE[i] = (t, r)  # the term is kept alive: ids of freed terms are reused by z3
    return r


class Path:
    __slots__ = ("pc", "outcome", "value", "ghost", "decisions", "nonzero", "notes", "extra")

    def __init__(self, ctx, outcome, value):
        self.pc = list(ctx.pc)
        self.outcome = outcome  # 'ok' | 'exc'
        self.value = value
        self.ghost = ctx.ghost
        self.decisions = list(ctx.decisions)
        self.nonzero = list(ctx.nonzero)
        self.notes = list(ctx.notes)
        self.extra = {}


class Budget(Exception):
    pass


def explore(run, max_paths=2000, base_constraints=()):
    """Enumerate all feasible paths of ``run(ctx)``.

    ``run`` is re-executed from the start for each decision sequence.  Exceptions raised by
    the code under contract are outcomes ('exc'); EngineError propagates (undecided).
    """
    stack = [[]]
    paths = []
    while stack:
        prefix = stack.pop()
        ctx = PathCtx(prefix, base_constraints)
        sym.CUR = ctx
        try:
            try:
                value = run(ctx)
                outcome = "ok"
            except PathAbort:
                continue
            except EngineError:
                raise
            except RecursionError:
                raise
            except Exception as e:  # exceptional outcome of the code under contract
                value = e
                outcome = "exc"
        finally:
            sym.CUR = None
        # schedule the unexplored siblings of the decisions made beyond the prefix
        for i in range(len(prefix), len(ctx.decisions)):
            choice, forced = ctx.decisions[i]
            if not forced:
                stack.append(ctx.decisions[:i] + [(not choice, False)])
        paths.append(Path(ctx, outcome, value))
        if len(paths) > max_paths:
            raise Budget(f"more than {max_paths} paths")
    return paths


# ----------------------------------------------------------------------------- discharge
class Verdict:
    __slots__ = ("name", "status", "backend", "time_s", "model", "smt2", "reason", "path_index", "strength")

    def __init__(self, name, status, backend, time_s, model=None, smt2=None, reason="", path_index=None, strength="S"):
        self.name = name
        self.status = status  # 'proved' | 'refuted' | 'unknown'
        self.backend = backend
        self.time_s = time_s
        self.model = model
        self.smt2 = smt2
        self.reason = reason
        self.path_index = path_index
        self.strength = strength

    def as_dict(self):
        return {k: getattr(self, k) for k in self.__slots__}


def _model_to_dict(m):
    out = {}
    for d in m.decls():
        if d.arity() != 0:
            continue
        v = m[d]
        try:
            if z3.is_rational_value(v):
                out[d.name()] = str(Fraction(v.numerator_as_long(), v.denominator_as_long()))
            elif z3.is_algebraic_value(v):
                a = v.approx(20)
                out[d.name()] = str(Fraction(a.numerator_as_long(), a.denominator_as_long()))
            elif z3.is_true(v) or z3.is_false(v):
                out[d.name()] = bool(z3.is_true(v))
            elif z3.is_int_value(v):
                out[d.name()] = v.as_long()
            else:
                out[d.name()] = str(v)
        except Exception:
            out[d.name()] = str(v)
    return out


CVC5_BIN = "/usr/bin/cvc5"


def run_cvc5(smt2: str, timeout_s: float):
    """Return 'unsat' | 'sat' | 'unknown' from the cvc5 CLI on an SMT-LIB script."""
    if not os.path.exists(CVC5_BIN):
        return "unknown", "cvc5 binary missing"
    with tempfile.NamedTemporaryFile("w", suffix=".smt2", delete=False, dir=os.environ.get("PYVC_TMP")) as f:
        f.write("(set-logic ALL)\n" + smt2 + "\n")
        fn = f.name
    try:
        p = subprocess.run(
            [CVC5_BIN, "--lang=smt2", f"--tlimit={int(timeout_s * 1000)}", "--nl-ext-tplanes", fn],
            capture_output=True,
            text=True,
            timeout=timeout_s + 5,
        )
        out = p.stdout.strip().splitlines()
        res = out[0].strip() if out else "unknown"
        if res not in ("sat", "unsat"):
            res = "unknown"
        return res, (p.stderr.strip()[:200] if res == "unknown" else "")
    except subprocess.TimeoutExpired:
        return "unknown", "cvc5 timeout"
    finally:
        try:
            os.unlink(fn)
        except OSError:
            pass


def discharge(name, hyps, goal, timeout_s=20.0, axioms=(), want_smt2=False, use_cvc5=True):
    """Decide ``hyps ∧ axioms ⇒ goal``; z3 first, cvc5 on z3's unknown."""
    t0 = time.time()
    goal = sym.as_bool_term(goal)
    g = z3.simplify(goal)
    if z3.is_true(g):
        return Verdict(name, "proved", "z3-simplify", time.time() - t0, smt2=None)
    s = z3.Solver()
    s.set("timeout", int(timeout_s * 1000))
    for h in hyps:
        s.add(h)
    for a in axioms:
        s.add(a)
    s.add(z3.Not(goal))
    smt2 = s.to_smt2() if want_smt2 else None
    r = s.check()
    if r == z3.unsat:
        return Verdict(name, "proved", "z3", time.time() - t0, smt2=smt2)
    if r == z3.sat:
        return Verdict(name, "refuted", "z3", time.time() - t0, model=_model_to_dict(s.model()), smt2=smt2)
    reason = s.reason_unknown()
    if use_cvc5:
        script = s.to_smt2()
        res, err = run_cvc5(script, timeout_s)
        if res == "unsat":
            return Verdict(name, "proved", "cvc5", time.time() - t0, smt2=smt2)
        if res == "sat":
            # cvc5 gives no model through this route; report refuted without model
            return Verdict(name, "refuted", "cvc5", time.time() - t0, model=None, smt2=smt2, reason="cvc5 sat")
        reason += f"; cvc5: {err or 'unknown'}"
    return Verdict(name, "unknown", "z3+cvc5", time.time() - t0, smt2=smt2, reason=reason)


def satisfiable(constraints, timeout_s=5.0):
    s = z3.Solver()
    s.set("timeout", int(timeout_s * 1000))
    for c in constraints:
        s.add(c)
    r = s.check()
    return r


# ----------------------------------------------------------------------------- numeric evaluation of terms
def eval_term(t, env, cache=None):
    """Evaluate a z3 term numerically (floats); UFs are the real math functions.

    ``env`` maps constant names to floats/bools.  Used by the concrete-symbolic
    agreement runs and for picking the path a concrete input takes.
    """
    import math

    from scipy import special

    if cache is None:
        cache = {}
    key = t.get_id()
    if key in cache:
        return cache[key]
    k = t.decl().kind() if z3.is_app(t) else None
    ch = [eval_term(c, env, cache) for c in t.children()] if z3.is_app(t) else []
    if z3.is_rational_value(t):
        r = t.numerator_as_long() / t.denominator_as_long()
    elif z3.is_int_value(t):
        r = t.as_long()
    elif z3.is_true(t):
        r = True
    elif z3.is_false(t):
        r = False
    elif k == z3.Z3_OP_UNINTERPRETED:
        n = t.decl().name()
        if t.num_args() == 0:
            if n not in env:
                raise KeyError(n)
            r = env[n]
        else:
            fn = {
                "exp": math.exp,
                "log": lambda v: math.log(v) if v > 0 else float("nan"),
                "sqrt": lambda v: math.sqrt(v) if v >= 0 else float("nan"),
                "erf": math.erf,
                "erfcx": lambda v: float(special.erfcx(v)),
                "cos": math.cos,
                "sin": math.sin,
                "arctan2": math.atan2,
                "pow": lambda a, b: a**b,
                "mul": lambda a, b: a * b,  # PyVC-U keeps products of symbolic reals uninterpreted (pyvc/wp.py)
                "inv": lambda a: 1.0 / a if a != 0 else float("nan"),
                "cerf_re": lambda a, b: float(special.erf(complex(a, b)).real),
                "cerf_im": lambda a, b: float(special.erf(complex(a, b)).imag),
            }.get(n)
            if fn is None:
                raise KeyError(f"uninterpreted function {n}")
            try:
                r = fn(*ch)
            except OverflowError:
                r = float("inf")
    elif k == z3.Z3_OP_ADD:
        r = sum(ch)
    elif k == z3.Z3_OP_MUL:
        r = 1.0
        for c in ch:
            r = r * c
    elif k == z3.Z3_OP_SUB:
        r = ch[0] - sum(ch[1:]) if len(ch) > 1 else -ch[0]
    elif k == z3.Z3_OP_UMINUS:
        r = -ch[0]
    elif k == z3.Z3_OP_DIV:
        r = ch[0] / ch[1] if ch[1] != 0 else float("nan")
    elif k == z3.Z3_OP_POWER:
        r = ch[0] ** ch[1]
    elif k == z3.Z3_OP_ITE:
        r = ch[1] if ch[0] else ch[2]
    elif k == z3.Z3_OP_AND:
        r = all(ch)
    elif k == z3.Z3_OP_OR:
        r = any(ch)
    elif k == z3.Z3_OP_NOT:
        r = not ch[0]
    elif k == z3.Z3_OP_IMPLIES:
        r = (not ch[0]) or ch[1]
    elif k == z3.Z3_OP_XOR:
        r = bool(ch[0]) != bool(ch[1])
    elif k == z3.Z3_OP_EQ:
        a, b = ch
        if isinstance(a, bool) or isinstance(b, bool):
            r = bool(a) == bool(b)
        else:
            r = _close(a, b)
    elif k == z3.Z3_OP_DISTINCT:
        r = all(not _close(ch[i], ch[j]) for i in range(len(ch)) for j in range(i + 1, len(ch)))
    elif k == z3.Z3_OP_LE:
        r = ch[0] <= ch[1]
    elif k == z3.Z3_OP_LT:
        r = ch[0] < ch[1]
    elif k == z3.Z3_OP_GE:
        r = ch[0] >= ch[1]
    elif k == z3.Z3_OP_GT:
        r = ch[0] > ch[1]
    elif k == z3.Z3_OP_TO_REAL:
        r = float(ch[0])
    else:
        raise EngineError(f"eval_term: unsupported operator {t.decl().name()}")
    cache[key] = r
    return r


EVAL_RTOL = 1e-9


def _close(a, b):
    if a == b:
        return True
    try:
        return abs(a - b) <= EVAL_RTOL * max(1.0, abs(a), abs(b))
    except Exception:
        return False


# ----------------------------------------------------------------------------- rational normal form
def _has_div(t, seen=None):
    seen = set() if seen is None else seen
    stack = [t]
    while stack:
        x = stack.pop()
        i = x.get_id()
        if i in seen:
            continue
        seen.add(i)
        if z3.is_app(x):
            if x.decl().kind() == z3.Z3_OP_DIV:
                return True
            stack.extend(x.children())
    return False


def ratform(t, cache):
    """(numerator, denominator) of an arithmetic term; non-arithmetic sub-terms are atoms."""
    i = t.get_id()
    if i in cache:
        return cache[i]
    one = z3.RealVal(1)
    k = t.decl().kind() if z3.is_app(t) else None
    if k == z3.Z3_OP_ADD:
        n, d = ratform(t.arg(0), cache)
        for c in t.children()[1:]:
            n2, d2 = ratform(c, cache)
            if d.eq(d2):
                n = n + n2
            else:
                n, d = n * d2 + n2 * d, d * d2
        r = (n, d)
    elif k == z3.Z3_OP_SUB:
        n, d = ratform(t.arg(0), cache)
        for c in t.children()[1:]:
            n2, d2 = ratform(c, cache)
            if d.eq(d2):
                n = n - n2
            else:
                n, d = n * d2 - n2 * d, d * d2
        r = (n, d)
    elif k == z3.Z3_OP_UMINUS:
        n, d = ratform(t.arg(0), cache)
        r = (-n, d)
    elif k == z3.Z3_OP_MUL:
        n, d = one, one
        for c in t.children():
            n2, d2 = ratform(c, cache)
            n = n * n2
            d = d if d2.eq(one) else (d2 if d.eq(one) else d * d2)
        r = (n, d)
    elif k == z3.Z3_OP_DIV:
        n1, d1 = ratform(t.arg(0), cache)
        n2, d2 = ratform(t.arg(1), cache)
        r = (n1 * d2, d1 * n2)
    else:
        r = (t, one)
    cache[i] = r
    return r


def prove_rational_identity(goal):
    """True if ``goal`` (an equality of reals, or a conjunction of such) holds as an identity of
    rational functions after clearing denominators (denominators are non-zero on the path)."""
    conj = goal.children() if z3.is_and(goal) else [goal]
    cache = {}
    for c in conj:
        if not (z3.is_eq(c) and c.arg(0).sort() == z3.RealSort()):
            return False
        ln, ld = ratform(c.arg(0), cache)
        rn, rd = ratform(c.arg(1), cache)
        diff = z3.simplify(ln * rd - rn * ld, som=True, som_blowup=10000000)
        if not (z3.is_rational_value(diff) and diff.numerator_as_long() == 0):
            return False
    return True
