"""Lemmas of pure mathematics that the contracts rely on, machine-checked by Lean 4 + Mathlib.

A lemma file is re-checked by `lean` on every run.  Accepted means: exit status 0, no `error` in the
output, every listed theorem reported by `#print axioms` with nothing beyond Lean's three standard
axioms (so no `sorryAx`), no `sorry` / `admit` / `axiom` / `native_decide` in the source, and a canary
(a false statement) rejected by the same binary.  A lemma that is not accepted is *undecided* (exit 2),
never a violation: it says nothing about /repo.
"""
from __future__ import annotations

import re
import shutil
import subprocess
import tempfile
import time
from pathlib import Path

STD_AXIOMS = {"propext", "Classical.choice", "Quot.sound"}
FORBIDDEN = re.compile(r"\b(sorry|admit|native_decide|unsafe)\b|^\s*axiom\b|implemented_by|extern", re.M)


def _strip_comments(src: str) -> str:
    src = re.sub(r"/-.*?-/", "", src, flags=re.S)
    return re.sub(r"--.*", "", src)


_RUNNING = {}


def prefetch(path):
    """Start `lean <file>` in the background (it mostly waits for Mathlib's .olean files to be mapped)."""
    path = Path(path)
    lean = shutil.which("lean")
    if lean is None or str(path) in _RUNNING or not path.exists():
        return
    _RUNNING[str(path)] = (subprocess.Popen([lean, str(path)], stdout=subprocess.PIPE, stderr=subprocess.STDOUT, text=True, cwd=path.parent), time.time())


def check_lemmas(path: Path, theorems: dict[str, str], timeout_s: float = 900.0):
    """theorems: Lean name -> obligation name.  Returns static-obligation records."""
    res = []
    t0 = time.time()
    lean = shutil.which("lean")
    src = path.read_text()
    base = {"function": f"lemma file {path.name}", "backend": "lean4-mathlib", "strength": "U"}

    def undecided(why):
        return [dict(base, name=obl, ok=False, undecided=True, detail=why) for obl in theorems.values()]

    if lean is None:
        return undecided("lean not found on PATH")
    bad = FORBIDDEN.search(_strip_comments(src))
    if bad:
        return undecided(f"lemma file contains `{bad.group(0).strip()}`")
    # canary: the same binary must reject a false statement
    with tempfile.TemporaryDirectory(prefix="pyvc_lean_") as td:
        c = Path(td) / "Canary.lean"
        c.write_text("theorem canary : (1 : Nat) = 2 := by decide\n")
        try:
            r = subprocess.run([lean, str(c)], capture_output=True, text=True, timeout=300)
        except subprocess.TimeoutExpired:
            return undecided("lean canary timed out")
        if r.returncode == 0:
            return undecided("lean accepted a false canary statement")
    try:
        if str(path) in _RUNNING:
            proc, t0 = _RUNNING.pop(str(path))
            try:
                out0, _ = proc.communicate(timeout=timeout_s)
            except subprocess.TimeoutExpired:
                proc.kill()
                raise
            r = subprocess.CompletedProcess(proc.args, proc.returncode, out0, "")
        else:
            r = subprocess.run([lean, str(path)], capture_output=True, text=True, timeout=timeout_s, cwd=path.parent)
    except subprocess.TimeoutExpired:
        return undecided(f"lean timed out after {timeout_s:.0f}s")
    out = r.stdout + r.stderr
    wall = round(time.time() - t0, 2)
    if r.returncode != 0 or re.search(r"\berror\b", out):
        return undecided(f"lean rejected the lemma file (exit {r.returncode}): {out[:600]}")
    for thm, obl in theorems.items():
        m = re.search(rf"'{re.escape(thm)}' depends on axioms: \[([^\]]*)\]", out)
        if m is None:
            m0 = re.search(rf"'{re.escape(thm)}' does not depend on any axioms", out)
            axioms = set() if m0 else None
        else:
            axioms = {a.strip() for a in m.group(1).split(",") if a.strip()}
        if axioms is None:
            res.append(dict(base, name=obl, ok=False, undecided=True, detail=f"`#print axioms {thm}` missing from lean's output"))
        elif not axioms <= STD_AXIOMS:
            res.append(dict(base, name=obl, ok=False, undecided=True, detail=f"{thm} depends on non-standard axioms {sorted(axioms - STD_AXIOMS)}"))
        else:
            stmt = re.search(rf"theorem {re.escape(thm.split('.')[-1])}\b.*?:=", src, flags=re.S)
            res.append(dict(base, name=obl, ok=True, time_s=round(wall / max(1, len(theorems)), 3), detail=f"lean {wall}s; axioms {sorted(axioms)}; " + (" ".join(stmt.group(0).split())[:400] if stmt else "")))
    return res
