"""PyVC-U: verification conditions from the AST of a real function, for *all* sizes and iterations.

The symbolic-execution engine (`explore.py`) runs the real function objects and therefore unrolls every
loop by a concrete shape (strength S).  For the small numeric kernels whose whole content is a loop nest
over arrays this module does the unbounded thing instead:

* the source is re-read from the real function on every run (`inspect.getsource`, through `.py_func`
  for numba kernels), parsed with `ast`, and executed *symbolically at the AST level* over
  - integers  (z3 Int: sizes and indices),
  - reals     (z3 Real: every float; machine arithmetic treated as mathematical),
  - Booleans,
  - arrays    (z3 arrays Int^k -> Real with symbolic shapes; Python reference semantics through a heap of
               locations, so aliasing and in-place mutation are modelled),
* every `for ... in range(e)` / `nb.prange(e)` loop is cut by an **inductive invariant** given in the sidecar
  contract: obligations "holds on entry" and "preserved by one iteration" (for an arbitrary iteration
  over a havocked state), and the code after the loop continues from the invariant at the exit index,
* calls are replaced by the **contract of the callee** (requires proved at the call site, ensures
  assumed, everything outside the declared frame unchanged) - library routines by their assumed
  contract, functions of the repository by the contract that is proved for them in the same way,
* `return` and the end of the body give the postcondition obligations.

Obligations are closed formulas `hyps => goal` with quantified goals skolemised; they are discharged by z3
(and cvc5 on `unknown`).  `unknown` is undecided, never a violation.

What the extraction drops / assumes (reported in the evidence):
  decorators (`@nb.jit(...)`: numba is trusted to honour Python semantics; `nb.prange` = `range`, justified by
  the race-freedom obligations of C10), annotations and docstrings; only the statement and expression forms
  listed in `_Exec` are accepted - anything else raises `Unsupported` (the contract is then *undecided*, exit 2).
"""
from __future__ import annotations

import ast
import inspect
import itertools
import textwrap
import time

import z3

from pyvc.explore import run_cvc5

INT, REAL, BOOL = z3.IntSort(), z3.RealSort(), z3.BoolSort()
_counter = itertools.count()


class Unsupported(Exception):
    pass


def fresh(prefix, sort):
    return z3.Const(f"{prefix}!{next(_counter)}", sort)


def arr_sort(ndim):
    return z3.ArraySort(*([INT] * ndim + [REAL]))


# ----------------------------------------------------------------------------- values
class CArray:
    """Concrete heap cell of the cross-check mode: a Python dict index-tuple -> z3 real term (ground)."""

    def __init__(self, cells):
        self.cells = dict(cells)


def _cint(i):
    v = z3.simplify(_int(i))
    if not z3.is_int_value(v):
        raise Unsupported(f"concrete mode: index {i} is not a numeral")
    return v.as_long()


class Arr:
    """Reference to an array location of the heap, with a symbolic shape."""

    def __init__(self, loc, shape):
        self.loc, self.shape = loc, tuple(shape)

    @property
    def ndim(self):
        return len(self.shape)

    def sel(self, heap, *idx):
        h = heap[self.loc]
        if isinstance(h, CArray):
            return h.cells[tuple(_cint(i) for i in idx)]
        return z3.Select(h, *[_int(i) for i in idx])

    def store(self, heap, idx, v):
        h = heap[self.loc]
        if isinstance(h, CArray):
            key = tuple(_cint(i) for i in idx)
            if key not in h.cells:
                raise IndexError(key)
            heap[self.loc] = CArray({**h.cells, key: _real(v)})
            return
        heap[self.loc] = z3.Store(h, *[_int(i) for i in idx], _real(v))

    def base(self):
        return self


class View:
    """`a[i]` of an n-d array: an (n-1)-d array sharing the cells of `a` (numpy basic indexing)."""

    def __init__(self, arr, prefix):
        self.arr, self.prefix = arr, tuple(prefix)
        self.shape = arr.shape[len(prefix) :]

    @property
    def ndim(self):
        return len(self.shape)

    @property
    def loc(self):
        return self.arr.loc

    def sel(self, heap, *idx):
        return self.arr.sel(heap, *self.prefix, *idx)

    def store(self, heap, idx, v):
        self.arr.store(heap, tuple(self.prefix) + tuple(idx), v)

    def base(self):
        return self.arr


class ColView:
    """`a[:, c]` of a 2-d array: the 1-d column sharing the cells of `a`."""

    def __init__(self, arr, col):
        self.arr, self.col = arr, _int(col)
        self.shape = (arr.shape[0],)
        self.ndim = 1

    @property
    def loc(self):
        return self.arr.loc

    def sel(self, heap, i):
        return self.arr.sel(heap, i, self.col)

    def base(self):
        return self.arr.base()


class LazyArr:
    """Immutable 1-d temporary produced by numpy elementwise arithmetic: element i is the *term* fn(i).
    Keeping temporaries transparent (instead of fresh arrays defined by quantified facts) lets a whole vectorised
    expression be normalised as one term."""

    def __init__(self, shape, fn):
        self.shape, self.fn, self.ndim = tuple(shape), fn, 1

    def sel(self, heap, i):
        return self.fn(_int(i))


def materialise(st, a, prefix="tmp"):
    """A named array equal to the lazy temporary `a` (for contracts that need a pattern on its elements)."""
    if not isinstance(a, LazyArr):
        return a
    out = st.new_array(a.shape, prefix)
    i = z3.Int("i!mat")
    st.pc.append(z3.ForAll([i], out.sel(st.heap, i) == a.sel(st.heap, i), patterns=[out.sel(st.heap, i)]))
    return out


class Prefix:
    """`a[:n]` of a 1-d array (only ever returned)."""

    def __init__(self, arr, stop):
        self.arr, self.stop = arr, stop


class Mask:
    """Boolean array `arr <cmp> scalar` (immutable): body(i) is its value at index i."""

    def __init__(self, body, shape):
        self.body, self.shape = body, tuple(shape)


class Opaque:
    def __init__(self, tag, **kw):
        self.tag = tag
        self.__dict__.update(kw)


def _int(v):
    if isinstance(v, bool):
        raise Unsupported("bool used as int")
    if isinstance(v, int):
        return z3.IntVal(v)
    if z3.is_expr(v) and v.sort() == INT:
        return v
    raise Unsupported(f"integer expected, got {v!r}")


def _real(v):
    if isinstance(v, bool):
        raise Unsupported("bool used as real")
    if isinstance(v, int):
        return z3.RealVal(v)
    if isinstance(v, float):
        from fractions import Fraction

        return z3.RealVal(Fraction(v))
    if z3.is_expr(v):
        if v.sort() == REAL:
            return v
        if v.sort() == INT:
            return z3.ToReal(v)
    raise Unsupported(f"real expected, got {v!r}")


def _bool(v):
    if isinstance(v, bool):
        return z3.BoolVal(v)
    if z3.is_expr(v) and v.sort() == BOOL:
        return v
    raise Unsupported(f"Boolean expected, got {v!r}")


# ---- products of symbolic reals are kept *uninterpreted* and in a canonical (sorted, flattened) form:
# the obligations of the kernels only need `code expression == specification expression`, which is syntactic
# once both sides are normalised modulo associativity/commutativity; nonlinear real arithmetic under
# quantifiers is what makes z3 give up.  Uninterpreted MUL / INV know *less* than real multiplication, so
# everything proved this way holds for the reals (sound); what needs more is re-tried with real `*`.
MUL = z3.Function("mul", REAL, REAL, REAL)
INV = z3.Function("inv", REAL, REAL)
EXACT_PRODUCTS = False  # set by `discharge` for the fallback encoding


def _split(t):
    """t = coefficient * product of atomic factors."""
    from fractions import Fraction

    if z3.is_rational_value(t):
        return Fraction(t.numerator_as_long(), t.denominator_as_long()), []
    if z3.is_app(t):
        k = t.decl().kind()
        if k == z3.Z3_OP_UMINUS:
            c, f = _split(t.arg(0))
            return -c, f
        if k == z3.Z3_OP_MUL and t.num_args() == 2 and z3.is_rational_value(t.arg(0)):
            c, f = _split(t.arg(1))
            return Fraction(t.arg(0).numerator_as_long(), t.arg(0).denominator_as_long()) * c, f
        if k == z3.Z3_OP_TO_REAL and z3.is_int_value(t.arg(0)):
            return Fraction(t.arg(0).as_long()), []
        if t.decl().eq(MUL):
            return Fraction(1), _split(t.arg(0))[1] + _split(t.arg(1))[1]
    return Fraction(1), [t]


_KEYS = {}


def _shape_key(t):
    k = _KEYS.get(t.get_id())
    if k is not None and k[0].eq(t):
        return k[1]
    if t.sort() == INT:
        r = "_"
    elif t.sort().kind() == z3.Z3_ARRAY_SORT and z3.is_const(t):
        r = "<" + t.decl().name().split("!")[0] + ">"  # the version counter of an array is blanked (versions agree on the cells that matter)
    elif z3.is_app(t):
        r = t.decl().name() + ("(" + ",".join(_shape_key(c) for c in t.children()) + ")" if t.num_args() else "")
    else:
        r = "?"
    _KEYS[t.get_id()] = (t, r)
    return r


def _build(c, factors):
    from fractions import Fraction

    if c == 0 or not factors:
        return z3.RealVal(c)
    # canonical order: by the shape of the factor with integer leaves blanked, so that the order is
    # invariant under the substitution of index variables (t, r -> n_t, n_r) when a quantified fact is used
    factors = sorted(factors, key=lambda f: (_shape_key(f), f.get_id()))
    p = factors[-1]
    for f in reversed(factors[:-1]):
        p = MUL(f, p)
    return p if c == 1 else (-p if c == -1 else z3.RealVal(Fraction(c)) * p)


def rmul(a, b):
    a, b = _real(a), _real(b)
    if EXACT_PRODUCTS:
        return a * b
    (ca, fa), (cb, fb) = _split(a), _split(b)
    return _build(ca * cb, fa + fb)


def rdiv(a, b):
    a, b = _real(a), _real(b)
    if EXACT_PRODUCTS:
        return a / b
    cb, fb = _split(b)
    if not fb:
        return rmul(a, z3.RealVal(1 / cb)) if cb != 0 else a / b
    return rmul(rmul(a, z3.RealVal(1 / cb)), INV(_build(1, fb)))


class RV:
    """Real-valued specification expression with the same normalised products as the executor."""

    def __init__(self, t):
        self.t = t.t if isinstance(t, RV) else _real(t)

    @staticmethod
    def _u(x):
        return x.t if isinstance(x, RV) else _real(x)

    def __add__(self, o):
        return RV(self.t + RV._u(o))

    __radd__ = __add__

    def __sub__(self, o):
        return RV(self.t - RV._u(o))

    def __rsub__(self, o):
        return RV(RV._u(o) - self.t)

    def __neg__(self):
        return RV(rmul(-1, self.t))

    def __mul__(self, o):
        return RV(rmul(self.t, RV._u(o)))

    __rmul__ = __mul__

    def __truediv__(self, o):
        return RV(rdiv(self.t, RV._u(o)))

    def __rtruediv__(self, o):
        return RV(rdiv(RV._u(o), self.t))

    def __lt__(self, o):
        return self.t < RV._u(o)

    def __le__(self, o):
        return self.t <= RV._u(o)

    def __gt__(self, o):
        return self.t > RV._u(o)

    def __ge__(self, o):
        return self.t >= RV._u(o)


def _is_inf(v):
    return isinstance(v, float) and v in (float("inf"), float("-inf"))


def _is_num(v):
    return isinstance(v, (int, float)) and not isinstance(v, bool) or (z3.is_expr(v) and v.sort() in (INT, REAL))


class Cx:
    """A complex number as a pair of real terms (numpy complex128 read as a pair of reals)."""

    def __init__(self, re, im):
        self.re, self.im = re, im

    def __repr__(self):
        return f"Cx({self.re}, {self.im})"


def _is_zero(v):
    return (isinstance(v, (int, float)) and not isinstance(v, bool) and v == 0) or (z3.is_expr(v) and z3.is_rational_value(v) and v.numerator_as_long() == 0)


def _cx_arith(op, a, b):
    a = a if isinstance(a, Cx) else Cx(a, 0)
    b = b if isinstance(b, Cx) else Cx(b, 0)

    def add(x, y, sub=False):
        if _is_zero(y):
            return x
        if _is_zero(x):
            return _arith(ast.Mult(), -1, y) if sub else y
        return _arith(ast.Sub() if sub else ast.Add(), x, y)

    def mul(x, y):
        return 0 if _is_zero(x) or _is_zero(y) else _arith(ast.Mult(), x, y)

    if isinstance(op, ast.Add):
        return Cx(add(a.re, b.re), add(a.im, b.im))
    if isinstance(op, ast.Sub):
        return Cx(add(a.re, b.re, True), add(a.im, b.im, True))
    if isinstance(op, ast.Mult):
        return Cx(add(mul(a.re, b.re), mul(a.im, b.im), True), add(mul(a.re, b.im), mul(a.im, b.re)))
    if isinstance(op, ast.Div) and _is_zero(b.im):
        return Cx(0 if _is_zero(a.re) else _arith(op, a.re, b.re), 0 if _is_zero(a.im) else _arith(op, a.im, b.re))
    raise Unsupported(f"complex operator {type(op).__name__}")


def _arith(op, a, b):
    if isinstance(a, Cx) or isinstance(b, Cx):
        if not all(isinstance(x, Cx) or _is_num(x) for x in (a, b)):
            raise Unsupported(f"arithmetic on {a!r}, {b!r}")
        return _cx_arith(op, a, b)
    if not (_is_num(a) and _is_num(b)):
        raise Unsupported(f"arithmetic on {a!r}, {b!r}")
    both_int = all(isinstance(x, int) or (z3.is_expr(x) and x.sort() == INT) for x in (a, b))
    if isinstance(op, ast.Div):
        return rdiv(a, b)
    if isinstance(op, ast.Pow):
        if isinstance(b, int) and 0 <= b <= 6:
            if both_int:
                r = _int(1)
                for _ in range(b):
                    r = r * _int(a)
                return r
            r = z3.RealVal(1)
            for _ in range(b):
                r = rmul(r, a)
            return r
        raise Unsupported("power with a non-constant exponent")
    if both_int:
        x, y = _int(a), _int(b)
        if isinstance(op, (ast.FloorDiv, ast.Mod)):
            if not (isinstance(b, int) and b > 0):
                raise Unsupported("// and % with a divisor that is not a positive integer constant")
            return x / y if isinstance(op, ast.FloorDiv) else x % y  # z3's integer division is the floor for a positive divisor
        if isinstance(op, ast.Add):
            return x + y
        if isinstance(op, ast.Sub):
            return x - y
        if isinstance(op, ast.Mult):
            return x * y
        raise Unsupported(f"operator {type(op).__name__}")
    x, y = _real(a), _real(b)
    if isinstance(op, ast.Add):
        return x + y
    if isinstance(op, ast.Sub):
        return x - y
    if isinstance(op, ast.Mult):
        return rmul(x, y)
    raise Unsupported(f"operator {type(op).__name__}")


# ----------------------------------------------------------------------------- state
class State:
    def __init__(self, vars=None, heap=None, pc=None):
        self.vars, self.heap, self.pc = dict(vars or {}), dict(heap or {}), list(pc or [])

    def copy(self):
        return State(self.vars, self.heap, self.pc)

    def new_array(self, shape, prefix="arr", term=None):
        loc = f"{prefix}@{next(_counter)}"
        self.heap[loc] = term if term is not None else fresh(prefix, arr_sort(len(shape)))
        for s in shape:
            self.pc.append(_int(s) >= 0)
        return Arr(loc, shape)


class Obligation:
    def __init__(self, name, hyps, goal, where=""):
        self.name, self.hyps, self.goal, self.where = name, list(hyps), goal, where
        self.status, self.backend, self.time_s, self.reason, self.model = None, None, 0.0, "", None


def skolemize(goal):
    """Strip leading universal quantifiers of a goal (fresh constants)."""
    while z3.is_quantifier(goal) and goal.is_forall():
        n = goal.num_vars()
        consts = [fresh(goal.var_name(n - 1 - i), goal.var_sort(n - 1 - i)) for i in range(n)]
        goal = z3.substitute_vars(goal.body(), *consts)
    return goal


# ----------------------------------------------------------------------------- contracts of functions
class FnSpec:
    """Contract of one function, used both to *prove* it (from its AST) and to *use* it at call sites.

    params      : list of (name, kind) with kind in arr1/arr2/arr3/int/real/bool/any
    requires    : fn(env) -> list of z3 Bool                     (env: name -> value, `heap`)
    modifies    : names of array parameters the function may write
    ensures     : fn(old, new, result) -> list of (name, z3 Bool)   (old/new: env views with select at entry/exit)
    invariants  : {loop ordinal: fn(env_entry, env_now, loopvars...) -> list of z3 Bool}
    ghosts      : fn() -> {name: python callable building z3 terms}.  The contract is proved for *arbitrary* ghost
                  functions satisfying `requires` (they are fresh uninterpreted symbols in the proof), so a caller may
                  instantiate them with any functions for which it can prove `requires` (second-order instantiation)
    externals   : dotted name -> callable(ex, state, args, kwargs) -> value   (callee contracts)
    """

    def __init__(self, fn, params, requires=None, modifies=(), ensures=None, invariants=None, externals=None, name=None, ghosts=None, axioms=None):
        self.axioms = axioms  # fn(env) -> instances of mathematical lemmas (proved elsewhere, named in `trusted`) assumed in the proof
        self.ghosts = ghosts  # fn() -> {name: callable}: ghost (specification-only) functions the contract is parametric in
        self.fn = getattr(fn, "py_func", fn)
        self.name = name or f"{self.fn.__module__}:{self.fn.__qualname__}"
        self.params, self.requires, self.modifies = params, requires or (lambda env: []), tuple(modifies)
        self.ensures, self.invariants, self.externals = ensures or (lambda old, new, res: []), invariants or {}, externals or {}

    def source(self):
        return textwrap.dedent(inspect.getsource(self.fn))


class Env:
    """Read access to the variables of a state (arrays through the heap of that state)."""

    def __init__(self, vars, heap, ghost=None, loops=None):
        self._vars, self._heap, self.ghost, self._loops = vars, heap, ghost or {}, loops if loops is not None else {}

    # invariants name the code's locals by *role*, not by identifier, so that renaming a local does not disturb them
    def loopvar(self, ordinal):
        """Current value of the loop variable of loop `ordinal` (an enclosing loop)."""
        return self._vars[self._loops[ordinal]["var"]]

    def loop_over(self, ordinal):
        """(array parameter, axis) whose extent bounds loop `ordinal`, e.g. ("rates", 0) - lets an invariant be written
        for "the loop over the rates" whatever its nesting depth (loop interchange does not disturb it)."""
        return self._loops[ordinal].get("over")

    def active_loops(self):
        """Ordinals of the loops whose variable is bound in this state, outermost first."""
        return [k for k in sorted(self._loops) if self._loops[k]["var"] in self._vars]

    def stored(self, ordinal):
        """The array the body of loop `ordinal` stores into (when there is exactly one)."""
        names = self._loops[ordinal]["arrays"]
        if len(names) != 1:
            raise Unsupported(f"loop {ordinal} stores into {names}, not into exactly one array")
        return self._vars[names[0]]

    def __getitem__(self, name):
        return self._vars[name]

    def __contains__(self, name):
        return name in self._vars

    def sel(self, name_or_arr, *idx):
        a = self._vars[name_or_arr] if isinstance(name_or_arr, str) else name_or_arr
        return a.sel(self._heap, *idx)

    def shape(self, name, k=0):
        return self._vars[name].shape[k]

    def term(self, name_or_arr):
        a = self._vars[name_or_arr] if isinstance(name_or_arr, str) else name_or_arr
        return self._heap[a.loc]


# ----------------------------------------------------------------------------- executor
class _Exec:
    def __init__(self, spec: FnSpec):
        self.spec = spec
        self.obligations: list[Obligation] = []
        self.loop_ordinal = 0
        self.returns = []  # (state, value)
        self.notes = []
        self.entry: State | None = None
        self.ghost = {}
        self.loops = {}
        self.concrete = False  # cross-check mode: ground values, loops unrolled, no obligations
        self.access_log = None  # list of (kind, loc, index terms, pc) while a prange body is analysed for races
        self.silent = False  # second copy of a prange body: accesses are logged, obligations are not duplicated
        self.parallel = False  # @nb.jit(parallel=True): the outermost nb.prange loop runs its iterations concurrently
        self.prange_depth = 0

    # ---- obligations
    def log_access(self, kind, arr, idx, st):
        if self.access_log is None:
            return
        base = arr.base() if hasattr(arr, "base") else arr
        full = tuple(getattr(arr, "prefix", ())) + tuple(_int(i) for i in idx)
        if isinstance(arr, ColView):
            full = tuple(getattr(arr.arr, "prefix", ())) + (_int(idx[0]), arr.col)
        self.access_log.append((kind, base.loc, full, list(st.pc)))

    def oblige(self, name, st: State, goal, where=""):
        if self.silent:
            return
        if self.concrete:
            g = z3.simplify(_bool(goal))
            if not z3.is_true(g):
                raise Unsupported(f"concrete mode: {name} does not hold ({g})")
            return
        self.obligations.append(Obligation(name, st.pc, goal, where))

    # ---- expressions
    def dotted(self, node):
        if isinstance(node, ast.Name):
            return node.id
        if isinstance(node, ast.Attribute):
            b = self.dotted(node.value)
            return None if b is None else f"{b}.{node.attr}"
        return None

    def eval(self, node, st: State):
        m = getattr(self, "e_" + type(node).__name__, None)
        if m is None:
            raise Unsupported(f"expression {type(node).__name__} at line {getattr(node, 'lineno', '?')}")
        return m(node, st)

    def e_Constant(self, node, st):
        if isinstance(node.value, (bool, int, float, str)) or node.value is None:
            return node.value
        if isinstance(node.value, complex):
            return Cx(node.value.real, node.value.imag)
        raise Unsupported(f"constant {node.value!r}")

    def e_Name(self, node, st):
        if node.id in st.vars:
            return st.vars[node.id]
        if node.id in self.spec.externals:
            return self.spec.externals[node.id]
        g = self.spec.fn.__globals__.get(node.id)
        if isinstance(g, (int, float)) and not isinstance(g, bool):
            # module-level numeric constant (e.g. SQRT2): kept symbolic through the contract's table, or concrete
            return self.spec.externals.get(f"const:{node.id}", g)
        raise Unsupported(f"name {node.id!r} is not defined on this path (line {node.lineno})")

    def e_Tuple(self, node, st):
        return tuple(self.eval(e, st) for e in node.elts)

    def e_UnaryOp(self, node, st):
        v = self.eval(node.operand, st)
        if isinstance(node.op, ast.USub):
            if isinstance(v, (int, float)) and not isinstance(v, bool):
                return -v
            if z3.is_expr(v) and v.sort() == INT:
                return -v
            if isinstance(v, Cx):
                return _cx_arith(ast.Mult(), -1, v)
            if isinstance(v, (Arr, View, ColView, LazyArr)) and v.ndim == 1:
                heap_now = dict(st.heap)
                return LazyArr(v.shape, lambda i: _arith(ast.Mult(), -1, v.sel(heap_now, i)))
            return rmul(-1, v)
        if isinstance(node.op, ast.Not):
            return z3.Not(_bool(v)) if z3.is_expr(v) else (not v)
        raise Unsupported(f"unary {type(node.op).__name__}")

    def e_BinOp(self, node, st):
        a, b = self.eval(node.left, st), self.eval(node.right, st)
        ARR = (Arr, View, ColView, LazyArr)
        if isinstance(a, ARR) and isinstance(b, ARR):
            # numpy elementwise arithmetic on 1-d arrays of equal length: a new array
            if a.ndim != 1 or b.ndim != 1 or not isinstance(node.op, (ast.Add, ast.Sub, ast.Mult, ast.Div)):
                raise Unsupported("array arithmetic other than elementwise + - * / on 1-d arrays")
            self.oblige(f"elementwise_operands_have_equal_length@line{node.lineno}", st, _int(a.shape[0]) == _int(b.shape[0]))
            heap_now, op = dict(st.heap), node.op
            return LazyArr(a.shape, lambda i: _arith(op, a.sel(heap_now, i), b.sel(heap_now, i)))
        if isinstance(a, ARR) != isinstance(b, ARR):
            arr, sc, arr_left = (a, b, True) if isinstance(a, ARR) else (b, a, False)
            heap_now, op = dict(st.heap), node.op
            if isinstance(node.op, ast.Pow) and arr_left and isinstance(sc, int) and arr.ndim == 1:
                return LazyArr(arr.shape, lambda i: _arith(op, arr.sel(heap_now, i), sc))
            if arr.ndim != 1 or not (_is_num(sc) or isinstance(sc, Cx)) or _is_inf(sc) or not isinstance(node.op, (ast.Add, ast.Sub, ast.Mult, ast.Div)):
                raise Unsupported("array/scalar arithmetic other than + - * / ** on a 1-d array and a finite scalar")
            return LazyArr(arr.shape, (lambda i: _arith(op, arr.sel(heap_now, i), sc)) if arr_left else (lambda i: _arith(op, sc, arr.sel(heap_now, i))))
        if isinstance(a, Cx) or isinstance(b, Cx):
            return _arith(node.op, a, b)
        if all(isinstance(x, (int, float)) and not isinstance(x, bool) for x in (a, b)) and not isinstance(node.op, ast.Div):
            return {ast.Add: a + b, ast.Sub: a - b, ast.Mult: a * b}.get(type(node.op)) if type(node.op) in (ast.Add, ast.Sub, ast.Mult) else _arith(node.op, a, b)
        return _arith(node.op, a, b)

    def e_BoolOp(self, node, st):
        # short-circuit evaluation: operand k is evaluated under "all earlier operands true" (and) / "false" (or);
        # obligations raised while evaluating it carry that guard, facts assumed by contracts are guarded too
        is_and = isinstance(node.op, ast.And)
        guards, results = [], []
        for vn in node.values:
            work = st.copy()
            work.pc += guards
            n0 = len(work.pc)
            v = self.eval(vn, work)
            for c in work.pc[n0:]:
                st.pc.append(z3.Implies(z3.And(*guards), c) if guards else c)
            for loc, term in work.heap.items():
                st.heap.setdefault(loc, term)
            if isinstance(v, bool):
                if v != is_and:
                    results.append(v)
                    break  # decides the result; later operands are not evaluated
                continue
            bv = _bool(v)
            results.append(bv)
            guards.append(bv if is_and else z3.Not(bv))
        if not results:
            return is_and
        if all(isinstance(r, bool) for r in results):
            return all(results) if is_and else any(results)
        rs = [_bool(r) for r in results]
        return rs[0] if len(rs) == 1 else (z3.And(*rs) if is_and else z3.Or(*rs))

    def e_Compare(self, node, st):
        left = self.eval(node.left, st)
        conj = []
        for op, rn in zip(node.ops, node.comparators):
            right = self.eval(rn, st)
            if isinstance(op, (ast.Is, ast.IsNot)):
                if right is None or left is None:
                    r = (left is right) if isinstance(op, ast.Is) else (left is not right)
                    conj.append(z3.BoolVal(r))
                    left = right
                    continue
                raise Unsupported("`is` on non-None operands")
            if isinstance(left, str) and isinstance(right, str) and isinstance(op, (ast.Eq, ast.NotEq)):
                conj.append(z3.BoolVal((left == right) == isinstance(op, ast.Eq)))
                left = right
                continue
            if isinstance(left, (Arr, View, ColView, LazyArr)) and _is_num(right) and not _is_inf(right) and left.ndim == 1 and len(node.ops) == 1:
                sc, cmp, heap_now = _real(right), type(op), dict(st.heap)
                f = {ast.Lt: lambda a, b: a < b, ast.LtE: lambda a, b: a <= b, ast.Gt: lambda a, b: a > b, ast.GtE: lambda a, b: a >= b}.get(cmp)
                if f is None:
                    raise Unsupported("array comparison other than < <= > >=")
                return Mask(lambda i, arr=left, sc=sc, f=f: f(arr.sel(heap_now, i), sc), left.shape)
            if not (_is_num(left) and _is_num(right)):
                raise Unsupported(f"comparison of {left!r} and {right!r}")
            if _is_inf(left) or _is_inf(right):
                # extended reals: an infinite bound is a Python float; a symbolic real is finite
                lv = left if isinstance(left, (int, float)) else 0.0
                rv = right if isinstance(right, (int, float)) else 0.0
                if not (_is_inf(left) or isinstance(left, (int, float))) and not _is_inf(right):
                    raise Unsupported("comparison with infinity")
                import operator as _op

                f = {ast.Lt: _op.lt, ast.LtE: _op.le, ast.Gt: _op.gt, ast.GtE: _op.ge, ast.Eq: _op.eq, ast.NotEq: _op.ne}[type(op)]
                conj.append(z3.BoolVal(bool(f(lv, rv))))
                left = right
                continue
            ints = all(isinstance(x, int) or (z3.is_expr(x) and x.sort() == INT) for x in (left, right))
            x, y = (_int(left), _int(right)) if ints else (_real(left), _real(right))
            conj.append({ast.Lt: x < y, ast.LtE: x <= y, ast.Gt: x > y, ast.GtE: x >= y, ast.Eq: x == y, ast.NotEq: x != y}[type(op)])
            left = right
        if all(z3.is_true(c) or z3.is_false(c) for c in conj):
            return all(z3.is_true(c) for c in conj)
        return conj[0] if len(conj) == 1 else z3.And(*conj)

    def e_IfExp(self, node, st):
        c = self.eval(node.test, st)
        if isinstance(c, bool):
            return self.eval(node.body if c else node.orelse, st)  # lazily, as Python does
        c = _bool(c)
        a, b = self.eval(node.body, st), self.eval(node.orelse, st)
        if all(isinstance(x, int) or (z3.is_expr(x) and x.sort() == INT) for x in (a, b)):
            return z3.If(c, _int(a), _int(b))
        return z3.If(c, _real(a), _real(b))

    def e_Attribute(self, node, st):
        d = self.dotted(node)
        if d is not None and d in self.spec.externals:
            return self.spec.externals[d]
        v = self.eval(node.value, st)
        if isinstance(v, (Arr, View, ColView, LazyArr)):
            if node.attr == "shape":
                return tuple(v.shape)
            if node.attr == "size":
                if v.ndim != 1:
                    raise Unsupported(".size of an array that is not 1-d")
                return v.shape[0]
            if node.attr in ("real", "imag") and v.ndim == 1:
                heap_now, part = dict(st.heap), node.attr

                def component(i):
                    e = v.sel(heap_now, i)
                    if isinstance(e, Cx):
                        return e.re if part == "real" else e.im
                    return e if part == "real" else 0

                return LazyArr(v.shape, component)
        if isinstance(v, Cx) and node.attr in ("real", "imag"):
            return v.re if node.attr == "real" else v.im
        raise Unsupported(f"attribute .{node.attr} of {v!r} (line {node.lineno})")

    def e_Subscript(self, node, st):
        v = self.eval(node.value, st)
        sl = node.slice
        if isinstance(v, tuple):
            i = self.eval(sl, st)
            if isinstance(i, int):
                return v[i]
            raise Unsupported("tuple indexed by a symbolic value")
        if isinstance(v, LazyArr):
            idx = self.eval(sl, st)
            if isinstance(idx, Mask):
                return self.filter(st, v, idx, node)
            self.bounds(st, v, (idx,), node)
            return v.sel(st.heap, idx)
        if isinstance(v, (Arr, View)):
            if isinstance(sl, ast.Slice):
                if sl.lower is None and sl.step is None and sl.upper is not None and v.ndim == 1:
                    return Prefix(v, _int(self.eval(sl.upper, st)))
                raise Unsupported("general slice")
            if isinstance(sl, ast.Tuple) and len(sl.elts) == 2 and isinstance(sl.elts[0], ast.Slice) and sl.elts[0].lower is None and sl.elts[0].upper is None and sl.elts[0].step is None and v.ndim == 2:
                c = _int(self.eval(sl.elts[1], st))
                self.oblige(f"index_in_bounds@line{node.lineno}", st, z3.And(c >= 0, c < _int(v.shape[1])), where=f"line {node.lineno}")
                return ColView(v, c)
            idx = self.eval(sl, st)
            if isinstance(idx, Mask):
                return self.filter(st, v, idx, node)
            idx = idx if isinstance(idx, tuple) else (idx,)
            if len(idx) == v.ndim:
                self.bounds(st, v, idx, node)
                self.log_access("r", v, idx, st)
                return v.sel(st.heap, *idx)
            if len(idx) < v.ndim:
                self.bounds(st, v, idx, node)
                return View(v.base(), tuple(getattr(v, "prefix", ())) + tuple(_int(i) for i in idx)) if isinstance(v, View) else View(v, tuple(_int(i) for i in idx))
        raise Unsupported(f"subscript of {v!r}")

    def filter(self, st, v, mask, node):
        """numpy Boolean-mask indexing `a[mask]`: the subsequence of the entries where the mask holds.
        Contract over ghost functions pos (filtered index -> original index, strictly increasing, onto the
        positions where the mask holds) and its inverse; the same mask gives the same positions."""
        if v.ndim != 1:
            raise Unsupported("mask indexing of an array that is not 1-d")
        n = v.shape[0]
        self.oblige(f"mask_has_the_length_of_the_array@line{node.lineno}", st, _int(mask.shape[0]) == _int(n))
        key = mask.body(z3.Int("i!mask"))
        cache = self.__dict__.setdefault("_masks", {})
        hit = next((val for (kterm, val) in cache.values() if kterm.eq(key)), None)
        if hit is None:
            k = fresh("nkept", INT)
            tag = next(_counter)
            pos = z3.Function(f"pos!{tag}", INT, INT)
            inv = z3.Function(f"posinv!{tag}", INT, INT)
            j, j2, i = z3.Int("j!f"), z3.Int("j2!f"), z3.Int("i!f")
            st.pc += [
                k >= 0,
                k <= _int(n),
                z3.ForAll([j], z3.Implies(z3.And(j >= 0, j < k), z3.And(pos(j) >= 0, pos(j) < _int(n), mask.body(pos(j)))), patterns=[pos(j)]),
                z3.ForAll([j, j2], z3.Implies(z3.And(0 <= j, j < j2, j2 < k), pos(j) < pos(j2)), patterns=[z3.MultiPattern(pos(j), pos(j2))]),
                z3.ForAll([i], z3.Implies(z3.And(i >= 0, i < _int(n), mask.body(i)), z3.And(inv(i) >= 0, inv(i) < k, pos(inv(i)) == i)), patterns=[inv(i)]),
            ]
            hit = (k, pos, inv)
            cache[key.get_id()] = (key, hit)
        k, pos, inv = hit
        out = st.new_array((k,), "filtered")
        j = z3.Int("j!f")
        st.pc.append(z3.ForAll([j], z3.Implies(z3.And(j >= 0, j < k), out.sel(st.heap, j) == v.sel(st.heap, pos(j))), patterns=[out.sel(st.heap, j)]))
        return out

    def bounds(self, st, v, idx, node):
        """Index-in-bounds obligation (no negative / wrap-around indexing is relied upon)."""
        conds = [z3.And(_int(i) >= 0, _int(i) < _int(s)) for i, s in zip(idx, v.shape)]
        self.oblige(f"index_in_bounds@line{node.lineno}", st, z3.And(*conds), where=f"line {node.lineno}")

    def e_Call(self, node, st):
        d = self.dotted(node.func)
        f = self.spec.externals.get(d) if d is not None else None
        if f is None and isinstance(node.func, ast.Attribute) and not (d and d.split(".")[0] in self.spec.externals):
            recv = None
            try:
                recv = self.eval(node.func.value, st)
            except Unsupported:
                recv = None
            if isinstance(recv, (Arr, View, ColView, LazyArr)):
                m = self.spec.externals.get(f"ndarray.{node.func.attr}")
                if m is None:
                    raise Unsupported(f"method .{node.func.attr}() of an array (no contract given)")
                args = [self.eval(a, st) for a in node.args]
                kwargs = {k.arg: self.eval(k.value, st) for k in node.keywords}
                return m(self, st, [recv] + args, kwargs, node)
        if f is None:
            raise Unsupported(f"call of {ast.unparse(node.func)} (no contract given)")
        args = [self.eval(a, st) for a in node.args]
        kwargs = {k.arg: self.eval(k.value, st) for k in node.keywords}
        return f(self, st, args, kwargs, node)

    # ---- statements
    def run_block(self, stmts, states):
        for s in stmts:
            if not states:
                break
            nxt = []
            for st in states:
                nxt.extend(self.exec(s, st))
            states = nxt
        return states

    def exec(self, node, st):
        m = getattr(self, "s_" + type(node).__name__, None)
        if m is None:
            raise Unsupported(f"statement {type(node).__name__} at line {node.lineno}")
        return m(node, st)

    def s_Pass(self, node, st):
        return [st]

    def s_Expr(self, node, st):
        if isinstance(node.value, ast.Constant):
            return [st]  # docstring
        self.eval(node.value, st)
        return [st]

    def assign(self, target, value, st, node):
        if isinstance(target, ast.Name):
            st.vars[target.id] = value
        elif isinstance(target, (ast.Tuple, ast.List)):
            if not isinstance(value, tuple) or len(value) != len(target.elts):
                raise Unsupported(f"unpacking at line {node.lineno}")
            for t, v in zip(target.elts, value):
                self.assign(t, v, st, node)
        elif isinstance(target, ast.Subscript):
            a = self.eval(target.value, st)
            if not isinstance(a, (Arr, View)):
                raise Unsupported(f"store into {a!r}")
            sl = target.slice
            if isinstance(sl, ast.Tuple) and len(sl.elts) == 2 and isinstance(sl.elts[0], ast.Slice) and sl.elts[0].lower is None and sl.elts[0].upper is None and sl.elts[0].step is None and a.ndim == 2:
                # column store `a[:, c] = v` (v: 1-d array of the column's length, evaluated before the store)
                c = _int(self.eval(sl.elts[1], st))
                self.oblige(f"index_in_bounds@line{node.lineno}", st, z3.And(c >= 0, c < _int(a.shape[1])), where=f"line {node.lineno}")
                if not isinstance(value, (Arr, View, ColView, LazyArr)) or value.ndim != 1:
                    raise Unsupported("column store of a value that is not a 1-d array")
                self.oblige(f"column_store_lengths_agree@line{node.lineno}", st, _int(value.shape[0]) == _int(a.shape[0]))
                heap_now = dict(st.heap)  # terms are values: selecting through this copy is a snapshot of the right-hand side
                base = a.base()
                if self.concrete:
                    rows = _cint(a.shape[0])
                    vals = [value.sel(heap_now, z3.IntVal(r)) for r in range(rows)]
                    for r in range(rows):
                        a.store(st.heap, (z3.IntVal(r), c), vals[r])
                    return
                old_term = st.heap[base.loc]
                new_term = fresh("colstore", arr_sort(base.ndim))
                pre = list(getattr(a, "prefix", ()))
                idx = [z3.Int(f"k{d}!cs") for d in range(base.ndim)]
                row, col = idx[len(pre)], idx[len(pre) + 1]
                hit = z3.And(*[i == p for i, p in zip(idx, pre)], col == c, row >= 0, row < _int(a.shape[0]))
                st.pc.append(z3.ForAll(idx, z3.Select(new_term, *idx) == z3.If(hit, value.sel(heap_now, row), z3.Select(old_term, *idx)), patterns=[z3.Select(new_term, *idx)]))
                st.heap[base.loc] = new_term
                return
            idx = self.eval(target.slice, st)
            idx = idx if isinstance(idx, tuple) else (idx,)
            if len(idx) != a.ndim:
                raise Unsupported("store with a partial index")
            self.bounds(st, a, idx, node)
            self.log_access("w", a, idx, st)
            a.store(st.heap, idx, value)
        else:
            raise Unsupported(f"assignment target {type(target).__name__}")

    def s_Assign(self, node, st):
        v = self.eval(node.value, st)
        for t in node.targets:
            self.assign(t, v, st, node)
        return [st]

    def s_AugAssign(self, node, st):
        load = ast.copy_location(ast.BinOp(left=_as_load(node.target), op=node.op, right=node.value), node)
        ast.fix_missing_locations(load)
        v = self.eval(load, st)
        self.assign(node.target, v, st, node)
        return [st]

    def s_If(self, node, st):
        c = self.eval(node.test, st)
        if self.concrete and not isinstance(c, bool):
            g = z3.simplify(_bool(c))
            if not (z3.is_true(g) or z3.is_false(g)):
                from pyvc.explore import eval_term

                g = z3.BoolVal(bool(eval_term(_bool(c), {})))  # conditions over exp/erf: decided numerically
            c = z3.is_true(g)
        if isinstance(c, bool):
            return self.run_block(node.body if c else node.orelse, [st])
        c = _bool(c)
        a, b = st.copy(), st.copy()
        a.pc.append(c)
        b.pc.append(z3.Not(c))
        return self.run_block(node.body, [a]) + self.run_block(node.orelse, [b])

    def s_Return(self, node, st):
        v = self.eval(node.value, st) if node.value is not None else None
        self.returns.append((st, v))
        return []

    def s_For(self, node, st):
        if node.orelse:
            raise Unsupported("for/else")
        it = node.iter
        d = self.dotted(it.func) if isinstance(it, ast.Call) else None
        if d == "zip" and "zip" not in st.vars and not it.keywords and len(it.args) >= 1 and all(isinstance(a, ast.Name) for a in it.args):
            # `for x, y in zip(a, b): body`  ==  `for k in range(min(len(a), len(b))): x, y = a[k], b[k]; body`
            seqs = [self.eval(a, st) for a in it.args]
            if not all(isinstance(q, (Arr, View, ColView)) and q.ndim == 1 for q in seqs):
                raise Unsupported(f"zip over something that is not a 1-d array (line {node.lineno})")
            n = _int(seqs[0].shape[0])
            for q in seqs[1:]:
                m = _int(q.shape[0])
                n = z3.If(m < n, m, n)
            kname, nname = f"zip!k{node.lineno}", f"zip!n{node.lineno}"
            st.vars[nname] = z3.simplify(n)
            elems = [ast.Subscript(value=ast.Name(id=a.id, ctx=ast.Load()), slice=ast.Name(id=kname, ctx=ast.Load()), ctx=ast.Load()) for a in it.args]
            if isinstance(node.target, ast.Name) and len(elems) == 1:
                bind = ast.Assign(targets=[node.target], value=elems[0])
            elif isinstance(node.target, (ast.Tuple, ast.List)) and len(node.target.elts) == len(elems):
                bind = ast.Assign(targets=[node.target], value=ast.Tuple(elts=elems, ctx=ast.Load()))
            else:
                raise Unsupported(f"zip loop target at line {node.lineno}")
            loop = ast.For(target=ast.Name(id=kname, ctx=ast.Store()), iter=ast.Call(func=ast.Name(id="range", ctx=ast.Load()), args=[ast.Name(id=nname, ctx=ast.Load())], keywords=[]), body=[bind] + list(node.body), orelse=[])
            ast.copy_location(loop, node)
            ast.fix_missing_locations(loop)
            for sub in ast.walk(loop):
                if not hasattr(sub, "lineno"):
                    sub.lineno = node.lineno
            return self.s_For(loop, st)
        if d not in ("range", "nb.prange", "numba.prange") or len(it.args) != 1 or it.keywords or not isinstance(node.target, ast.Name):
            raise Unsupported(f"loop form at line {node.lineno}: only `for i in range(e)` / `nb.prange(e)`")
        if self.concrete:
            n = _cint(self.eval(it.args[0], st))
            states = [st]
            for k in range(max(n, 0)):
                for s_ in states:
                    s_.vars[node.target.id] = z3.IntVal(k)
                states = self.run_block(node.body, states)
            return states
        ordinal = self.loop_ordinal
        self.loop_ordinal += 1
        inv = self.spec.invariants.get(ordinal)
        if inv is None:
            raise Unsupported(f"loop {ordinal} (line {node.lineno}) has no invariant")
        n = _int(self.eval(it.args[0], st))
        ivar = node.target.id
        mod_names, mod_arrays = _modified(node.body)
        # arrays written through calls: the callee's declared frame (`modifies`), or - for an external without a
        # declared frame - conservatively every array handed to it
        for sub in ast.walk(ast.Module(body=node.body, type_ignores=[])):
            if not isinstance(sub, ast.Call):
                continue
            f = self.spec.externals.get(self.dotted(sub.func) or "")
            if f is None or getattr(f, "pure", False):
                continue
            positions = getattr(f, "modifies_positions", None)
            for k, a in enumerate(sub.args):
                if positions is not None and k not in positions:
                    continue
                b = a
                while isinstance(b, ast.Subscript):
                    b = b.value
                if isinstance(b, ast.Name) and isinstance(st.vars.get(b.id), (Arr, View)):
                    mod_arrays.add(b.id)
        self.loops[ordinal] = {"var": ivar, "arrays": sorted(mod_arrays), "over": _bound_source(it.args[0])}
        tag = f"loop{ordinal}@line{node.lineno}"
        entry_env = Env(self.entry.vars, self.entry.heap, self.ghost, self.loops)

        def inv_at(state, i):
            try:
                return z3.And(*[_bool(c) for c in inv(entry_env, Env(state.vars, state.heap, self.ghost, self.loops), i)])
            except (KeyError, TypeError) as e:
                raise Unsupported(f"invariant of loop {ordinal} refers to {e}, which is not defined at this point (code restructured?)") from None

        # (1) holds on entry
        self.oblige(f"{tag}.invariant_holds_on_entry", st, inv_at(st, z3.IntVal(0)))

        def havoc(state):
            h = state.copy()
            for name in sorted(mod_names):
                if name in h.vars and z3.is_expr(h.vars[name]):
                    h.vars[name] = fresh(name, h.vars[name].sort())
                elif name in h.vars and not isinstance(h.vars[name], (Arr, View)):
                    # a Python-level constant that the body reassigns: becomes unknown of numeric sort
                    v = h.vars[name]
                    if isinstance(v, bool):
                        h.vars[name] = fresh(name, BOOL)
                    elif isinstance(v, int):
                        h.vars[name] = fresh(name, INT)
                    elif isinstance(v, float):
                        h.vars[name] = fresh(name, REAL)
                    else:
                        raise Unsupported(f"loop reassigns {name!r} of unsupported kind")
                # names first bound inside the body are not live at the loop head
            for aname in sorted(mod_arrays):
                a = h.vars.get(aname)
                if not isinstance(a, (Arr, View)):
                    raise Unsupported(f"loop stores into {aname!r}, which is not an array here")
                h.heap[a.loc] = fresh(aname, arr_sort(a.base().ndim))
            return h

        # (2) preserved by an arbitrary iteration
        h = havoc(st)
        i = fresh(ivar, INT)
        h.vars[ivar] = i
        h.pc += [i >= 0, i < n, inv_at(h, i)]
        nret = len(self.returns)
        racing = self.parallel and d != "range" and self.prange_depth == 0 and self.access_log is None
        if racing:
            # numba runs the iterations of the outermost prange of a parallel=True kernel concurrently: two different
            # iterations must not touch the same cell unless both only read it, and the body must not update a scalar
            # that is live across iterations
            shared = sorted(nm for nm in mod_names if nm in st.vars and nm != ivar and not isinstance(st.vars[nm], (Arr, View)))
            self.oblige(f"{tag}.prange_body_updates_no_shared_scalar", st, z3.BoolVal(not shared), where=str(shared))
            h2 = havoc(st)
            for loc in list(h2.heap):
                h2.heap[loc] = h.heap[loc]  # both iterations start from the same arbitrary state
            for nm, val in h.vars.items():
                if nm in h2.vars and nm != ivar:
                    h2.vars[nm] = val
            i2 = fresh(ivar + "_other", INT)
            h2.vars[ivar] = i2
            h2.pc = list(h.pc) + [i2 >= 0, i2 < n, i2 != i]
            self.access_log, self.silent, self.prange_depth = [], True, self.prange_depth + 1
            ordinal_here = self.loop_ordinal
            try:
                self.run_block(node.body, [h2])
                log2 = self.access_log
            finally:
                self.access_log, self.silent, self.prange_depth = None, False, self.prange_depth - 1
                self.loop_ordinal = ordinal_here  # the second copy of the body is the same loops again
            del self.returns[nret:]
            self.access_log = []
        self.prange_depth += 1
        try:
            ends = self.run_block(node.body, [h])
        finally:
            self.prange_depth -= 1
        if racing:
            log1, self.access_log = self.access_log, None
            k = 0
            for kind1, loc1, idx1, pc1 in log1:
                for kind2, loc2, idx2, pc2 in log2:
                    if loc1 != loc2 or (kind1 == "r" and kind2 == "r") or len(idx1) != len(idx2):
                        continue
                    hyp = State(pc=list(pc1) + [c for c in pc2 if not any(c.eq(c1) for c1 in pc1)])
                    self.oblige(f"{tag}.prange_iterations_touch_disjoint_cells", hyp, z3.Or(*[a != b for a, b in zip(idx1, idx2)]), where=f"{kind1}/{kind2} on {loc1.split('@')[0]}")
                    k += 1
            if k == 0:
                self.oblige(f"{tag}.prange_iterations_touch_disjoint_cells", st, z3.BoolVal(True), where="no shared array is written")
        for end in ends:
            self.oblige(f"{tag}.invariant_preserved_by_an_iteration", end, inv_at(end, i + 1))
        if len(self.returns) != nret:
            raise Unsupported("return inside a loop")
        # (3) continue after the loop from the invariant at the exit index
        out = havoc(st)
        out.vars.pop(ivar, None)
        for name in mod_names:
            if name not in st.vars:
                out.vars.pop(name, None)
        out.pc += [inv_at(out, z3.If(n >= 0, n, 0))]  # range(n) with n <= 0 runs no iteration: exit index 0
        return [out]


def _bound_source(node):
    """`X.size` / `X.shape[k]` / `len(X)` -> (X, k): which array dimension a loop runs over (None if it is anything else)."""
    if isinstance(node, ast.Attribute) and node.attr == "size" and isinstance(node.value, ast.Name):
        return (node.value.id, 0)
    if isinstance(node, ast.Subscript) and isinstance(node.value, ast.Attribute) and node.value.attr == "shape" and isinstance(node.value.value, ast.Name) and isinstance(node.slice, ast.Constant):
        return (node.value.value.id, node.slice.value)
    if isinstance(node, ast.Call) and isinstance(node.func, ast.Name) and node.func.id == "len" and len(node.args) == 1 and isinstance(node.args[0], ast.Name):
        return (node.args[0].id, 0)
    return None


def _as_load(target):
    t = ast.parse(ast.unparse(target), mode="eval").body
    for x in ast.walk(t):
        if hasattr(x, "lineno"):
            x.lineno = x.end_lineno = target.lineno
    return t


def _modified(body):
    names, arrays = set(), set()
    for node in ast.walk(ast.Module(body=body, type_ignores=[])):
        targets = []
        if isinstance(node, ast.Assign):
            targets = node.targets
        elif isinstance(node, ast.AugAssign):
            targets = [node.target]
        elif isinstance(node, ast.For):
            targets = [node.target]
        for t in targets:
            for x in ast.walk(t):
                if isinstance(x, ast.Name) and isinstance(x.ctx, ast.Store):
                    names.add(x.id)
            if isinstance(t, ast.Subscript):
                b = t.value
                while isinstance(b, ast.Subscript):
                    b = b.value
                if isinstance(b, ast.Name):
                    arrays.add(b.id)
                else:
                    raise Unsupported("store through a computed reference")
    return names, arrays


# ----------------------------------------------------------------------------- proving a function against its contract
def make_params(spec: FnSpec, st: State):
    for name, kind in spec.params:
        if isinstance(kind, str) and kind.startswith("arr"):
            nd = int(kind[3:])
            shape = [fresh(f"{name}_n{k}", INT) for k in range(nd)]
            st.vars[name] = st.new_array(shape, prefix=name)
        elif kind == "int":
            st.vars[name] = fresh(name, INT)
        elif kind == "real":
            st.vars[name] = fresh(name, REAL)
        elif kind == "bool":
            st.vars[name] = fresh(name, BOOL)
        elif callable(kind):
            st.vars[name] = kind(st)  # value built by the contract (e.g. a tuple of extended reals, case by case)
        else:
            raise Unsupported(f"parameter kind {kind}")


def prove(spec: FnSpec, timeout_s=10.0, budget_s=120.0):
    """Generate and discharge the obligations of one function.  Returns (obligations, notes)."""
    src = spec.source()
    tree = ast.parse(src)
    fdef = tree.body[0]
    if not isinstance(fdef, ast.FunctionDef):
        raise Unsupported("not a function definition")
    declared = [a.arg for a in fdef.args.args]
    if declared != [n for n, _ in spec.params]:
        raise Unsupported(f"parameters of the code {declared} differ from the contract {[n for n, _ in spec.params]}")
    ex = _Exec(spec)
    ex.parallel = any("parallel=True" in ast.unparse(d).replace(" ", "") for d in fdef.decorator_list)
    st = State()
    make_params(spec, st)
    ex.ghost = spec.ghosts() if spec.ghosts else {}
    st.pc += [_bool(c) for c in spec.requires(Env(st.vars, st.heap, ex.ghost))]
    if spec.axioms:
        st.pc += [_bool(c) for c in spec.axioms(Env(st.vars, st.heap, ex.ghost))]
    ex.entry = st.copy()
    # vacuity: the precondition must be satisfiable
    s = z3.Solver()
    s.set("timeout", 10000)
    s.add(*st.pc)
    if s.check() == z3.unsat:
        raise Unsupported("contradictory precondition")
    finals = ex.run_block(fdef.body, [st.copy()])
    ends = [(f, None) for f in finals] + ex.returns
    if not ends:
        raise Unsupported("no path reaches the end of the function")
    old = Env(ex.entry.vars, ex.entry.heap, ex.ghost)
    for end, val in ends:
        new = Env(end.vars, end.heap, ex.ghost)
        for name, goal in spec.ensures(old, new, val):
            ex.oblige(f"post.{name}", end, goal)
        # frame: array parameters outside `modifies` are unchanged
        for pname, kind in spec.params:
            if isinstance(kind, str) and kind.startswith("arr") and pname not in spec.modifies:
                a = ex.entry.vars[pname]
                ex.oblige(f"frame.{pname}_unchanged", end, end.heap[a.loc] == ex.entry.heap[a.loc])
    t0 = time.time()
    n_unknown = 0
    for ob in ex.obligations:
        if time.time() - t0 > budget_s:
            ob.status, ob.backend, ob.reason = "unknown", "z3-wp", f"budget of {budget_s:.0f}s for this function exhausted"
            continue
        discharge(ob, timeout_s, use_cvc5=n_unknown < 2)
        n_unknown += ob.status == "unknown"
    # vacuity canaries: `False` must not follow from the hypotheses under which an invariant is re-established or a
    # postcondition is proved (contradictory requires / invariant / callee contract would make everything "provable")
    vacuous, seen = [], set()
    for ob in ex.obligations:
        if not (ob.name.startswith("post.") or ob.name.endswith("invariant_preserved_by_an_iteration")):
            continue
        key = (ob.name.split(".")[0] if ob.name.startswith("loop") else "post", len(ob.hyps))
        if key in seen:
            continue
        seen.add(key)
        c = z3.Solver()
        c.set("timeout", 1500)
        c.add(*ob.hyps)
        if c.check() == z3.unsat:
            vacuous.append(ob.name)
    return ex.obligations, {"source_lines": len(src.splitlines()), "loops": ex.loop_ordinal, "paths": len(ends), "parallel": ex.parallel, "vacuous": vacuous, "canaries": len(seen)}


def discharge(ob: Obligation, timeout_s=10.0, use_cvc5=True):
    """z3 with restarts: quantifier instantiation is heavy-tailed (the same query takes 20 ms or times out depending
    on the seed), so several short attempts with different seeds come before one long one; `unsat` / `sat` of any
    attempt is final, only all-`unknown` is undecided."""
    t0 = time.time()
    goal = skolemize(ob.goal)
    ob.backend = "z3-wp"
    attempts = [(0, min(2.0, timeout_s)), (1, min(2.0, timeout_s)), (2, min(3.0, timeout_s)), (3, min(5.0, timeout_s)), (4, timeout_s)]
    reason = ""
    s = None
    for seed, tmo in attempts:
        s = z3.Solver()
        s.set("timeout", int(tmo * 1000))
        s.set("random_seed", seed)
        s.add(*ob.hyps)
        s.add(z3.Not(goal))
        r = s.check()
        if r == z3.unsat:
            ob.status = "proved"
            break
        if r == z3.sat:
            ob.status, ob.model = "refuted", s.model()
            break
        reason = f"z3: {s.reason_unknown()} ({len(attempts)} seeds)"
    else:
        ob.status, ob.reason = "unknown", reason
        if use_cvc5:
            try:
                rc, _err = run_cvc5(s.to_smt2(), timeout_s)
            except Exception as e:  # cvc5 not usable on this query
                rc = f"error {e}"
            if rc == "unsat":
                ob.status, ob.backend, ob.reason = "proved", "cvc5-wp", ""
            else:
                ob.reason += f"; cvc5: {rc}"
    ob.time_s = time.time() - t0
    return ob


# ----------------------------------------------------------------------------- using a contract at a call site
def call_contract(spec: FnSpec, ghost_args=None):
    """The contract of `spec`, as an `externals` entry: requires proved, frame + ensures assumed.
    `ghost_args(ex, st, vars)` gives the caller's instantiation of the callee's ghost functions."""

    def call(ex: _Exec, st: State, args, kwargs, node):
        if kwargs or len(args) != len(spec.params):
            raise Unsupported(f"call of {spec.name} with keywords / wrong arity")
        if ex.concrete:
            sub = _Exec(spec)
            sub.concrete = True
            st2 = State({n: v for (n, _), v in zip(spec.params, args)}, st.heap, [])
            st2.heap = st.heap  # the callee works on the caller's heap
            fdef = ast.parse(spec.source()).body[0]
            sub.entry = st2
            sub.run_block(fdef.body, [st2])
            return None
        vars_ = {n: v for (n, _), v in zip(spec.params, args)}
        for (n, kind), v in zip(spec.params, args):
            if kind.startswith("arr") and not (isinstance(v, (Arr, View)) and v.ndim == int(kind[3:])):
                raise Unsupported(f"argument {n} of {spec.name}: {kind} expected")
        if spec.ghosts and ghost_args is None:
            raise Unsupported(f"{spec.name} is parametric in ghost functions; the caller gives no instantiation")
        ghost = ghost_args(ex, st, vars_) if ghost_args else {}
        pre_env = Env(vars_, dict(st.heap), ghost)
        for k, c in enumerate(spec.requires(pre_env)):
            ex.oblige(f"call@line{node.lineno}.requires[{k}]_of_{spec.fn.__name__}", st, _bool(c))
        if ex.access_log is not None:
            for (n, kind), v in zip(spec.params, args):
                if isinstance(kind, str) and kind.startswith("arr"):
                    free = [fresh("cell", INT) for _ in range(v.ndim)]
                    stc = State(pc=list(st.pc) + [z3.And(f >= 0, f < _int(sh)) for f, sh in zip(free, v.shape)])
                    ex.log_access("w" if n in spec.modifies else "r", v, free, stc)
        old_heap = dict(st.heap)
        for n in spec.modifies:
            a = vars_[n]
            newterm = fresh(n, arr_sort(a.base().ndim))
            if isinstance(a, View):
                # cells outside the view are unchanged
                idx = [fresh("k", INT) for _ in range(a.base().ndim)]
                outside = z3.Or(*[i != p for i, p in zip(idx, a.prefix)])
                st.pc.append(z3.ForAll(idx, z3.Implies(outside, z3.Select(newterm, *idx) == z3.Select(old_heap[a.loc], *idx)), patterns=[z3.Select(newterm, *idx)]))
            st.heap[a.loc] = newterm
        old, new = Env(vars_, old_heap, ghost), Env(vars_, st.heap, ghost)
        for _, c in spec.ensures(old, new, None):
            st.pc.append(_bool(c))
        return None

    call.modifies_positions = tuple(k for k, (n, _) in enumerate(spec.params) if n in spec.modifies)
    return call


# ----------------------------------------------------------------------------- cross-check against CPython
def run_concrete(spec: FnSpec, args: dict):
    """Execute the AST of `spec.fn` with this executor on *concrete* inputs (numpy arrays / numbers): loops unrolled,
    conditions decided, no contracts of loops used.  Returns {array parameter: numpy array of floats after the run}.
    Compared with the result of CPython running the real function, this checks the executor's reading of the
    language (precedence, augmented assignment, views, column stores, elementwise temporaries)."""
    import numpy as np
    from fractions import Fraction

    from pyvc.explore import eval_term

    ex = _Exec(spec)
    ex.concrete = True
    st = State()
    for name, kind in spec.params:
        v = args[name]
        if isinstance(kind, str) and kind.startswith("arr"):
            a = np.asarray(v, dtype=float)
            loc = f"{name}@c"
            st.heap[loc] = CArray({idx: z3.RealVal(Fraction(float(a[idx]))) for idx in np.ndindex(a.shape)})
            st.vars[name] = Arr(loc, [z3.IntVal(d) for d in a.shape])
        elif kind == "int":
            st.vars[name] = z3.IntVal(int(v))
        elif kind == "real":
            st.vars[name] = z3.RealVal(Fraction(float(v)))
        elif kind == "bool":
            st.vars[name] = bool(v)
        else:
            st.vars[name] = v
    ex.entry = st
    fdef = ast.parse(spec.source()).body[0]
    ends = ex.run_block(fdef.body, [st]) + [s_ for s_, _ in ex.returns]
    if len(ends) != 1:
        raise Unsupported(f"concrete mode: {len(ends)} final states")
    end = ends[0]
    out = {}
    for name, kind in spec.params:
        if isinstance(kind, str) and kind.startswith("arr"):
            a = np.asarray(args[name], dtype=float)
            res = np.empty(a.shape)
            cells = end.heap[f"{name}@c"].cells
            for idx in np.ndindex(a.shape):
                res[idx] = eval_term(cells[idx], {})
            out[name] = res
    return out
