"""Contract framework: symbol factories, polymorphic logic helpers, contract base class.

A contract is written once and evaluated in two modes:
  * symbolic  - inputs are SymReal/…, the real function runs under the shims, ``ensures``
                yields z3 formulas that become obligations ``pre ∧ pc ⇒ post``;
  * concrete  - inputs are floats taken from a counter-model or a sampled assignment, the
                *unpatched* real function runs natively, ``ensures`` yields Python bools
                (equalities with a relative tolerance).  This is the native replay.
"""
from __future__ import annotations

import importlib
import math
from fractions import Fraction

import numpy as np
import z3

from . import sym
from .sym import isfloat, iscomplex, EngineError, SArr, SymBool, SymComplex, SymReal, is_sym


class PreconditionFailed(Exception):
    pass


class Raised:
    """Exceptional outcome of the function under contract."""

    def __init__(self, exc):
        self.exc = exc

    def __repr__(self):
        return f"Raised({type(self.exc).__name__}: {self.exc})"


# ----------------------------------------------------------------------------- factories
class SymFactory:
    symbolic = True

    def __init__(self, ctx):
        self.ctx = ctx
        self.symbols: dict[str, object] = {}

    def real(self, name):
        if name in self.symbols:
            raise EngineError(f"duplicate symbol {name}")
        v = SymReal(z3.Real(name))
        self.symbols[name] = v
        return v

    def bool(self, name):
        v = SymBool(z3.Bool(name))
        self.symbols[name] = v
        return v

    def real_array(self, name, *shape):
        a = np.empty(shape, dtype=object)
        for idx in np.ndindex(*shape):
            a[idx] = self.real(name + "_" + "_".join(map(str, idx)))
        return a.view(SArr)

    def require(self, cond, note=None):
        if cond is True:
            return
        if cond is False:
            raise sym.PathAbort()
        self.ctx.assume(cond, note)

    def fresh(self, name):
        """A fresh symbol introduced *during* the run (stub results); unique name."""
        n = self.ctx.ghost.setdefault("_fresh", {})
        k = n.get(name, 0)
        n[name] = k + 1
        return self.real(f"{name}!{k}")


class ConcFactory:
    symbolic = False

    def __init__(self, env, rng=None, default=None):
        self.env = env
        self.rng = rng
        self.default = default
        self.symbols = {}
        self.used = {}

    def _get(self, name):
        if name in self.env:
            v = self.env[name]
        elif self.rng is not None:
            v = round(self.rng.uniform(-3, 3), 3)
        elif self.default is not None:
            v = self.default
        else:
            raise KeyError(name)
        if isinstance(v, str):
            v = float(Fraction(v))
        self.used[name] = v
        return v

    def real(self, name):
        v = self._get(name)
        return float(v)

    def bool(self, name):
        v = self.env.get(name, self.env.get("__default_bool__", False))
        self.used[name] = bool(v)
        return bool(v)

    def real_array(self, name, *shape):
        a = np.empty(shape, dtype=float)
        for idx in np.ndindex(*shape):
            a[idx] = self.real(name + "_" + "_".join(map(str, idx)))
        return a

    def require(self, cond, note=None):
        if not bool(cond):
            raise PreconditionFailed(note or "precondition")

    def fresh(self, name):
        k = self.used.setdefault("_fresh_" + name, 0)
        self.used["_fresh_" + name] = k + 1
        return self.real(f"{name}!{k}")


# ----------------------------------------------------------------------------- logic helpers
RTOL = 1e-7
ATOL = 1e-9


def _symbolic(*xs):
    for x in xs:
        if is_sym(x) or z3.is_expr(x):
            return True
        if isinstance(x, np.ndarray) and x.dtype == object:
            return True
    return False


def _t(x):
    """z3 arithmetic term of a scalar."""
    if type(x) is SymReal:
        return x.t
    if z3.is_expr(x):
        return x
    return sym.lift_num(x)


def _b(x):
    if type(x) is SymBool:
        return x.t
    if z3.is_expr(x):
        return x
    return z3.BoolVal(bool(x))


class L:
    """Polymorphic logic: z3 formulas on symbolic values, Python bools on concrete ones."""

    rtol = RTOL
    atol = ATOL

    @staticmethod
    def eq(a, b):
        if isinstance(a, (np.ndarray, list, tuple)) or isinstance(b, (np.ndarray, list, tuple)):
            aa = np.asarray(a, dtype=object)
            bb = np.asarray(b, dtype=object)
            if aa.shape != bb.shape:
                return False
            return L.and_(*[L.eq(x, y) for x, y in zip(aa.reshape(-1), bb.reshape(-1))])
        if type(a) is SymComplex or type(b) is SymComplex or iscomplex(a) or iscomplex(b):
            pa, pb = sym._re_im(a), sym._re_im(b)
            return L.and_(L.eq(pa[0], pb[0]), L.eq(pa[1], pb[1]))
        if _symbolic(a, b):
            if _inf(a) or _inf(b):
                return False
            return SymBool(_t(a) == _t(b))
        if a is None or b is None:
            return a is b
        a, b = float(a), float(b)
        if a == b:
            return True
        if math.isnan(a) or math.isnan(b) or math.isinf(a) or math.isinf(b):
            return False
        return abs(a - b) <= L.atol + L.rtol * max(abs(a), abs(b))

    @staticmethod
    def le(a, b):
        if _symbolic(a, b):
            if _inf(b):
                return float(b) > 0
            if _inf(a):
                return float(a) < 0
            return SymBool(_t(a) <= _t(b))
        return float(a) <= float(b) + L.atol

    @staticmethod
    def lt(a, b):
        if _symbolic(a, b):
            if _inf(b):
                return float(b) > 0
            if _inf(a):
                return float(a) < 0
            return SymBool(_t(a) < _t(b))
        return float(a) < float(b)

    @staticmethod
    def ge(a, b):
        return L.le(b, a)

    @staticmethod
    def gt(a, b):
        return L.lt(b, a)

    @staticmethod
    def and_(*xs):
        xs = [x for x in xs if x is not True and not (isinstance(x, (bool, np.bool_)) and x)]
        if any((isinstance(x, (bool, np.bool_)) and not x) for x in xs):
            return False
        if not xs:
            return True
        return SymBool(z3.And(*[_b(x) for x in xs]))

    @staticmethod
    def or_(*xs):
        if any((isinstance(x, (bool, np.bool_)) and x) for x in xs):
            return True
        xs = [x for x in xs if not isinstance(x, (bool, np.bool_))]
        if not xs:
            return False
        return SymBool(z3.Or(*[_b(x) for x in xs]))

    @staticmethod
    def not_(x):
        if isinstance(x, (bool, np.bool_)):
            return not x
        return SymBool(z3.Not(_b(x)))

    @staticmethod
    def implies(p, q):
        return L.or_(L.not_(p), q)

    @staticmethod
    def iff(p, q):
        if isinstance(p, (bool, np.bool_)) and isinstance(q, (bool, np.bool_)):
            return bool(p) == bool(q)
        return SymBool(_b(p) == _b(q))

    @staticmethod
    def ite(c, a, b):
        if isinstance(c, (bool, np.bool_)):
            return a if c else b
        return SymReal(z3.If(_b(c), _t(a), _t(b)))

    @staticmethod
    def abs(a):
        return abs(a)

    @staticmethod
    def min(a, b):
        if _symbolic(a, b):
            if _inf(a):
                return b if float(a) > 0 else a
            if _inf(b):
                return a if float(b) > 0 else b
            return SymReal(z3.If(_t(a) <= _t(b), _t(a), _t(b)))
        return min(a, b)

    @staticmethod
    def max(a, b):
        if _symbolic(a, b):
            if _inf(a):
                return a if float(a) > 0 else b
            if _inf(b):
                return b if float(b) > 0 else a
            return SymReal(z3.If(_t(a) >= _t(b), _t(a), _t(b)))
        return max(a, b)

    @staticmethod
    def sum(xs):
        r = 0
        for x in xs:
            r = r + x
        return r

    @staticmethod
    def fn(name, x):
        """Transcendental function on symbolic or concrete scalar."""
        return sym._fn(name, x)


def _inf(x):
    return isfloat(x) and math.isinf(float(x))


# ----------------------------------------------------------------------------- contract base
def resolve(target: str):
    """'pkg.mod:Qual.name' -> (module, owner, attribute name, object)."""
    modname, qual = target.split(":")
    mod = importlib.import_module(modname)
    owner = mod
    parts = qual.split(".")
    for p in parts[:-1]:
        owner = getattr(owner, p)
    raw = owner.__dict__[parts[-1]] if hasattr(owner, "__dict__") and parts[-1] in owner.__dict__ else getattr(owner, parts[-1])
    obj = getattr(owner, parts[-1])
    return mod, owner, parts[-1], obj, raw


class Contract:
    """Base class of sidecar contracts (see contracts/*.py)."""

    prop = "C00"
    name = "unnamed"
    target = ""  # 'module:qualname' of the real function (documentation + extraction check)
    functions = ()  # all real functions executed under this contract (evidence)
    modules = ()  # modules whose globals are rebound during symbolic runs
    stubs = {}  # "module:name" -> replacement (trusted callee contracts)
    trusted = ()  # descriptions of trusted stubs / axioms in force
    strength = "S"  # 'U' | 'S' ; may be overridden per case via case['strength']
    max_paths = {"quick": 2000, "thorough": 20000}
    timeout_s = {"quick": 20.0, "thorough": 120.0}
    agreement_runs = 3
    drops = ()  # extraction drops (what of the real text is not executed as is)

    def cases(self, tier):
        yield {}

    def case_id(self, case):
        return ",".join(f"{k}={v}" for k, v in case.items() if not k.startswith("_"))

    def build(self, S, case):
        raise NotImplementedError

    def call(self, S, case, inp):
        """Run the real code; default: call ``target`` with inp = (args, kwargs)."""
        fn = resolve(self.target)[3]
        args, kwargs = inp
        return fn(*args, **kwargs)

    def stubs_for(self, S, case, inp):
        return dict(self.stubs)

    def ensures(self, S, case, inp, out):
        raise NotImplementedError
        yield

    def axioms(self, S, case, terms):
        """Ground axiom instances for the uninterpreted functions (see axioms.py)."""
        from .axioms import ground_axioms

        return ground_axioms(terms)

    def observe(self, out):
        """Project the outcome to something comparable between symbolic and native runs."""
        return out

    def sample_env(self, rng, case):
        """Optional: concrete assignment of the input symbols satisfying the precondition."""
        return None
