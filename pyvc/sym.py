"""PyVC symbolic values: the real pyglotaran functions are executed by CPython on these.

SymReal / SymComplex / SymBool wrap z3 terms.  ``SymBool.__bool__`` is the only place
where a path forks (see pyvc.explore).  Nothing here knows about glotaran.

Rules (DESIGN.md Appendix A):
  * no __float__/__int__/__index__/__hash__ on symbolic scalars: silent concretisation
    must raise (the job then ends *undecided*);
  * ``__class__`` is spoofed to ``float`` so that isinstance(x, float) holds and attrs
    validators accept the value; inside the engine always use ``type(x) is SymReal``.
"""
from __future__ import annotations

import math
from fractions import Fraction

import numpy as np
import z3


class EngineError(Exception):
    """A construct outside the engine: the job is undecided, never a verdict."""


class PathAbort(BaseException):
    """The current path is infeasible (or was cut); not an error."""


_REAL = z3.RealSort()

# ----------------------------------------------------------------------------- context
CUR = None  # current pyvc.explore.PathCtx


def _ctx():
    if CUR is None:
        raise EngineError("symbolic value used outside an exploration context")
    return CUR


# ----------------------------------------------------------------------------- type tests
def isfloat(x) -> bool:
    """A concrete Python/numpy float (never a symbolic scalar: their __class__ is spoofed)."""
    t = type(x)
    return t is float or (t is not SymReal and t is not SymComplex and t is not SymBool and isinstance(x, np.floating))


def iscomplex(x) -> bool:
    t = type(x)
    return t is complex or (t is not SymReal and t is not SymComplex and t is not SymBool and isinstance(x, np.complexfloating))


# ----------------------------------------------------------------------------- lifting
def is_sym(x) -> bool:
    t = type(x)
    return t is SymReal or t is SymComplex or t is SymBool


def lift_num(x):
    """Exact z3 term of a concrete real number (floats are taken at their exact value)."""
    t = type(x)
    if t is SymReal:
        return x.t
    if t is bool or t is np.bool_:
        return z3.RealVal(1 if x else 0)
    if t is int:
        return z3.RealVal(x)
    if t is Fraction:
        return z3.RealVal(x)
    if isinstance(x, (np.integer,)):
        return z3.RealVal(int(x))
    if isfloat(x):
        f = float(x)
        if math.isnan(f) or math.isinf(f):
            raise EngineError(f"non-finite constant {f!r} in symbolic arithmetic")
        fr = Fraction(f)
        return z3.RealVal(fr)
    if hasattr(x, "value") and type(x).__name__ == "Parameter":
        return lift_num(x.value)
    if isinstance(x, np.ndarray) and x.shape == ():
        return lift_num(x.item())
    raise EngineError(f"cannot lift {type(x)!r} to a symbolic real")


def _is_inf(x) -> bool:
    return isfloat(x) and math.isinf(float(x))


def _is_nan(x) -> bool:
    return isfloat(x) and math.isnan(float(x))


def _numlike(x) -> bool:
    t = type(x)
    if t is SymReal or t is int or t is float or t is bool or t is Fraction:
        return True
    if isinstance(x, (np.floating, np.integer, np.bool_)):
        return True
    if isinstance(x, np.ndarray) and x.shape == () and x.dtype != object:
        return True
    return type(x).__name__ == "Parameter" and hasattr(x, "value")


# ----------------------------------------------------------------------------- SymBool
class SymBool:
    __slots__ = ("t",)

    def __init__(self, t):
        self.t = t

    def __bool__(self):
        return _ctx().branch(self.t)

    def __and__(self, o):
        return SymBool(z3.And(self.t, as_bool_term(o)))

    __rand__ = __and__

    def __or__(self, o):
        return SymBool(z3.Or(self.t, as_bool_term(o)))

    __ror__ = __or__

    def __invert__(self):
        return SymBool(z3.Not(self.t))

    def __xor__(self, o):
        return SymBool(z3.Xor(self.t, as_bool_term(o)))

    __rxor__ = __xor__

    def __eq__(self, o):
        return SymBool(self.t == as_bool_term(o))

    def __ne__(self, o):
        return SymBool(self.t != as_bool_term(o))

    __hash__ = None

    # Python's bool is an int: `count + flag`, `sum(flags)` - the flag enters arithmetic as 0 / 1
    def _as_number(self):
        return SymReal(z3.If(self.t, z3.RealVal(1), z3.RealVal(0)))

    def __add__(self, o):
        return self._as_number() + o

    def __radd__(self, o):
        return o + self._as_number()

    def __sub__(self, o):
        return self._as_number() - o

    def __rsub__(self, o):
        return o - self._as_number()

    def __mul__(self, o):
        return self._as_number() * o

    def __rmul__(self, o):
        return o * self._as_number()

    def __repr__(self):
        return f"SymBool({self.t})"


def as_bool_term(x):
    t = type(x)
    if t is SymBool:
        return x.t
    if t is bool or t is np.bool_:
        return z3.BoolVal(bool(x))
    if z3.is_bool(x):
        return x
    raise EngineError(f"cannot lift {type(x)!r} to a symbolic Boolean")


# ----------------------------------------------------------------------------- SymReal
def _uf(name, arity=1):
    return z3.Function(name, *([_REAL] * arity), _REAL)


UF = {
    "exp": _uf("exp"),
    "log": _uf("log"),
    "sqrt": _uf("sqrt"),
    "erf": _uf("erf"),
    "erfcx": _uf("erfcx"),
    "cos": _uf("cos"),
    "sin": _uf("sin"),
    "arctan2": _uf("arctan2", 2),
    "cerf_re": _uf("cerf_re", 2),
    "cerf_im": _uf("cerf_im", 2),
    "pow": _uf("pow", 2),
}


def _cmp_inf(sym_on_left: bool, op: str, inf: float) -> bool:
    """Compare a finite symbolic real with a concrete +-inf."""
    pos = inf > 0
    if op in ("lt", "le"):
        r = pos
    elif op in ("gt", "ge"):
        r = not pos
    elif op == "eq":
        r = False
    else:
        r = True
    return r if sym_on_left else r  # caller passes already-oriented op


class SymReal:
    """A finite real number (z3 Real term)."""

    __slots__ = ("t",)
    __array_priority__ = None  # not set on purpose (see Appendix A)

    def __init__(self, t):
        self.t = t

    # spoof: isinstance(x, float) is True
    @property
    def __class__(self):  # noqa: D105
        return float

    # -- arithmetic
    def _bin(self, o, f, swap=False):
        if type(o) is SymComplex:
            return NotImplemented
        if iscomplex(o):
            a, b = SymComplex(self, 0.0), SymComplex(o.real, o.imag)
            return f(b, a) if swap else f(a, b)
        if isinstance(o, np.ndarray) and o.shape != ():
            return NotImplemented
        if not _numlike(o):
            return NotImplemented
        if _is_nan(o):
            return float("nan")
        ot = lift_num(o)
        return SymReal(f(ot, self.t) if swap else f(self.t, ot))

    def __add__(self, o):
        if _is_inf(o):
            return float(o)
        return self._bin(o, lambda a, b: a + b)

    __radd__ = __add__

    def __sub__(self, o):
        if _is_inf(o):
            return -float(o)
        return self._bin(o, lambda a, b: a - b)

    def __rsub__(self, o):
        if _is_inf(o):
            return float(o)
        return self._bin(o, lambda a, b: a - b, swap=True)

    def __mul__(self, o):
        if _is_inf(o):
            raise EngineError("symbolic * inf")
        if type(o) in (int, float) and o == 0:
            return SymReal(z3.RealVal(0))
        if type(o) in (int, float) and o == 1:
            return self
        return self._bin(o, lambda a, b: a * b)

    __rmul__ = __mul__

    def __truediv__(self, o):
        if _is_inf(o):
            return SymReal(z3.RealVal(0))
        if type(o) is SymReal or (type(o).__name__ == "Parameter"):
            den = lift_num(o)
            _ctx().assume_nonzero(den)
        elif _numlike(o) and not _is_nan(o) and lift_is_zero(o):
            raise ZeroDivisionError("float division by zero")
        return self._bin(o, lambda a, b: a / b)

    def __rtruediv__(self, o):
        if _is_inf(o):
            raise EngineError("inf / symbolic")
        _ctx().assume_nonzero(self.t)
        return self._bin(o, lambda a, b: a / b, swap=True)

    def __neg__(self):
        return SymReal(-self.t)

    def __pos__(self):
        return self

    def __abs__(self):
        return SymReal(z3.If(self.t >= 0, self.t, -self.t))

    def __pow__(self, o):
        if type(o) is SymComplex or iscomplex(o):
            return NotImplemented
        if isinstance(o, (int, np.integer)) or (isfloat(o) and float(o).is_integer()):
            n = int(o)
            if n == 0:
                return SymReal(z3.RealVal(1))
            base = self.t
            r = base
            for _ in range(abs(n) - 1):
                r = r * base
            if n < 0:
                _ctx().assume_nonzero(base)
                r = 1 / r
            return SymReal(r)
        if isfloat(o) and float(o) == 0.5:
            return self.sqrt()
        return SymReal(UF["pow"](self.t, lift_num(o)))

    def __rpow__(self, o):
        return SymReal(UF["pow"](lift_num(o), self.t))

    def __mod__(self, o):
        raise EngineError("symbolic modulo")

    # -- comparisons
    def _cmp(self, o, op):
        if _is_inf(o):
            pos = float(o) > 0
            return {"lt": pos, "le": pos, "gt": not pos, "ge": not pos, "eq": False, "ne": True}[op]
        if _is_nan(o):
            return op == "ne"
        if o is None:
            return NotImplemented
        if isinstance(o, np.ndarray) and o.shape != ():
            return NotImplemented
        if type(o) is SymComplex:
            return NotImplemented
        if not _numlike(o):
            return NotImplemented
        ot = lift_num(o)
        a = self.t
        t = {"lt": a < ot, "le": a <= ot, "gt": a > ot, "ge": a >= ot, "eq": a == ot, "ne": a != ot}[op]
        return SymBool(t)

    def __lt__(self, o):
        return self._cmp(o, "lt")

    def __le__(self, o):
        return self._cmp(o, "le")

    def __gt__(self, o):
        return self._cmp(o, "gt")

    def __ge__(self, o):
        return self._cmp(o, "ge")

    def __eq__(self, o):
        r = self._cmp(o, "eq")
        return False if r is NotImplemented else r

    def __ne__(self, o):
        r = self._cmp(o, "ne")
        return True if r is NotImplemented else r

    __hash__ = None

    # -- numpy object-dtype method protocol (np.sqrt(obj_array) calls x.sqrt())
    def _ufn(self, name):
        return _fn(name, self)

    def exp(self):
        return self._ufn("exp")

    def log(self):
        return self._ufn("log")

    def expm1(self):
        return self._ufn("exp") - 1.0

    def log1p(self):
        return (self + 1.0)._ufn("log")

    def sqrt(self):
        return self._ufn("sqrt")

    def cos(self):
        return self._ufn("cos")

    def sin(self):
        return self._ufn("sin")

    def erf(self):
        return self._ufn("erf")

    def erfcx(self):
        return self._ufn("erfcx")

    def conjugate(self):
        return self

    conj = conjugate

    @property
    def real(self):
        return self

    @property
    def imag(self):
        return SymReal(z3.RealVal(0))

    def isinf(self):
        return False

    def isnan(self):
        return False

    def isfinite(self):
        return True

    def copy(self):
        return self

    def item(self):
        return self

    def __repr__(self):
        return f"Sym({z3.simplify(self.t)})"

    __str__ = __repr__

    def __format__(self, spec):
        return f"<{z3.simplify(self.t)}>"

    def __deepcopy__(self, memo):
        return self

    def __copy__(self):
        return self

    def __reduce__(self):
        raise EngineError("pickling a symbolic value")


def lift_is_zero(o) -> bool:
    try:
        return float(o) == 0.0
    except Exception:
        return False


def sym_const(v) -> SymReal:
    return SymReal(lift_num(v))


# ----------------------------------------------------------------------------- SymComplex
def _re_im(x):
    t = type(x)
    if t is SymComplex:
        return x.re, x.im
    if t is SymReal:
        return x, 0.0
    if iscomplex(x):
        return float(x.real), float(x.imag)
    if _numlike(x):
        return x, 0.0
    return None


class SymComplex:
    """A complex number as a pair of (symbolic or concrete) reals."""

    __slots__ = ("re", "im")

    def __init__(self, re, im):
        self.re = re
        self.im = im

    @property
    def __class__(self):  # noqa: D105
        return complex

    @property
    def real(self):
        return self.re

    @property
    def imag(self):
        return self.im

    def _split(self, o):
        if isinstance(o, np.ndarray) and o.shape != ():
            return None
        return _re_im(o)

    def __add__(self, o):
        p = self._split(o)
        if p is None:
            return NotImplemented
        return SymComplex(self.re + p[0], self.im + p[1])

    __radd__ = __add__

    def __sub__(self, o):
        p = self._split(o)
        if p is None:
            return NotImplemented
        return SymComplex(self.re - p[0], self.im - p[1])

    def __rsub__(self, o):
        p = self._split(o)
        if p is None:
            return NotImplemented
        return SymComplex(p[0] - self.re, p[1] - self.im)

    def __mul__(self, o):
        p = self._split(o)
        if p is None:
            return NotImplemented
        a, b = self.re, self.im
        c, d = p
        return SymComplex(a * c - b * d, a * d + b * c)

    __rmul__ = __mul__

    def __truediv__(self, o):
        p = self._split(o)
        if p is None:
            return NotImplemented
        c, d = p
        if type(d) is not SymReal and d == 0:
            return SymComplex(self.re / c, self.im / c)
        den = c * c + d * d
        a, b = self.re, self.im
        return SymComplex((a * c + b * d) / den, (b * c - a * d) / den)

    def __rtruediv__(self, o):
        p = self._split(o)
        if p is None:
            return NotImplemented
        return SymComplex(p[0], p[1]).__truediv__(self)

    def __neg__(self):
        return SymComplex(-self.re, -self.im)

    def __pos__(self):
        return self

    def exp(self):
        e = _fn("exp", self.re)
        return SymComplex(e * _fn("cos", self.im), e * _fn("sin", self.im))

    def conjugate(self):
        return SymComplex(self.re, -self.im)

    conj = conjugate

    def __eq__(self, o):
        p = self._split(o)
        if p is None:
            return False
        a = self.re == p[0]
        b = self.im == p[1]
        return a & b if (type(a) is SymBool or type(b) is SymBool) else (a and b)

    def __ne__(self, o):
        r = self.__eq__(o)
        return ~r if type(r) is SymBool else not r

    __hash__ = None

    def __repr__(self):
        return f"SymC({self.re!r}, {self.im!r})"

    def __deepcopy__(self, memo):
        return self


def _fn(name, x):
    """Apply a transcendental function to a symbolic or concrete real."""
    if type(x) is SymReal:
        s = z3.simplify(x.t)
        if name in ("exp", "cos") and z3.is_rational_value(s) and s.numerator_as_long() == 0:
            return SymReal(z3.RealVal(1))
        if name in ("sin", "erf") and z3.is_rational_value(s) and s.numerator_as_long() == 0:
            return SymReal(z3.RealVal(0))
        return SymReal(UF[name](z3.simplify(x.t, som=True)))
    if type(x) is SymComplex:
        if name == "exp":
            return x.exp()
        if name == "erf":
            # complex error function: a pair of uninterpreted functions of (re, im)
            re = x.re if type(x.re) is SymReal else sym_const(x.re)
            im = x.im if type(x.im) is SymReal else sym_const(x.im)
            ims = z3.simplify(im.t)
            if z3.is_rational_value(ims) and ims.numerator_as_long() == 0:
                return _fn("erf", re)
            a, b = z3.simplify(re.t, som=True), z3.simplify(im.t, som=True)
            return SymComplex(SymReal(UF["cerf_re"](a, b)), SymReal(UF["cerf_im"](a, b)))
        raise EngineError(f"{name} of a symbolic complex")
    if iscomplex(x):
        import cmath

        if name == "erf":
            from scipy import special as _sp

            return complex(_sp.erf(complex(x)))
        return getattr(cmath, name)(complex(x))
    from scipy import special

    table = {
        "exp": math.exp,
        "log": math.log,
        "sqrt": math.sqrt,
        "cos": math.cos,
        "sin": math.sin,
        "erf": math.erf,
        "erfcx": lambda v: float(special.erfcx(v)),
    }
    return table[name](float(x))


# ----------------------------------------------------------------------------- SArr
def _unwrap(a):
    if isinstance(a, SArr):
        return a.view(np.ndarray)
    if isinstance(a, (list, tuple)):
        return type(a)(_unwrap(x) for x in a)
    if isinstance(a, dict):
        return {k: _unwrap(v) for k, v in a.items()}
    return a


def _wrap(r):
    if isinstance(r, np.ndarray) and r.dtype == object and not isinstance(r, SArr):
        return r.view(SArr)
    if isinstance(r, tuple):
        return tuple(_wrap(x) for x in r)
    if isinstance(r, list):
        return [_wrap(x) for x in r]
    return r


_ELEMENTWISE = {
    np.exp: "exp",
    np.log: "log",
    np.sqrt: "sqrt",
    np.cos: "cos",
    np.sin: "sin",
}


def elementwise(name, a):
    """Apply a transcendental function element-wise to scalars or (object) arrays."""
    if isinstance(a, np.ndarray):
        out = np.empty(a.shape, dtype=object)
        flat_in = a.reshape(-1)
        flat_out = out.reshape(-1)
        for i in range(flat_in.size):
            flat_out[i] = _fn(name, flat_in[i])
        return out.view(SArr)
    return _fn(name, a)


class SArr(np.ndarray):
    """object-dtype ndarray holding symbolic scalars; behaves like numpy wherever it can."""

    def __array_finalize__(self, obj):
        pass

    def __array_ufunc__(self, ufunc, method, *inputs, out=None, **kwargs):
        ins = tuple(_unwrap(i) for i in inputs)
        if method == "__call__" and ufunc in _ELEMENTWISE and out is None:
            return elementwise(_ELEMENTWISE[ufunc], np.asarray(ins[0], dtype=object))
        if ufunc is np.absolute and method == "__call__" and out is None:
            a = np.asarray(ins[0], dtype=object)
            res = np.empty(a.shape, dtype=object)
            for idx in np.ndindex(a.shape):
                res[idx] = abs(a[idx])
            return res.view(SArr)
        if ufunc in (np.isinf, np.isnan) and method == "__call__":
            a = np.asarray(ins[0], dtype=object)
            res = np.zeros(a.shape, dtype=bool)
            for idx in np.ndindex(a.shape):
                v = a[idx]
                if not is_sym(v):
                    res[idx] = bool(ufunc(v))
            return res
        if ufunc is np.isfinite and method == "__call__":
            a = np.asarray(ins[0], dtype=object)
            res = np.ones(a.shape, dtype=bool)
            for idx in np.ndindex(a.shape):
                v = a[idx]
                if not is_sym(v):
                    res[idx] = bool(np.isfinite(v))
            return res
        if out is not None:
            kwargs["out"] = tuple(_unwrap(o) for o in out)
        # promote concrete float inputs so that results stay object arrays
        ins = tuple(
            i.astype(object) if isinstance(i, np.ndarray) and i.dtype != object and i.dtype.kind in "fc" else i
            for i in ins
        )
        r = getattr(ufunc, method)(*ins, **kwargs)
        if out is not None:
            return out[0] if len(out) == 1 else out
        return _wrap(r)

    def __array_function__(self, func, types, args, kwargs):
        r = func(*_unwrap(args), **_unwrap(kwargs))
        return _wrap(r)

    @property
    def real(self):
        out = np.empty(self.shape, dtype=object)
        for idx in np.ndindex(self.shape):
            v = self[idx]
            out[idx] = v.real if is_sym(v) or iscomplex(v) else v
        return out.view(SArr)

    @property
    def imag(self):
        out = np.empty(self.shape, dtype=object)
        for idx in np.ndindex(self.shape):
            v = self[idx]
            out[idx] = v.imag if is_sym(v) or iscomplex(v) else 0.0
        return out.view(SArr)

    def __deepcopy__(self, memo):
        return self.copy()


def sarr(a) -> SArr:
    """Wrap anything array-like as an SArr (object dtype)."""
    r = np.asarray(a, dtype=object) if not (isinstance(a, np.ndarray) and a.dtype == object) else a
    return r.view(SArr)


def has_sym(a) -> bool:
    if is_sym(a):
        return True
    if isinstance(a, np.ndarray):
        if a.dtype != object:
            return False
        return any(is_sym(v) for v in a.reshape(-1))
    if isinstance(a, (list, tuple)):
        return any(has_sym(v) for v in a)
    if type(a).__name__ == "Parameter" and hasattr(a, "value"):
        return is_sym(a.value)
    return False
