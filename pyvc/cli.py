"""./check <property> [--tier quick|thorough] [--replay file]"""
from __future__ import annotations

import argparse
import glob
import hashlib
import importlib
import inspect
import json
import multiprocessing as mp
import os
import re
import subprocess
import sys
import time
from collections import Counter, defaultdict
from pathlib import Path

VERIF = Path(__file__).resolve().parent.parent
sys.path.insert(0, str(VERIF))

from pyvc.axioms import AXIOM_TEXT  # noqa: E402
from pyvc.contract import Contract  # noqa: E402
from pyvc import runner  # noqa: E402

GENERAL_ASSUMPTIONS = [
    "machine arithmetic treated as mathematical: floats are real numbers (no rounding, overflow, NaN); float constants enter at their exact rational value",
    "symbolic reals are finite; +-inf is covered by case enumeration with the real np.inf passed in",
    "denominators that are symbolic are assumed non-zero on the path (counted as nonzero_assumptions)",
    "numpy object-dtype loops equal numpy float loops up to rounding; numba @jit functions are run through .py_func (nopython compilation, parallel scheduling dropped)",
    "PyVC itself (symbolic scalars, shims, path oracle) is trusted; guarded by concrete-symbolic agreement runs, canaries and the mutation self-test",
    "strength S = proved for every enumerated shape/configuration (listed in coverage.shapes), all real values; U = all sizes",
]


def load_contracts(prop: str):
    out = []
    for fn in sorted(glob.glob(str(VERIF / "contracts" / f"{prop.lower()}_*.py"))):
        modname = "contracts." + Path(fn).stem
        mod = importlib.import_module(modname)
        for name, obj in vars(mod).items():
            if inspect.isclass(obj) and issubclass(obj, Contract) and obj is not Contract and obj.__module__ == modname:
                if getattr(obj, "prop", None) == prop and not getattr(obj, "abstract", False):
                    out.append((modname, name, obj))
    return out


def load_known():
    p = VERIF / "known_findings.json"
    if not p.exists():
        return {"known": [], "fixed": []}
    return json.loads(p.read_text())


def is_known(viol, known):
    for k in known.get("known", []):
        if k["property"] != viol["property"]:
            continue
        if k["obligation"] != viol["obligation"]:
            continue
        pat = k.get("case_regex")
        if pat is None or re.search(pat, viol["case"] or ""):
            return k
    return None


def repo_state():
    try:
        head = subprocess.run(["git", "-C", "/repo", "rev-parse", "HEAD"], capture_output=True, text=True).stdout.strip()
        dirty = subprocess.run(["git", "-C", "/repo", "status", "--porcelain"], capture_output=True, text=True).stdout.strip()
        return head, bool(dirty)
    except Exception:
        return "unknown", False


def main(argv=None):
    ap = argparse.ArgumentParser()
    ap.add_argument("prop")
    ap.add_argument("--tier", default=os.environ.get("VERIF_TIER", "quick"), choices=["quick", "thorough"])
    ap.add_argument("--replay", default=None)
    ap.add_argument("--jobs", type=int, default=int(os.environ.get("PYVC_JOBS", "0")) or min(16, os.cpu_count() or 4))
    ap.add_argument("--only", default=None, help="regex on contract names (development)")
    ap.add_argument("--no-evidence", action="store_true")
    ap.add_argument("-v", "--verbose", action="store_true")
    args = ap.parse_args(argv)
    prop = args.prop.upper()
    seed = int(os.environ.get("VERIF_SEED", "0") or 0)

    if args.replay:
        return do_replay(prop, args.replay)

    t0 = time.time()
    os.environ.setdefault("PYTHONDONTWRITEBYTECODE", "1")
    contracts = load_contracts(prop)
    if args.only:
        contracts = [c for c in contracts if re.search(args.only, c[1])]
    if not contracts:
        print(f"no contracts for {prop}")
        return 3
    jobs = []
    static_results = []
    bounded_results = []
    meta = {}
    for modname, clsname, cls in contracts:
        inst = cls()
        meta[inst.name] = inst
        for case in inst.cases(args.tier):
            jobs.append((modname, clsname, case, args.tier, seed))
    # lemma files are handed to `lean` right away; their verdicts are collected after the solver jobs
    from pyvc import lean as _lean

    for inst in meta.values():
        for path in getattr(inst, "lemma_files", ()):
            _lean.prefetch(path)

    results = []
    if jobs:
        ctx = mp.get_context("spawn")  # not fork: z3 timer threads do not survive a fork (time-outs would never fire)
        nproc = max(1, min(args.jobs, len(jobs)))
        if nproc == 1:
            results = [runner.run_job(j) for j in jobs]
        else:
            # when violations have been reproduced and the run has become slow, stop exploring further jobs
            stop_after = float(os.environ.get("PYVC_STOP_AFTER_S", "240" if args.tier == "quick" else "1800"))
            with ctx.Pool(nproc, maxtasksperchild=50) as pool:
                for r in pool.imap_unordered(runner.run_job, jobs, chunksize=1):
                    results.append(r)
                    if time.time() - t0 > stop_after and any(x["violations"] for x in results):
                        stopped_early = len(jobs) - len(results)
                        pool.terminate()
                        print(f"stopping early: violations found, {stopped_early} of {len(jobs)} jobs not run", flush=True)
                        break
                    if args.verbose:
                        print(f"  job {r.get('name')}[{r.get('case')}] {r['status']} paths={r['paths']} obl={len(r['obligations'])} {r.get('wall_s')}s", flush=True)
    # static (structural) obligations and bounded stand-ins run in the parent
    for inst in meta.values():
        if hasattr(inst, "static_obligations"):
            for r in inst.static_obligations(args.tier):
                static_results.append(dict(r, contract=inst.name, prop=inst.prop))
        if hasattr(inst, "bounded_checks"):
            try:
                for r in inst.bounded_checks(args.tier, seed):
                    bounded_results.append(dict(r, contract=inst.name, prop=inst.prop))
            except Exception as e:  # a crashing stand-in is a checker crash (exit 3), never a verdict
                import traceback

                print(f"CRASH bounded stand-in of {inst.name}: {type(e).__name__}: {e}\n{traceback.format_exc(limit=6)}")
                return 3

    wall = time.time() - t0
    return report(prop, args, seed, meta, results, static_results, bounded_results, wall)


def report(prop, args, seed, meta, results, static_results, bounded_results, wall):
    known = load_known()
    # engine self-checks (executor versus CPython) are neither obligations nor verdicts: a failure is a checker crash
    engine_checks = [s for s in static_results if s.get("engine")]
    static_results = [s for s in static_results if not s.get("engine")]
    engine_failed = [s for s in engine_checks if not s["ok"]]
    crashes = [r for r in results if r["status"] == "crash"]
    undecided = [r for r in results if r["status"] == "undecided"]
    agreement_failed = [(r, f) for r in results for f in r["agreement"]["failed"]]
    obligations = [o for r in results for o in r["obligations"] if o["status"] != "skipped"]
    n_obl = len(obligations) + len(static_results)
    proved = [o for o in obligations if o["status"] == "proved"]
    unknown = [o for o in obligations if o["status"] == "unknown"]
    refuted = [o for o in obligations if o["status"] == "refuted"]
    static_failed = [s for s in static_results if not s["ok"] and not s.get("undecided")]
    static_undecided = [s for s in static_results if not s["ok"] and s.get("undecided")]
    bounded_failed = [b for b in bounded_results if not b["ok"]]
    by_backend = Counter(o["backend"] for o in proved)
    by_backend["structural"] = 0
    for s in static_results:
        if s["ok"]:
            by_backend[s.get("backend", "structural")] += 1
    by_strength = Counter(o["strength"] for o in proved)
    for s in static_results:
        if s["ok"]:
            by_strength[s.get("strength", "U")] += 1
    solver_time = sum(o["time_s"] for o in obligations) + sum(s.get("time_s", 0.0) for s in static_results)
    max_q = max([o["time_s"] for o in obligations], default=0.0)
    violations_out = []
    known_lines = []
    rep_dir = VERIF / "replays" / prop
    if rep_dir.exists():
        for old in rep_dir.glob("*.json"):
            old.unlink()
    seen_viol = set()
    suppressed = Counter()

    def emit(viol):
        k = is_known(viol, known)
        key = viol["obligation"]  # one VIOLATION line (and replay file) per obligation: first failing case
        if k is not None:
            line = f"KNOWN-FINDING: property={prop} {k['what']} [{viol['obligation']} case={viol.get('case')}]"
            if line not in known_lines:
                known_lines.append(line)
            return
        if key in seen_viol:
            suppressed[key] += 1
            return
        seen_viol.add(key)
        rep_dir.mkdir(parents=True, exist_ok=True)
        h = hashlib.sha1(f"{viol['obligation']}|{viol.get('case')}".encode()).hexdigest()[:10]
        safe = re.sub(r"[^A-Za-z0-9_.-]", "_", viol["obligation"])[:80]
        fn = rep_dir / f"{safe}-{h}.json"
        viol = dict(viol, tier=args.tier, seed=seed, repo=repo_state()[0])
        fn.write_text(json.dumps(viol, indent=1, default=str))
        rel = fn.relative_to(VERIF)
        suffix = "" if viol.get("reproduced") else " no-failing-input-found"
        violations_out.append(f"VIOLATION property={prop} replay={rel}{suffix}")

    # reproduced counter-examples first, so that the replay file of an obligation carries a failing input
    allv = [v for r in results for v in r["violations"]]
    for v in sorted(allv, key=lambda v: (not v.get("reproduced"), v["obligation"], str(v.get("case")))):
        emit(v)
    for s in static_failed:
        emit(
            {
                "property": prop,
                "obligation": f"{prop}.{s['contract']}.{s['name']}",
                "case": s.get("case", ""),
                "function": s.get("function", ""),
                "solver": "structural check failed",
                "reproduced": bool(s.get("witness")),
                "native": s.get("witness"),
                "detail": s.get("detail"),
            }
        )
    for b in bounded_failed:
        emit(
            {
                "property": prop,
                "obligation": f"{prop}.{b['contract']}.{b['name']}",
                "case": b.get("case", ""),
                "function": b.get("function", ""),
                "solver": "bounded run-time contract check failed",
                "reproduced": True,
                "native": b.get("witness"),
                "detail": b.get("detail"),
                "kind": "bounded",
            }
        )

    # ---- exit code
    code = 0
    if violations_out:
        code = 1
    if crashes or agreement_failed or engine_failed:
        code = 3 if code == 0 else code
    elif (undecided or unknown or static_undecided) and code == 0:
        code = 2
    if n_obl == 0 and code == 0:
        code = 3

    # obligations refuted only by listed known findings are reported separately, not as open obligations
    n_known_refuted = 0
    for o in refuted:
        v = o.get("replay")
        if v is not None and is_known(v, known) is not None:
            n_known_refuted += 1
    n_obl -= n_known_refuted

    # ---- evidence
    functions = sorted({f for m in meta.values() for f in ([m.target] if m.target else []) + list(m.functions)})
    trusted = sorted({t for m in meta.values() for t in m.trusted})
    drops = sorted({d for m in meta.values() for d in m.drops})
    shapes = defaultdict(list)
    for r in results:
        shapes[r.get("name", "?")].append(r.get("case"))
    samples = [s for r in results for s in r["samples"]][:4]
    if not samples and static_results:
        samples = [{"obligation": f"{prop}.{s['contract']}.{s['name']}", "verdict": "holds (structural)", "detail": s.get("detail", "")} for s in static_results[:3]]
    head, dirty = repo_state()
    ev = {
        "property_id": prop,
        "tier": args.tier,
        "seed": seed,
        "level": "proof",
        "coverage": {
            "obligations": n_obl,
            "discharged": len(proved) + sum(1 for s in static_results if s["ok"]),
            "checker_cmd": f"./check {prop} --tier {args.tier}",
            "trusted_base": trusted + [f"axiom: {a}" for a in AXIOM_TEXT if any("UF" in t or "axiom" in t.lower() for t in trusted)],
            "functions_under_contract": functions,
            "contracts": sorted(meta.keys()),
            "by_backend": dict(by_backend),
            "by_strength": dict(by_strength),
            "refuted": len(refuted) + len(static_failed) - n_known_refuted,
            "refuted_by_known_findings": n_known_refuted,
            "unknown": len(unknown) + len(static_undecided),
            "paths": sum(r["paths"] for r in results),
            "jobs": len(results),
            "shapes": {k: v[:60] for k, v in shapes.items()},
            "solver_time_s": round(solver_time, 3),
            "max_query_s": round(max_q, 3),
            "canaries_refuted": sum(r["canaries_refuted"] for r in results),
            "reachability_checks": sum(r["reach_checked"] for r in results),
            "agreement_runs": sum(r["agreement"]["runs"] for r in results),
            "agreement_failures": len(agreement_failed) + len(engine_failed),
            "executor_vs_cpython_crosschecks": {"functions": len(engine_checks), "failed": len(engine_failed)},
            "nonzero_assumptions": sum(r["nonzero_assumptions"] for r in results),
            "infeasible_paths_dropped": sum(r.get("infeasible_paths_dropped", 0) for r in results),
            "reachability_unknown": sum(r.get("reach_unknown", 0) for r in results),
            "rebound_globals": sorted({x for r in results for x in r["rebound"]}),
            "extraction_drops": drops,
            "bounded_standins": {"checks": len(bounded_results), "failed": len(bounded_failed), "note": "bounded run-time contract evaluations; never counted as proved"},
            "samples": samples,
            "known_findings_reported": known_lines,
            "violating_cases_not_listed_separately": dict(suppressed),
            "not_decided": sorted({n for m in meta.values() for n in getattr(m, "not_decided", ())}),
            "repo_head": head,
            "repo_dirty": dirty,
            "exhaustive": False,
        },
        "assumptions": GENERAL_ASSUMPTIONS + trusted + [f"extraction drop: {d}" for d in drops],
        "wall_s": round(wall, 2),
        "violations": len(violations_out),
    }
    if not args.no_evidence:
        (VERIF / "evidence").mkdir(exist_ok=True)
        (VERIF / "evidence" / f"{prop}.json").write_text(json.dumps(ev, indent=1, default=str))

    # ---- output
    print(
        f"{prop} [{args.tier}] contracts={len(meta)} jobs={len(results)} paths={ev['coverage']['paths']} "
        f"obligations={n_obl} discharged={ev['coverage']['discharged']} refuted={ev['coverage']['refuted']} unknown={len(unknown) + len(static_undecided)} "
        f"backends={dict(by_backend)} strength={dict(by_strength)} agreement={ev['coverage']['agreement_runs']} "
        f"bounded={len(bounded_results)} wall={wall:.1f}s"
    )
    for r in crashes:
        print(f"CRASH {r.get('contract')}[{r.get('case')}]: {r['error']}")
    for r in undecided:
        print(f"UNDECIDED {r.get('contract')}[{r.get('case')}]: {r['error']}")
    for o in unknown[:20]:
        print(f"UNDECIDED obligation {o['name']}[{o['case']}] path={o['path']}: {o['reason']}")
    for s in static_undecided:
        print(f"UNDECIDED lemma {prop}.{s['contract']}.{s['name']}: {s.get('detail')}")
    for s_ in engine_failed:
        print(f"ENGINE-DISAGREEMENT {prop}.{s_['contract']} {s_.get('function')}: {s_.get('detail')}")
    for r, f in agreement_failed[:10]:
        print(f"ENGINE-DISAGREEMENT {r.get('contract')}[{r.get('case')}]: {f['detail']} env={f.get('env')}")
    for line in known_lines:
        print(line)
    for line in violations_out:
        print(line)
    print(f"exit {code}")
    return code


def do_replay(prop, path):
    p = Path(path)
    if not p.is_absolute():
        p = VERIF / p
    viol = json.loads(p.read_text())
    print(f"replay of {viol['obligation']} case={viol.get('case')}")
    if not viol.get("env"):
        print("no failing input recorded (no-failing-input-found); solver output:")
        print(viol.get("solver"))
        print((viol.get("smt2") or viol.get("detail") or "")[:2000])
        return 1
    # find the contract and case
    for modname, clsname, cls in load_contracts(prop):
        inst = cls()
        if f"{prop}.{inst.name}." in viol["obligation"] + ".":
            for tier in ("quick", "thorough"):
                for case in inst.cases(tier):
                    if inst.case_id(case) == viol["case"]:
                        r, detail, _ = runner.native_replay(inst, case, viol["env"])
                        print(json.dumps(detail, indent=1, default=str)[:3000])
                        failed = [n for n, ok in (r or []) if ok is False]
                        print("failed obligations on the real code:", failed)
                        if failed:
                            print(f"VIOLATION property={prop} replay={path}")
                            return 1
                        print("not reproduced on this tree")
                        return 0
    print("contract/case not found")
    return 3


if __name__ == "__main__":
    sys.exit(main())
