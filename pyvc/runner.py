"""Job runner: explore -> obligations -> discharge -> native replay -> agreement -> evidence."""
from __future__ import annotations

import importlib
import json
import math
import multiprocessing as mp
import os
import random
import sys
import time
import traceback
from fractions import Fraction
from pathlib import Path

import numpy as np
import z3

from . import sym
from .axioms import AXIOM_TEXT
from .contract import ConcFactory, Contract, L, PreconditionFailed, Raised, SymFactory
from .explore import Budget, Path as SPath, PathCtx, Verdict, discharge, eval_term, explore, satisfiable
from .shim import patched
from .sym import isfloat, iscomplex, EngineError, PathAbort, SArr, SymBool, SymComplex, SymReal, is_sym

VERIF = Path(__file__).resolve().parent.parent


class SpecUndetermined(Exception):
    """The path condition does not decide a guard the specification depends on."""

    def __init__(self, cond):
        super().__init__(f"path does not decide spec guard {cond}")
        self.cond = cond


class PostCtx:
    """Context for evaluating ``ensures``: no forking allowed; spec-side divisions recorded."""

    def __init__(self, pc=()):
        self.extra = []
        self.ghost = {}
        self.pc = list(pc)
        self._solver = None

    def decide(self, cond):
        """Truth value of a spec guard as decided by the real code on this path."""
        t = sym.as_bool_term(cond)
        c = z3.simplify(t)
        if z3.is_true(c):
            return True
        if z3.is_false(c):
            return False
        # the real code usually forked on the very same condition: look it up in the path condition first
        for h in self.pc:
            if h.eq(c):
                return True
            if z3.is_not(h) and h.arg(0).eq(c):
                return False
            if z3.is_not(c) and c.arg(0).eq(h):
                return False
        if self._solver is None:
            self._solver = z3.Solver()
            self._solver.set("timeout", 20000)
            for h in self.pc:
                self._solver.add(h)
        r1 = self._solver.check(z3.Not(t))
        if r1 == z3.unsat:
            return True
        r2 = self._solver.check(t)
        if r2 == z3.unsat:
            return False
        if r1 == z3.unknown or r2 == z3.unknown:
            # the solver could not tell: undecided, never a verdict
            raise EngineError(f"spec guard could not be decided on this path (solver unknown): {c}")
        raise SpecUndetermined(t)

    def branch(self, cond):
        c = z3.simplify(cond)
        if z3.is_true(c):
            return True
        if z3.is_false(c):
            return False
        raise EngineError("ensures() forked on a symbolic condition; use the L helpers")

    def assume_nonzero(self, den):
        s = z3.simplify(den)
        if z3.is_rational_value(s):
            if s.numerator_as_long() == 0:
                raise ZeroDivisionError("spec division by zero")
            return
        self.extra.append(s != 0)

    def assume(self, cond, note=None):
        self.extra.append(sym.as_bool_term(cond))


# ----------------------------------------------------------------------------- helpers
def _jsonable(x, depth=0):
    if depth > 6:
        return repr(x)
    if is_sym(x):
        return repr(x)
    if isinstance(x, (str, int, bool)) or x is None:
        return x
    if isfloat(x):
        f = float(x)
        return f if math.isfinite(f) else repr(f)
    if isinstance(x, (np.integer,)):
        return int(x)
    if isinstance(x, np.ndarray):
        return _jsonable(x.tolist(), depth + 1)
    if isinstance(x, (list, tuple)):
        return [_jsonable(v, depth + 1) for v in x]
    if isinstance(x, dict):
        return {str(k): _jsonable(v, depth + 1) for k, v in x.items()}
    if isinstance(x, slice):
        return f"slice({_jsonable(x.start)}, {_jsonable(x.stop)}, {_jsonable(x.step)})"
    if isinstance(x, Raised):
        return repr(x)
    return repr(x)[:300]


def _model_env(model, symbols):
    env = {}
    for name, s in symbols.items():
        if type(s) is SymReal:
            v = model.eval(s.t, model_completion=True)
            if z3.is_rational_value(v):
                env[name] = str(Fraction(v.numerator_as_long(), v.denominator_as_long()))
            elif z3.is_algebraic_value(v):
                a = v.approx(30)
                env[name] = str(Fraction(a.numerator_as_long(), a.denominator_as_long()))
            else:
                env[name] = "0"
        elif type(s) is SymBool:
            env[name] = bool(z3.is_true(model.eval(s.t, model_completion=True)))
    return env


def _env_floats(env):
    out = {}
    for k, v in env.items():
        out[k] = float(Fraction(v)) if isinstance(v, str) else v
    return out


# ----------------------------------------------------------------------------- one job
def _symbolic_run(contract: Contract, case, ctx):
    S = SymFactory(ctx)
    try:
        inp = contract.build(S, case)
        stubs = contract.stubs_for(S, case, inp)
    except (EngineError, PathAbort, RecursionError, Budget):
        raise
    except Exception as e:
        raise EngineError(f"contract build() failed: {type(e).__name__}: {e}\n{traceback.format_exc(limit=8)}") from e
    ctx.ghost["_n_pre"] = len(ctx.pc)
    rebound = ctx.ghost.setdefault("_rebound", set())
    with patched(contract.modules, extra=stubs, record=rebound):
        try:
            out = contract.call(S, case, inp)
        except (EngineError, PathAbort, RecursionError, Budget):
            raise
        except TypeError as e:
            # a symbolic scalar reached code that needs a machine number: outside the engine, not an outcome
            msg = str(e)
            if "SymReal" in msg or "SymBool" in msg or "SymComplex" in msg or "unhashable type: 'float'" in msg:
                raise EngineError(f"silent concretisation: {msg}\n{traceback.format_exc(limit=8)}") from e
            out = Raised(e)
            ctx.ghost["_tb"] = traceback.format_exc(limit=6)
        except Exception as e:
            out = Raised(e)
            ctx.ghost["_tb"] = traceback.format_exc(limit=6)
    return S, inp, out


def native_replay(contract: Contract, case, env, rng=None):
    """Run the unpatched real function on concrete inputs; return [(name, ok, detail)]."""
    S = ConcFactory(_env_floats(env), rng=rng, default=0.0)
    try:
        inp = contract.build(S, case)
    except PreconditionFailed as e:
        return None, f"precondition not met by the concrete input: {e}", S
    try:
        out = contract.call_native(S, case, inp) if hasattr(contract, "call_native") else contract.call(S, case, inp)
    except (EngineError,):
        raise
    except PreconditionFailed as e:
        return None, f"precondition not met by the concrete input: {e}", S
    except Exception as e:
        out = Raised(e)
    if isinstance(out, Raised) and isinstance(out.exc, PreconditionFailed):
        # a precondition stated inside a stub (e.g. on the trial points of the optimiser stub)
        return None, f"precondition not met by the concrete input: {out.exc}", S
    res = []
    for name, cond in contract.ensures(S, case, inp, out):
        try:
            ok = bool(cond)
        except Exception:
            # the postcondition cannot be evaluated natively (e.g. it still contains a symbolic term): that is *no* verdict;
            # `None` is neither a failure (`ok is False`) nor a success
            ok = None
        res.append((name, ok))
    return res, {"inputs": _jsonable(inp), "outcome": _jsonable(contract.observe(out))}, S


def agree(symv, concv, env, cache, where="out"):
    """Compare a symbolic outcome with a native one under the assignment ``env``."""
    if isinstance(symv, Raised) or isinstance(concv, Raised):
        if isinstance(symv, Raised) and isinstance(concv, Raised):
            return (type(symv.exc) is type(concv.exc)), f"{where}: {symv!r} vs {concv!r}"
        return False, f"{where}: {symv!r} vs {concv!r}"
    if type(symv) is SymReal:
        a = eval_term(symv.t, env, cache)
        b = float(concv)
        ok = a == b or abs(a - b) <= 1e-7 * max(1.0, abs(a), abs(b)) or (math.isnan(a) and math.isnan(b))
        return ok, f"{where}: sym {a!r} native {b!r}"
    if type(symv) is SymComplex:
        ok1, d1 = agree(symv.re, complex(concv).real, env, cache, where + ".re")
        ok2, d2 = agree(symv.im, complex(concv).imag, env, cache, where + ".im")
        return ok1 and ok2, d1 + "; " + d2
    if type(symv) is SymBool:
        a = bool(eval_term(symv.t, env, cache))
        return a == bool(concv), f"{where}: sym {a} native {concv}"
    if isinstance(symv, np.ndarray) or isinstance(concv, np.ndarray):
        a = np.asarray(symv, dtype=object)
        b = np.asarray(concv)
        if a.shape != b.shape:
            return False, f"{where}: shape {a.shape} vs {b.shape}"
        for idx in np.ndindex(a.shape):
            ok, d = agree(a[idx], b[idx], env, cache, f"{where}{list(idx)}")
            if not ok:
                return ok, d
        return True, ""
    if isinstance(symv, (list, tuple)):
        if not isinstance(concv, (list, tuple)) or len(symv) != len(concv):
            return False, f"{where}: length/type mismatch {symv!r} vs {concv!r}"
        for i, (x, y) in enumerate(zip(symv, concv)):
            ok, d = agree(x, y, env, cache, f"{where}[{i}]")
            if not ok:
                return ok, d
        return True, ""
    if isinstance(symv, dict):
        if not isinstance(concv, dict) or list(symv.keys()) != list(concv.keys()):
            return False, f"{where}: dict keys differ"
        for k in symv:
            ok, d = agree(symv[k], concv[k], env, cache, f"{where}[{k!r}]")
            if not ok:
                return ok, d
        return True, ""
    if isinstance(symv, slice):
        return agree((symv.start, symv.stop, symv.step), (concv.start, concv.stop, concv.step), env, cache, where)
    if isfloat(symv) or isfloat(concv):
        try:
            a, b = float(symv), float(concv)
        except Exception:
            return False, f"{where}: {symv!r} vs {concv!r}"
        ok = a == b or abs(a - b) <= 1e-7 * max(1.0, abs(a), abs(b)) or (math.isnan(a) and math.isnan(b))
        return ok, f"{where}: {a!r} vs {b!r}"
    try:
        ok = bool(symv == concv)
    except Exception:
        ok = symv is concv
    return ok, f"{where}: {symv!r} vs {concv!r}"


def _const_names(terms):
    seen, out, todo = set(), set(), list(terms)
    while todo:
        t = todo.pop()
        if t.get_id() in seen:
            continue
        seen.add(t.get_id())
        if z3.is_const(t) and t.decl().kind() == z3.Z3_OP_UNINTERPRETED:
            out.add(t.decl().name())
        todo.extend(t.children())
    return out


def sample_env(symbols, pre, rng, tries=30):
    """A concrete assignment of the input symbols that satisfies the preconditions."""
    in_pre = _const_names(pre)
    # stub-introduced symbols ("!") are sampled only when a precondition constrains them
    names = [n for n, s in symbols.items() if type(s) is SymReal and ("!" not in n or n in in_pre)]
    bools = [n for n, s in symbols.items() if type(s) is SymBool]
    for _ in range(tries):
        env = {n: round(rng.uniform(-4, 4), 2) for n in names}
        env.update({n: rng.random() < 0.5 for n in bools})
        try:
            if all(eval_term(c, env) for c in pre):
                return env
        except Exception:
            break
    # fall back to the solver, randomised symbol by symbol
    s = z3.Solver()
    s.set("timeout", 3000)
    for c in pre:
        s.add(c)
    if s.check() != z3.sat:
        return None
    order = names[:]
    rng.shuffle(order)
    for n in order[:40]:
        v = Fraction(round(rng.uniform(-4, 4), 2)).limit_denominator(100)
        s.push()
        s.add(symbols[n].t == z3.RealVal(v))
        if s.check() != z3.sat:
            s.pop()
    if s.check() != z3.sat:
        return None
    return _env_floats(_model_env(s.model(), {n: symbols[n] for n in names + bools}))


def run_job(job):
    """Worker entry: one (contract, case)."""
    modname, clsname, case, tier, seed = job
    t_start = time.time()
    cpu_start = time.process_time()  # budgets are counted in CPU seconds of this worker: a loaded machine must not turn a job undecided
    res = {
        "contract": f"{modname}.{clsname}",
        "case": None,
        "obligations": [],
        "paths": 0,
        "status": "ok",
        "error": None,
        "agreement": {"runs": 0, "failed": []},
        "canaries_refuted": 0,
        "reach_checked": 0,
        "violations": [],
        "rebound": [],
        "nonzero_assumptions": 0,
        "feas_unknown": 0,
        "samples": [],
    }
    try:
        mod = importlib.import_module(modname)
        contract: Contract = getattr(mod, clsname)()
        cid = contract.case_id(case)
        res["case"] = cid
        res["prop"] = contract.prop
        res["name"] = contract.name
        timeout = contract.timeout_s[tier]
        rng = random.Random(f"{seed}:{contract.name}:{cid}")
        paths = explore(lambda ctx: _symbolic_run(contract, case, ctx), max_paths=contract.max_paths[tier])
        res["paths"] = len(paths)
        if not paths:
            res["status"] = "crash"
            res["error"] = "no feasible path (contradictory precondition)"
            return res
        rebound = set()
        n_obl = 0
        default_strength = case.get("strength", contract.strength)
        job_budget = contract.job_budget_s[tier] if hasattr(contract, "job_budget_s") else {"quick": 150.0, "thorough": 900.0}[tier]
        refuted_names = set()
        for pi, p in enumerate(paths):
            S, inp, out = p.value
            rebound |= p.ghost.get("_rebound", set())
            if time.process_time() - cpu_start > job_budget:
                res["budget_exhausted"] = True
                if res["status"] == "ok" and not res["violations"]:
                    res["status"] = "undecided"
                    res["error"] = f"job CPU budget of {job_budget:.0f}s exhausted after {pi} of {len(paths)} paths"
                break
            res["nonzero_assumptions"] += len(p.nonzero)
            post = PostCtx(p.pc)
            sym.CUR = post
            try:
                obligations = list(contract.ensures(S, case, inp, out))
            except SpecUndetermined as su:
                # the code's behaviour on this path does not depend on a condition the property
                # depends on: refuted; both sides of the guard are replayed natively
                full = f"{contract.prop}.{contract.name}.path_decides_spec_guard"
                for side in (su.cond, z3.Not(su.cond)):
                    s2 = z3.Solver()
                    s2.set("timeout", 5000)
                    for h in p.pc:
                        s2.add(h)
                    s2.add(side)
                    if s2.check() != z3.sat:
                        continue
                    v = Verdict(full, "refuted", "z3", 0.0, reason=str(su))
                    v.model = s2.model()
                    viol = _handle_refuted(contract, case, cid, S, p, pi, list(p.pc) + [side], None, v, "path_decides_spec_guard", full, rng, timeout)
                    res["violations"].append(viol)
                    res["obligations"].append({"name": full, "case": cid, "path": pi, "status": "refuted", "backend": "z3", "time_s": 0.0, "strength": default_strength, "reason": str(su), "replay": viol})
                    if viol["reproduced"]:
                        break
                n_obl += 1
                continue
            finally:
                sym.CUR = None
            hyps = list(p.pc) + post.extra
            # one incremental solver per path: hypotheses are asserted once
            psolver = z3.Solver()
            psolver.set("timeout", int(timeout * 1000))
            for h in hyps:
                psolver.add(h)
            # reachability / vacuity / canary in one query: the path (with the spec's side
            # conditions) must be satisfiable, i.e. `False` must not be provable from it
            path_model = None
            r = _quick_reach(S, hyps, rng)
            if r is not None:
                # a concrete assignment satisfies every hypothesis: turn it into a z3 model cheaply
                ps2 = z3.Solver()
                ps2.set("timeout", 5000)
                for h in hyps:
                    ps2.add(h)
                for n_, v_ in r.items():
                    sy = S.symbols.get(n_)
                    if type(sy) is SymReal:
                        ps2.add(sy.t == z3.RealVal(Fraction(v_).limit_denominator(10**6)))
                if ps2.check() == z3.sat:
                    path_model = ps2.model()
                r = z3.sat
            else:
                psolver.set("timeout", 8000)
                r = psolver.check()
                psolver.set("timeout", int(timeout * 1000))
                if r == z3.sat:
                    path_model = psolver.model()
            res["reach_checked"] += 1
            if r == z3.unsat:
                if len(p.pc) > p.ghost.get("_n_pre", 0):
                    # the path oracle over-approximates (a feasibility query that timed out counts as feasible):
                    # a path whose own condition is unsatisfiable is dropped; contradictory *preconditions* or
                    # contradictory spec side conditions still crash below
                    pre_only = satisfiable(p.pc[: p.ghost.get("_n_pre", 0)], timeout_s=10.0)
                    path_only = satisfiable(p.pc, timeout_s=20.0)
                    if pre_only != z3.unsat and path_only == z3.unsat:
                        res["infeasible_paths_dropped"] = res.get("infeasible_paths_dropped", 0) + 1
                        continue
                res["status"] = "crash"
                res["error"] = f"path {pi} of {contract.name}[{cid}] has contradictory hypotheses (vacuous; canary proved)"
                return res
            res["canaries_refuted"] += 1 if r == z3.sat else 0
            res["reach_unknown"] = res.get("reach_unknown", 0) + (1 if r == z3.unknown else 0)
            if not obligations:
                res["status"] = "crash"
                res["error"] = f"no obligation generated on path {pi} of {contract.name}[{cid}]"
                return res
            for item in obligations:
                if len(item) == 3:
                    oname, cond, strength = item
                else:
                    oname, cond = item
                    strength = default_strength
                n_obl += 1
                full = f"{contract.prop}.{contract.name}.{oname}"
                if full in refuted_names or (res["violations"] and time.process_time() - cpu_start > job_budget / 3):
                    # already refuted in this job (or the job is failing and has used a third of its budget):
                    # further instances are not re-decided, they are reported as skipped
                    res["obligations"].append({"name": full, "case": cid, "path": pi, "status": "skipped", "backend": "-", "time_s": 0.0, "strength": strength, "reason": "job already has a refuted obligation"})
                    continue
                if isinstance(cond, (bool, np.bool_)):
                    if cond:
                        v = Verdict(full, "proved", "z3-simplify", 0.0)
                    elif path_model is not None:
                        # concrete falsity on this path: any model of the path is a witness
                        v = Verdict(full, "refuted", "z3", 0.0)
                        v.model = path_model
                    else:
                        v = Verdict(full, "unknown", "z3", 0.0, reason="path model not found")
                else:
                    ct = sym.as_bool_term(cond)
                    terms = hyps + [ct]
                    ax = contract.axioms(S, case, terms)
                    v = _discharge_with_model(full, hyps, ct, timeout, ax, want_smt2=(len(res["samples"]) < 2), psolver=psolver)
                v.strength = strength
                v.path_index = pi
                entry = {
                    "name": full,
                    "case": cid,
                    "path": pi,
                    "status": v.status,
                    "backend": v.backend,
                    "time_s": round(v.time_s, 4),
                    "strength": strength,
                    "reason": v.reason,
                }
                if v.smt2 and len(res["samples"]) < 2 and v.status == "proved":
                    res["samples"].append({"obligation": f"{full}[{cid}]@path{pi}", "verdict": f"unsat ({v.backend})", "smt2": v.smt2[:3000]})
                if v.status == "unknown" and not isinstance(cond, (bool, np.bool_)) and getattr(contract, "native_refutation", False):
                    # the solvers could not decide: look for a failing input of exactly this obligation on the real
                    # code (sampled inputs satisfying the preconditions).  Found -> a violation with its input;
                    # not found -> still undecided (exit 2), never a violation.  Opt-in per contract
                    # (`native_refutation = True`): only where the native evaluation of the postcondition is
                    # numerically benign - a float artefact of the *specification* must never become a violation.
                    viol = _refute_natively(contract, case, cid, S, p, pi, v, oname, full, rng)
                    if viol is not None:
                        v.status = "refuted"
                        v.backend = "native-sampling"
                        entry["status"], entry["backend"] = "refuted", "native-sampling"
                        refuted_names.add(full)
                        entry["replay"] = viol
                        res["violations"].append(viol)
                        res["obligations"].append(entry)
                        continue
                if v.status == "refuted":
                    refuted_names.add(full)
                    viol = _handle_refuted(contract, case, cid, S, p, pi, hyps, ct if not isinstance(cond, (bool, np.bool_)) else None, v, oname, full, rng, timeout)
                    entry["replay"] = viol
                    res["violations"].append(viol)
                res["obligations"].append(entry)
        res["rebound"] = sorted(rebound)
        if res.get("infeasible_paths_dropped", 0) >= len(paths):
            res["status"] = "crash"
            res["error"] = "every explored path is infeasible (contradictory hypotheses)"
            return res
        if n_obl == 0:
            res["status"] = "crash"
            res["error"] = "zero obligations"
            return res
        # concrete-symbolic agreement
        if contract.agreement_runs and not any(v["reproduced"] for v in res["violations"]):
            _agreement(contract, case, paths, rng, res)
    except Budget as e:
        res["status"] = "undecided"
        res["error"] = f"path budget: {e}"
    except EngineError as e:
        res["status"] = "undecided"
        res["error"] = f"EngineError: {e}\n{traceback.format_exc(limit=8)}"
        # undecided symbolically: still evaluate the contract natively on seeded inputs (bounded stand-in);
        # a native failure is a violation with a failing input, a native pass leaves the job undecided
        try:
            _native_fallback(contract, case, res, rng)
        except Exception as e2:  # pragma: no cover
            res["error"] += f"\nnative fallback failed: {type(e2).__name__}: {e2}"
    except Exception as e:
        res["status"] = "crash"
        res["error"] = f"{type(e).__name__}: {e}\n{traceback.format_exc(limit=12)}"
    finally:
        sym.CUR = None
        res["wall_s"] = round(time.time() - t_start, 3)
    return res


def _native_fallback(contract, case, res, rng, tries=6):
    cid = contract.case_id(case)
    for k in range(tries):
        try:
            r, detail, CS = native_replay(contract, case, {}, rng=rng)
        except PreconditionFailed:
            continue
        if r is None:
            continue
        failed = [n for n, ok in r if ok is False]
        res.setdefault("native_fallback_runs", 0)
        res["native_fallback_runs"] += 1
        if failed:
            full = f"{contract.prop}.{contract.name}.{failed[0]}"
            res["violations"].append(
                {
                    "property": contract.prop,
                    "obligation": full,
                    "case": cid,
                    "function": contract.target,
                    "solver": "symbolic run undecided (engine limit); contract evaluated natively on a seeded input (bounded stand-in)",
                    "reproduced": True,
                    "env": {n: str(v) for n, v in CS.used.items()},
                    "native": detail,
                    "failed_natively": failed,
                    "attempts": [{"input": f"seeded#{k}", "failed_obligations": failed}],
                    "kind": "bounded",
                }
            )
            return


def _quick_reach(S, hyps, rng, tries=12):
    """Try random concrete assignments of the symbols against all hypotheses (numeric evaluation)."""
    names = [n for n, s_ in S.symbols.items() if type(s_) is SymReal]
    bools = [n for n, s_ in S.symbols.items() if type(s_) is SymBool]
    if len(names) > 400:
        return None
    for k in range(tries):
        lo, hi = ((0.1, 3.0) if k % 2 == 0 else (-3.0, 3.0))
        env = {n: round(rng.uniform(lo, hi), 3) for n in names}
        env.update({n: rng.random() < 0.5 for n in bools})
        try:
            if all(eval_term(h, env) for h in hyps):
                return {n: env[n] for n in names}
        except Exception:
            return None
    return None


def _discharge_with_model(name, hyps, goal, timeout, axioms, want_smt2=False, psolver=None, _depth=0):
    """Decide hyps ∧ axioms ⇒ goal.  z3 incrementally on the path solver, then a fresh z3, then cvc5."""
    t0 = time.time()
    g = z3.simplify(goal)
    if z3.is_true(g):
        return Verdict(name, "proved", "z3-simplify", time.time() - t0)
    smt2 = None
    is_conj = z3.is_and(goal) and goal.num_args() > 1 and _depth < 2
    from .explore import _has_div, prove_rational_identity

    if _depth == 0 and _has_div(goal):
        try:
            if prove_rational_identity(goal):
                return Verdict(name, "proved", "z3-simplify", time.time() - t0, reason="rational identity after clearing denominators")
        except Exception:
            pass
    if psolver is not None and not want_smt2:
        psolver.push()
        try:
            for a in axioms:
                psolver.add(a)
            psolver.add(z3.Not(goal))
            psolver.set("timeout", int((min(timeout, 3.0) if is_conj else timeout) * 1000))
            r = psolver.check()
            if r == z3.unsat:
                return Verdict(name, "proved", "z3", time.time() - t0)
            if r == z3.sat:
                v = Verdict(name, "refuted", "z3", time.time() - t0)
                v.model = psolver.model()
                # keep the script for the replay file
                v.smt2 = _script(hyps, axioms, goal)
                return v
        finally:
            psolver.pop()
    s = z3.Solver()
    whole_timeout = timeout if not (z3.is_and(goal) and goal.num_args() > 1 and _depth < 2) else min(timeout, 3.0)
    s.set("timeout", int(whole_timeout * 1000))
    for h in hyps:
        s.add(h)
    for a in axioms:
        s.add(a)
    s.add(z3.Not(goal))
    smt2 = s.to_smt2() if want_smt2 else None
    r = s.check()
    if r == z3.unsat:
        return Verdict(name, "proved", "z3", time.time() - t0, smt2=smt2)
    if r == z3.sat:
        v = Verdict(name, "refuted", "z3", time.time() - t0, smt2=smt2 or s.to_smt2())
        v.model = s.model()
        return v
    reason = s.reason_unknown()
    from .explore import run_cvc5

    # a conjunction that is too hard as a whole is discharged conjunct by conjunct (sound: all must hold)
    if z3.is_and(goal) and goal.num_args() > 1 and _depth < 2:
        parts = []
        for gi in goal.children():
            pv = _discharge_with_model(name, hyps, gi, timeout, axioms, psolver=None, _depth=_depth + 1)
            if pv.status != "proved":
                pv.time_s = time.time() - t0
                return pv
            parts.append(pv.backend)
        return Verdict(name, "proved", "cvc5" if "cvc5" in parts else "z3", time.time() - t0, smt2=smt2)
    script = s.to_smt2()
    res, err = run_cvc5(script, timeout)
    if res == "unsat":
        return Verdict(name, "proved", "cvc5", time.time() - t0, smt2=smt2)
    if res == "sat":
        v = Verdict(name, "refuted", "cvc5", time.time() - t0, smt2=script, reason="cvc5: sat (no model extracted)")
        v.model = None
        return v
    return Verdict(name, "unknown", "z3+cvc5", time.time() - t0, smt2=smt2, reason=f"z3: {reason}; cvc5: {err or 'unknown'}")


def _script(hyps, axioms, goal):
    s = z3.Solver()
    for h in hyps:
        s.add(h)
    for a in axioms:
        s.add(a)
    s.add(z3.Not(goal))
    return s.to_smt2()


def _handle_refuted(contract, case, cid, S, p, pi, hyps, goal, v, oname, full, rng, timeout):
    """Native replay of a counter-model (plus further models and seeded inputs)."""
    viol = {
        "property": contract.prop,
        "obligation": full,
        "case": cid,
        "path": pi,
        "function": contract.target,
        "solver": f"{v.backend}: sat",
        "reproduced": False,
        "attempts": [],
    }
    envs = []
    if v.model is not None:
        envs.append(("counter-model", _model_env(v.model, S.symbols)))
        # further models: block the values of the input symbols
        if goal is not None:
            s = z3.Solver()
            s.set("timeout", int(min(timeout, 10) * 1000))
            for h in hyps:
                s.add(h)
            for a in contract.axioms(S, case, hyps + [goal]):
                s.add(a)
            s.add(z3.Not(goal))
            reals = [x for n, x in S.symbols.items() if type(x) is SymReal and "!" not in n]
            m = v.model
            for k in range(6):
                block = [x.t != m.eval(x.t, model_completion=True) for x in reals[:12]]
                if not block:
                    break
                s.add(z3.Or(*block))
                if s.check() != z3.sat:
                    break
                m = s.model()
                envs.append((f"model#{k+2}", _model_env(m, S.symbols)))
    if envs and any(type(x) is SymBool for x in S.symbols.values()):
        # facts the code never consulted are absent from the model: also try them as True
        envs.append(("counter-model+unconsulted-facts-true", dict(envs[0][1], __default_bool__=True)))
    pre = p.pc[: p.ghost.get("_n_pre", 0)]
    for k in range(16):
        e = sample_env(S.symbols, pre, rng, tries=5)
        if e is not None:
            envs.append((f"seeded#{k}", {n: str(Fraction(val).limit_denominator(10**6)) if isfloat(val) else val for n, val in e.items()}))
    for label, env in envs:
        try:
            r, detail, CS = native_replay(contract, case, env)
        except Exception as e:
            viol["attempts"].append({"input": label, "error": f"{type(e).__name__}: {e}"})
            continue
        if r is None:
            viol["attempts"].append({"input": label, "skipped": detail})
            continue
        failed = [n for n, ok in r if ok is False]
        att = {"input": label, "failed_obligations": failed}
        if failed:  # any obligation of this contract failing on the real code is a failing input for the property
            viol["reproduced"] = True
            viol["env"] = env
            viol["native"] = detail
            viol["failed_natively"] = failed
            viol["attempts"].append(att)
            break
        viol["attempts"].append(att)
    if v.smt2:
        viol["smt2"] = v.smt2[:6000]
    if v.model is not None:
        viol["counter_model"] = _model_env(v.model, S.symbols)
    return viol


def _refute_natively(contract, case, cid, S, p, pi, v, oname, full, rng, n=8):
    pre = p.pc[: p.ghost.get("_n_pre", 0)]
    for k in range(n):
        e = sample_env(S.symbols, pre, rng, tries=5)
        if e is None:
            continue
        env = {n_: str(Fraction(val).limit_denominator(10**6)) if isfloat(val) else val for n_, val in e.items()}
        try:
            r, detail, CS = native_replay(contract, case, env)
        except Exception:
            continue
        if r is None:
            continue
        failed = [n_ for n_, ok in r if ok is False]
        if oname in failed:
            return {
                "property": contract.prop,
                "obligation": full,
                "case": cid,
                "path": pi,
                "function": contract.target,
                "solver": f"{v.backend}: unknown ({v.reason}); failing input found by sampling the preconditions",
                "reproduced": True,
                "env": env,
                "native": detail,
                "failed_natively": failed,
                "attempts": [{"input": f"seeded#{k}", "failed_obligations": failed}],
            }
    return None


def _agreement(contract, case, paths, rng, res):
    S0 = paths[0].value[0]
    if any("!" in n for p in paths for n in p.value[0].symbols):
        return  # stub-introduced symbols have no native counterpart
    pre = paths[0].pc[: paths[0].ghost.get("_n_pre", 0)]
    for k in range(contract.agreement_runs):
        env = contract.sample_env(rng, case) or sample_env(S0.symbols, pre, rng)
        if env is None:
            continue
        env = _env_floats(env)
        # which path does this input take?
        taken = []
        for pi, p in enumerate(paths):
            try:
                cache = {}
                if all(eval_term(c, env, cache) for c in p.pc):
                    taken.append(pi)
            except (KeyError, ZeroDivisionError, OverflowError, ValueError):
                continue
        if len(taken) != 1:
            # ties at float precision are possible; zero matching paths is an engine problem
            if not taken:
                res["agreement"]["failed"].append({"env": env, "detail": "no explored path matches this input"})
            continue
        p = paths[taken[0]]
        CS = ConcFactory(env, default=0.0)
        try:
            inp = contract.build(CS, case)
        except PreconditionFailed:
            continue
        try:
            fn = contract.call_native if hasattr(contract, "call_native") else contract.call
            out = fn(CS, case, inp)
        except Exception as e:
            out = Raised(e)
        symout = contract.observe(p.value[2])
        concout = contract.observe(out)
        try:
            ok, detail = agree(symout, concout, env, {})
        except KeyError:
            continue
        res["agreement"]["runs"] += 1
        if not ok:
            res["agreement"]["failed"].append({"env": env, "detail": detail, "path": taken[0]})
