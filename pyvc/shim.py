"""NpShim, float shim and module-global rebinding (DESIGN.md 2.1 item 2, 2.4).

Only what would concretise a symbolic scalar is changed; everything else is numpy's own.
Nothing inside a function body of /repo is edited: module globals are rebound for the
duration of a symbolic run and restored afterwards.
"""
from __future__ import annotations

import builtins
import contextlib
import importlib
import math

import numpy as np

from . import sym
from .sym import EngineError, SArr, SymBool, SymComplex, SymReal, elementwise, has_sym, is_sym, sarr

_FLOAT_DTYPES = (float, np.float64, np.float32, "float", "float64", "f8", np.dtype("float64"))
_CPLX_DTYPES = (complex, np.complex128, "complex", "complex128", np.dtype("complex128"))


def _is_float_dtype(dt):
    if dt is None:
        return True
    try:
        return np.dtype(dt).kind in "fc"
    except TypeError:
        return dt in _FLOAT_DTYPES or dt in _CPLX_DTYPES


def _filled(shape, value, dtype):
    if not _is_float_dtype(dtype):
        return np.full(shape, value, dtype=dtype)
    a = np.empty(shape, dtype=object)
    a.fill(sym.sym_const(value))
    # fill() with an object stores the same immutable SymReal in every cell: fine
    return a.view(SArr)


class NpShim:
    """Forwarding proxy for the numpy module."""

    def __getattr__(self, name):
        return getattr(np, name)

    # constructors: always object arrays for float dtypes (a float64 array would call float(sym))
    def zeros(self, shape, dtype=None, **kw):
        return _filled(shape, 0.0, dtype)

    def ones(self, shape, dtype=None, **kw):
        return _filled(shape, 1.0, dtype)

    def empty(self, shape, dtype=None, **kw):
        return _filled(shape, 0.0, dtype)

    def full(self, shape, fill_value, dtype=None, **kw):
        if is_sym(fill_value):
            a = np.empty(shape, dtype=object)
            a.fill(fill_value)
            return a.view(SArr)
        return np.full(shape, fill_value, dtype=dtype, **kw)

    def zeros_like(self, a, dtype=None, **kw):
        if isinstance(a, np.ndarray) and a.dtype == object:
            return _filled(a.shape, 0.0, dtype)
        return np.zeros_like(a, dtype=dtype, **kw)

    def array(self, obj, dtype=None, **kw):
        if _contains_sym(obj):
            return _to_sarr(obj)
        return np.array(obj, dtype=dtype, **kw)

    def asarray(self, obj, dtype=None, **kw):
        if isinstance(obj, np.ndarray) and obj.dtype == object:
            return obj if isinstance(obj, SArr) else obj.view(SArr)
        if _contains_sym(obj):
            return _to_sarr(obj)
        return np.asarray(obj, dtype=dtype, **kw)

    def asfortranarray(self, a, dtype=None, **kw):
        if isinstance(a, np.ndarray) and a.dtype == object:
            r = np.asfortranarray(a.view(np.ndarray))  # same aliasing behaviour as numpy: no copy if already F-contiguous
            return r.view(SArr)
        return np.asfortranarray(a, dtype=dtype, **kw)

    def ascontiguousarray(self, a, dtype=None, **kw):
        if isinstance(a, np.ndarray) and a.dtype == object:
            r = np.ascontiguousarray(a.view(np.ndarray))
            return r.view(SArr)
        return np.ascontiguousarray(a, dtype=dtype, **kw)

    def diagflat(self, v, k=0):
        if k != 0:
            raise EngineError("np.diagflat with k != 0 is not shimmed")
        if _contains_sym(v):
            v = _to_sarr(v).reshape(-1)
        else:
            v = np.asarray(v, dtype=float).reshape(-1)
        n = v.size
        out = _filled((n, n), 0.0, None)
        for i in range(n):
            out[i, i] = v[i] if is_sym(v[i]) else sym.sym_const(v[i])
        return out

    # predicates
    def isinf(self, x):
        if is_sym(x):
            return False
        if isinstance(x, np.ndarray) and x.dtype == object:
            return np.isinf(x.view(SArr))
        if type(x).__name__ == "Parameter":
            return self.isinf(x.value)
        return np.isinf(x)

    def isnan(self, x):
        if is_sym(x):
            return False
        if isinstance(x, np.ndarray) and x.dtype == object:
            return np.isnan(x.view(SArr))
        return np.isnan(x)

    def isfinite(self, x):
        if is_sym(x):
            return True
        if isinstance(x, np.ndarray) and x.dtype == object:
            return np.isfinite(x.view(SArr))
        if type(x).__name__ == "Parameter":
            return self.isfinite(x.value)
        return np.isfinite(x)

    def isreal(self, x):
        if is_sym(x):
            return type(x) is SymReal
        return np.isreal(x)

    def allclose(self, a, b, rtol=1e-05, atol=1e-08, **kw):
        if type(a).__name__ == "Parameter" and hasattr(a, "value"):
            a = a.value
        if type(b).__name__ == "Parameter" and hasattr(b, "value"):
            b = b.value
        if has_sym(a) or has_sym(b):
            # |a - b| <= atol + rtol*|b| element-wise; forks on symbolic values
            aa = np.asarray(a, dtype=object).reshape(-1) if isinstance(a, (np.ndarray, list, tuple)) else np.array([a], dtype=object)
            bb = np.asarray(b, dtype=object).reshape(-1) if isinstance(b, (np.ndarray, list, tuple)) else np.array([b], dtype=object)
            if aa.size == 1 and bb.size > 1:
                aa = np.repeat(aa, bb.size)
            if bb.size == 1 and aa.size > 1:
                bb = np.repeat(bb, aa.size)
            return all(bool(abs(x - y) <= atol + rtol * abs(y)) for x, y in zip(aa, bb))
        return np.allclose(a, b, rtol=rtol, atol=atol, **kw)

    # scalar / array transcendental functions
    def exp(self, x):
        return _elem("exp", x, np.exp)

    def log(self, x):
        if SYMBOLIC_LOG_CONSTANTS[0] and type(x) in (int, float) and x > 0 and x != 1:
            return sym._fn("log", sym.sym_const(x))  # ln 2 etc. stay exact symbols (contract opt-in)
        return _elem("log", x, np.log)

    def sqrt(self, x):
        return _elem("sqrt", x, np.sqrt)

    def cos(self, x):
        return _elem("cos", x, np.cos)

    def sin(self, x):
        return _elem("sin", x, np.sin)

    def abs(self, x):
        if is_sym(x):
            return abs(x)
        if isinstance(x, np.ndarray) and x.dtype == object:
            return np.abs(x.view(SArr))
        return np.abs(x)

    absolute = abs

    def square(self, x):
        return x * x

    def finfo(self, dtype):
        if dtype is FloatShim:
            dtype = float
        return np.finfo(dtype)

    @staticmethod
    def _truth_mask(a):
        """Element-wise `!= 0` of an object array as a concrete bool array (forks on symbolic cells)."""
        flat = a.reshape(-1)
        return np.array([bool(v != 0) for v in flat], dtype=bool).reshape(a.shape)

    def nonzero(self, a):
        if isinstance(a, np.ndarray) and a.dtype == object:
            return np.nonzero(self._truth_mask(a))
        return np.nonzero(a)

    def count_nonzero(self, a, axis=None, **kw):
        if isinstance(a, np.ndarray) and a.dtype == object:
            return np.count_nonzero(self._truth_mask(a), axis=axis, **kw)
        return np.count_nonzero(a, axis=axis, **kw)

    def unwrap(self, x, *a, **k):
        if has_sym(x):
            raise EngineError("np.unwrap on symbolic values")
        return np.unwrap(x, *a, **k)

    def arctan2(self, a, b):
        if has_sym(a) or has_sym(b):
            raise EngineError("np.arctan2 on symbolic values")
        return np.arctan2(a, b)

    @property
    def linalg(self):
        return _LINALG

    @property
    def random(self):
        return RANDOM_PROXY[0] if RANDOM_PROXY[0] is not None else np.random


SYMBOLIC_LOG_CONSTANTS = [False]
RANDOM_PROXY = [None]  # set to a recording stub of numpy.random by contracts that need the call order
LINALG_HOOKS = {}  # name -> contract stub used instead of numpy.linalg.<name> on symbolic input


class _Linalg:
    def __getattr__(self, name):
        hook = LINALG_HOOKS.get(name)
        real = getattr(np.linalg, name)
        if hook is None:
            return real

        def dispatch(a, *args, **kw):
            if isinstance(a, np.ndarray) and a.dtype == object and has_sym(a):
                return hook(a, *args, **kw)
            return real(a, *args, **kw)

        return dispatch


_LINALG = _Linalg()


def _elem(name, x, fallback):
    if is_sym(x):
        return sym._fn(name, x)
    if isinstance(x, np.ndarray) and x.dtype == object:
        return elementwise(name, x)
    if type(x).__name__ == "Parameter" and is_sym(x.value):
        return sym._fn(name, x.value)
    return fallback(x)


def _contains_sym(obj):
    if is_sym(obj):
        return True
    if isinstance(obj, np.ndarray):
        return obj.dtype == object and has_sym(obj)
    if isinstance(obj, (list, tuple)):
        return any(_contains_sym(o) for o in obj)
    if type(obj).__name__ == "Parameter" and hasattr(obj, "value"):
        return is_sym(obj.value)
    return False


def _to_sarr(obj):
    def conv(o):
        if isinstance(o, (list, tuple)):
            return [conv(x) for x in o]
        if isinstance(o, np.ndarray):
            return [conv(x) for x in o] if o.ndim > 0 else conv(o.item())
        if type(o).__name__ == "Parameter" and hasattr(o, "value"):
            return conv(o.value)
        if is_sym(o):
            return o
        if isinstance(o, (complex, np.complexfloating)):
            return complex(o)
        if isinstance(o, (float, np.floating)) and not math.isfinite(float(o)):
            return float(o)  # +-inf / nan stay concrete floats inside the object array
        return sym.sym_const(o)

    nested = conv(obj)
    shape = _shape_of(nested)
    out = np.empty(shape, dtype=object)
    if shape == ():
        out[()] = nested
    else:
        _assign(out, nested, ())
    return out.view(SArr)


def _shape_of(n):
    if isinstance(n, list):
        if not n:
            return (0,)
        return (len(n),) + _shape_of(n[0])
    return ()


def _assign(out, nested, idx):
    if isinstance(nested, list):
        for i, x in enumerate(nested):
            _assign(out, x, idx + (i,))
    else:
        out[idx] = nested


# ----------------------------------------------------------------------------- float shim
class _FloatMeta(type):
    def __instancecheck__(cls, inst):
        return type(inst) is SymReal or builtins.isinstance(inst, builtins.float)

    def __subclasscheck__(cls, sub):
        return builtins.issubclass(sub, builtins.float)

    def __call__(cls, x=0.0):
        if type(x) is SymReal:
            return x
        if type(x).__name__ == "Parameter" and hasattr(x, "value"):
            return cls(x.value)
        if isinstance(x, np.ndarray) and x.dtype == object and x.shape == ():
            return cls(x.item())
        return builtins.float(x)

    def __eq__(cls, other):
        return other is cls or other is builtins.float

    def __hash__(cls):
        return hash(builtins.float)


class FloatShim(metaclass=_FloatMeta):
    """Replacement for the module-level name ``float`` during symbolic runs."""


def sym_erf(x):
    from scipy.special import erf as _erf

    if type(x) is SymComplex:
        return sym._fn("erf", x)
    if is_sym(x):
        return sym._fn("erf", x)
    if isinstance(x, np.ndarray) and x.dtype == object:
        return elementwise("erf", x)
    return _erf(x)


def sym_erfcx(x):
    from scipy.special import erfcx as _erfcx

    if is_sym(x):
        return sym._fn("erfcx", x)
    if isinstance(x, np.ndarray) and x.dtype == object:
        return elementwise("erfcx", x)
    return _erfcx(x)


NP = NpShim()

DEFAULT_REBIND = {"np": NP, "float": FloatShim, "erf": sym_erf, "erfcx": sym_erfcx}


@contextlib.contextmanager
def patched(modules, extra=None, record=None):
    """Rebind module globals (np, float, erf, ... + ``extra``) in ``modules``.

    ``extra`` maps ``"module:name"`` (or bare ``name`` for all modules) to a replacement.
    Only names that already exist in a module are rebound (except ``float``, which is a
    builtin and is *added* to the module namespace).
    """
    saved = []
    extra = extra or {}
    try:
        for modname in modules:
            mod = importlib.import_module(modname)
            d = mod.__dict__
            binds = dict(DEFAULT_REBIND)
            for k, v in extra.items():
                if ":" in k:
                    m, n = k.split(":")
                    if m == modname:
                        binds[n] = v
                else:
                    binds[k] = v
            for name, repl in binds.items():
                if name == "float":
                    saved.append((d, name, d.get(name, _MISSING)))
                    d[name] = repl
                elif name in d:
                    saved.append((d, name, d[name]))
                    d[name] = repl
                    if record is not None:
                        record.add(f"{modname}.{name}")
        yield
    finally:
        for d, name, old in reversed(saved):
            if old is _MISSING:
                d.pop(name, None)
            else:
                d[name] = old


_MISSING = object()
