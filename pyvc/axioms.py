"""Ground axiom instances for the uninterpreted transcendental functions.

The functions exp, log, sqrt, erf, erfcx, cos, sin are uninterpreted in the obligations.
For every application that occurs in an obligation the instances below are added as
hypotheses.  They are mathematical facts: each schema is a Lean theorem about the real functions of Mathlib
(lemmas/FunctionAxioms.lean; for erf, defined by its integral, lemmas/Convolution.lean), re-checked on every run; a
counter-model over the uninterpreted functions may be spurious, which is why every
refutation is replayed natively before it is reported.
"""
from __future__ import annotations

import z3

from .sym import UF

AXIOM_TEXT = [
    "exp(a) > 0",
    "exp(a)*exp(b) = exp(a+b)  (pairs of occurring arguments, one round)",
    "exp(0) = 1",
    "erfcx(z) = exp(z*z)*(1 - erf(z))",
    "erf(-z) = -erf(z), -1 < erf(z) < 1",
    "x > 0 => exp(log(x)) = x ; log(exp(a)) = a",
    "x >= 0 => sqrt(x)*sqrt(x) = x and sqrt(x) >= 0",
    "cos(a)^2 + sin(a)^2 = 1, cos(-a) = cos(a), sin(-a) = -sin(a), cos(0)=1, sin(0)=0",
    "log and exp strictly increasing (pairs of occurring arguments): a < b <=> f(a) < f(b); log(1) = 0",
]


def _apps(terms):
    seen = {}
    out = {}
    stack = list(terms)
    while stack:
        t = stack.pop()
        i = t.get_id()
        if i in seen:
            continue
        seen[i] = True
        if z3.is_app(t):
            if t.decl().kind() == z3.Z3_OP_UNINTERPRETED and t.num_args() > 0:
                out.setdefault(t.decl().name(), {})[i] = t
            stack.extend(t.children())
        elif z3.is_quantifier(t):
            stack.append(t.body())
    return {k: list(v.values()) for k, v in out.items()}


def norm(t):
    return z3.simplify(t, som=True)


def ground_axioms(terms, max_pairs=30, rounds=1):
    apps = _apps(terms)
    ax = []
    exp, log, sqrt, erf, erfcx, cos, sin = (UF[n] for n in ("exp", "log", "sqrt", "erf", "erfcx", "cos", "sin"))
    exps = list(apps.get("exp", []))
    erfs = list(apps.get("erf", []))
    for t in apps.get("erfcx", []):
        z = t.arg(0)
        e = exp(norm(z * z))
        f = erf(z)
        ax.append(t == e * (1 - f))
        exps.append(e)
        erfs.append(f)
    seen_erf = set()
    for t in erfs:
        z = t.arg(0)
        key = z.get_id()
        if key in seen_erf:
            continue
        seen_erf.add(key)
        ax.append(erf(norm(-z)) == -t)
        ax.append(z3.And(t > -1, t < 1))
    for t in apps.get("log", []):
        x = t.arg(0)
        e = exp(t)
        ax.append(z3.Implies(x > 0, e == x))
        exps.append(e)
    uniq = {}
    for t in exps:
        uniq[t.get_id()] = t
    exps = list(uniq.values())
    for t in exps:
        ax.append(t > 0)
        a = t.arg(0)
        if z3.is_app(a) and a.decl().name() == "log":
            pass
        ax.append(log(t) == a) if "log" in apps else None
    ax = [a for a in ax if a is not None]
    if len(exps) <= max_pairs:
        for i in range(len(exps)):
            for j in range(i + 1, len(exps)):
                a, b = exps[i].arg(0), exps[j].arg(0)
                ax.append(exps[i] * exps[j] == exp(norm(a + b)))
    if exps:
        ax.append(exp(z3.RealVal(0)) == 1)
    logs = apps.get("log", [])
    if len(logs) <= max_pairs:
        for i in range(len(logs)):
            for j in range(i + 1, len(logs)):
                a, b = logs[i].arg(0), logs[j].arg(0)
                ax.append(z3.Implies(z3.And(a > 0, b > 0), z3.And((a < b) == (logs[i] < logs[j]), (a == b) == (logs[i] == logs[j]))))
    if logs:
        ax.append(log(z3.RealVal(1)) == 0)
        for t in logs:
            ax.append(z3.Implies(t.arg(0) > 0, (t.arg(0) > 1) == (t > 0)))
            ax.append(z3.Implies(t.arg(0) > 0, (t.arg(0) == 1) == (t == 0)))
    if len(exps) <= max_pairs:
        for i in range(len(exps)):
            for j in range(i + 1, len(exps)):
                a, b = exps[i].arg(0), exps[j].arg(0)
                ax.append(z3.And((a < b) == (exps[i] < exps[j]), (a == b) == (exps[i] == exps[j])))
    for t in apps.get("sqrt", []):
        x = t.arg(0)
        ax.append(z3.Implies(x >= 0, z3.And(t * t == x, t >= 0)))
    cs = {}
    for t in apps.get("cos", []) + apps.get("sin", []):
        cs[t.arg(0).get_id()] = t.arg(0)
    for a in cs.values():
        ax.append(cos(a) * cos(a) + sin(a) * sin(a) == 1)
        na = norm(-a)
        ax.append(cos(na) == cos(a))
        ax.append(sin(na) == -sin(a))
    if cs:
        ax.append(cos(z3.RealVal(0)) == 1)
        ax.append(sin(z3.RealVal(0)) == 0)
    return ax
