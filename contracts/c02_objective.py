"""C02 - the minimised objective is the documented separable least-squares problem.

The real Optimizer / OptimizationGroup / providers run on a harness scheme (abstract
megacomplex, symbolic data, weights, scales, parameters); the penalty vector handed to
least_squares is compared, entry for entry, with the reference objective of harness.Ref.
"""
from __future__ import annotations

import numpy as np

from contracts import configs, harness
from contracts.pipeline import PIPE_MODS, TRUSTED_PIPE, flat, run_optimizer, symbols_of
from pyvc.contract import Contract, L, Raised
from pyvc.sym import SymReal, is_sym


def _eqv(a, b):
    a, b = flat(a), flat(b)
    if len(a) != len(b):
        return False
    return L.and_(*[L.eq(x, y) for x, y in zip(a, b)])


def compare_solves(ref_solves, entries, snap, ds_labels):
    """Obligations: the solve log of one group equals the reference list of solves.

    Returns (obligations, retrieved) where retrieved[k] maps full label -> clp expression.
    """
    obl = []
    obl.append(("number_of_linear_solves", len(ref_solves) == len(entries)))
    retrieved = []
    if len(ref_solves) != len(entries):
        return obl, retrieved
    per_ds_index = {}
    for k, (rs, e) in enumerate(zip(ref_solves, entries)):
        M = e["matrix"]
        if rs["kind"] == "full":
            ds = rs["ds"]
            glabels = snap["global_labels"].get(ds.label)
            mlabels = snap["full_labels"].get(ds.label)
            ok_labels = glabels is not None and sorted(glabels) == sorted(rs["glabels"]) and sorted(mlabels) == sorted(rs["mlabels"])
            obl.append((f"full_model_labels[{ds.label}]", ok_labels))
            if not ok_labels:
                continue
            code_labels = [(gl, ml) for gl in glabels for ml in mlabels]
            nrow = len(rs["rows"])
            shape_ok = tuple(M.shape) == (nrow, len(code_labels))
            obl.append((f"full_model_matrix_shape[{ds.label}]", shape_ok))
            if shape_ok:
                obl.append(
                    (
                        f"full_model_matrix_is_weighted_kronecker_product[{ds.label}]",
                        L.and_(*[L.eq(M[i, j], rs["rows"][i][lab]) for i in range(nrow) for j, lab in enumerate(code_labels)]),
                    )
                )
            obl.append((f"full_model_data_is_weighted_column_major_flattening[{ds.label}]", _eqv(e["data"], rs["data"])))
            retrieved.append(None)
            continue
        if snap["linked"]:
            code_labels = snap["labels"][k]
            code_full = snap["full_labels"][k]
            tag = f"aligned={rs['value']}"
        else:
            ds = rs["ds"]
            code_labels = snap["labels"][ds.label][rs["g"]]
            code_full = snap["full_labels"][ds.label]
            tag = f"{ds.label},{rs['g']}"
        ok_labels = sorted(code_labels) == sorted(rs["labels"]) and len(set(code_labels)) == len(code_labels)
        obl.append((f"reduced_clp_labels[{tag}]", ok_labels))
        obl.append((f"full_clp_labels[{tag}]", sorted(code_full) == sorted(rs["full_labels"])))
        nrow = len(rs["data"])
        shape_ok = tuple(M.shape) == (nrow, len(code_labels))
        obl.append((f"matrix_shape[{tag}]", shape_ok))
        if ok_labels and shape_ok:
            obl.append(
                (
                    f"matrix_is_scaled_reduced_weighted_stack[{tag}]",
                    L.and_(*[L.eq(M[i, j], rs["cols"][lab][i]) for j, lab in enumerate(code_labels) for i in range(nrow)]),
                )
            )
        obl.append((f"data_is_weighted_column_stack[{tag}]", _eqv(e["data"], rs["data"])))
        # re-expansion of the reduced clps (reference): by label, zeros, relations
        full = {}
        if ok_labels and len(e["clp"]) == len(code_labels):
            red = {lab: e["clp"][j] for j, lab in enumerate(code_labels)}
            for lab in rs["full_labels"]:
                inf = rs["info"][lab]
                if inf[0] == "free":
                    full[lab] = red[lab]
                elif inf[0] == "zero":
                    full[lab] = 0.0
            for lab in rs["full_labels"]:
                inf = rs["info"][lab]
                if inf[0] == "rel":
                    full[lab] = inf[2] * full[inf[1]]
        retrieved.append(full)
    return obl, retrieved


def ref_penalties(b, ref_solves, retrieved, linked, dss):
    """Equal-area penalties of one group (reference), in the order of the property."""
    out = []
    if not b.penalties:
        return out

    def areas(label, intervals, idx_values, labels_at, clps_at):
        a = []
        for lo, hi in intervals:
            mn, mx = min(lo, hi), max(lo, hi)
            for i, v in enumerate(idx_values):
                if mn <= v <= mx and label in labels_at[i]:
                    a.append(clps_at[i][label])
        return a

    if linked:
        blocks = [list(range(len(ref_solves)))]
    else:
        blocks = []
        for ds in dss:
            if ds.global_megacomplexes:
                continue
            blocks.append([k for k, rs in enumerate(ref_solves) if rs["kind"] == "index" and rs["ds"] is ds])
    for blk in blocks:
        vals = [ref_solves[k]["value"] for k in blk]
        labels_at = [ref_solves[k]["full_labels"] for k in blk]
        clps_at = [retrieved[k] for k in blk]
        for source, sivs, target, tivs, p, w in b.penalties:
            sa = areas(source, sivs, vals, labels_at, clps_at)
            ta = areas(target, tivs, vals, labels_at, clps_at)
            if not sa or not ta:
                continue
            out.append(abs(L.sum(sa) - p * L.sum(ta)) * w)
    return out


class Objective(Contract):
    prop = "C02"
    name = "Objective"
    target = "glotaran.optimization.optimizer:Optimizer.objective_function"
    functions = (
        "glotaran.optimization.optimizer:Optimizer.__init__",
        "glotaran.optimization.optimizer:Optimizer.optimize",
        "glotaran.optimization.optimizer:Optimizer.calculate_penalty",
        "glotaran.optimization.optimization_group:OptimizationGroup.__init__",
        "glotaran.optimization.optimization_group:OptimizationGroup.calculate",
        "glotaran.optimization.optimization_group:OptimizationGroup.get_full_penalty",
        "glotaran.optimization.data_provider:DataProvider.__init__",
        "glotaran.optimization.data_provider:DataProvider.get_from_dataset",
        "glotaran.optimization.data_provider:DataProvider.add_model_weight",
        "glotaran.optimization.data_provider:DataProviderLinked.__init__",
        "glotaran.optimization.data_provider:DataProviderLinked.create_aligned_global_axes",
        "glotaran.optimization.data_provider:DataProviderLinked.align_data",
        "glotaran.optimization.data_provider:DataProviderLinked.align_dataset_indices",
        "glotaran.optimization.data_provider:DataProviderLinked.align_groups",
        "glotaran.optimization.data_provider:DataProviderLinked.align_weights",
        "glotaran.optimization.matrix_provider:MatrixProvider.calculate_dataset_matrix",
        "glotaran.optimization.matrix_provider:MatrixProvider.combine_megacomplex_matrices",
        "glotaran.optimization.matrix_provider:MatrixProvider.reduce_matrix",
        "glotaran.optimization.matrix_provider:MatrixProvider.apply_relations",
        "glotaran.optimization.matrix_provider:MatrixProvider.apply_constraints",
        "glotaran.optimization.matrix_provider:MatrixContainer.apply_weight",
        "glotaran.optimization.matrix_provider:MatrixProviderUnlinked.calculate_prepared_matrices",
        "glotaran.optimization.matrix_provider:MatrixProviderUnlinked.calculate_full_matrices",
        "glotaran.optimization.matrix_provider:MatrixProviderLinked.calculate_aligned_matrices",
        "glotaran.optimization.matrix_provider:MatrixProviderLinked.align_matrices",
        "glotaran.optimization.matrix_provider:MatrixProviderLinked.align_full_clp_labels",
        "glotaran.optimization.estimation_provider:EstimationProviderUnlinked.estimate",
        "glotaran.optimization.estimation_provider:EstimationProviderUnlinked.calculate_estimation",
        "glotaran.optimization.estimation_provider:EstimationProviderUnlinked.calculate_full_model_estimation",
        "glotaran.optimization.estimation_provider:EstimationProviderUnlinked.get_full_penalty",
        "glotaran.optimization.estimation_provider:EstimationProviderLinked.estimate",
        "glotaran.optimization.estimation_provider:EstimationProviderLinked.get_full_penalty",
        "glotaran.optimization.estimation_provider:EstimationProvider.retrieve_clps",
        "glotaran.optimization.estimation_provider:EstimationProvider.calculate_clp_penalties",
        "glotaran.optimization.estimation_provider:_get_area",
        "glotaran.model.dataset_group:DatasetGroup.is_linkable",
        "glotaran.model.dataset_group:DatasetGroup.set_parameters",
        "glotaran.model.dataset_model:iterate_dataset_model_megacomplexes",
        "glotaran.model.item:fill_item",
    )
    modules = PIPE_MODS
    trusted = TRUSTED_PIPE
    strength = "S"
    agreement_runs = 0
    max_paths = {"quick": 400, "thorough": 2000}
    not_decided = ("best linear fit itself: C01 contract of the residual functions (LAPACK/nnls trusted there)",)

    def cases(self, tier):
        for cfg in configs.configs(tier):
            yield {"cfg": cfg.name, "_cfg": cfg}

    def case_id(self, case):
        return f"cfg={case['cfg']}"

    def build(self, S, case):
        return harness.build(S, case["_cfg"])

    def call(self, S, case, b):
        # the caller's arrays before the providers are built (data and weights are weighted / scaled on copies only)
        before = {(lab, name): np.array(v.values, dtype=object, copy=True) for lab, ds in b.scheme.data.items() for name, v in ds.data_vars.items()}
        r = run_optimizer(S, b, S.symbolic)
        r.callers_arrays = (before, {(lab, name): np.array(v.values, dtype=object, copy=True) for lab, ds in b.scheme.data.items() for name, v in ds.data_vars.items()})
        return r

    def observe(self, out):
        return out if isinstance(out, Raised) else flat(out.penalty)

    def ensures(self, S, case, b, out):
        if isinstance(out, Raised):
            yield "no_exception", False
            return
        harness.CURRENT["S"] = b.S
        ref = harness.Ref(b)
        cfg = b.cfg
        yield "groups_in_model_order", out.group_names == list(dict.fromkeys(ds.group for ds in cfg.datasets))
        yield "nothing_solved_before_the_first_evaluation", out.n_log_init == 0
        if hasattr(out, "callers_arrays"):
            before, after = out.callers_arrays
            yield "data_and_weights_of_the_scheme_are_weighted_on_copies_only", sorted(before) == sorted(after) and L.and_(*[L.eq(x, y) for key in before for x, y in zip(flat(before[key]), flat(after[key]))])
        # every dataset is in exactly the group it names (interleaved declarations included), in declaration order
        members = [list(g.dataset_models.keys()) if hasattr(g, "dataset_models") else None for g in (getattr(og, "_dataset_group", None) for og in out.groups)]
        want_members = [[ds.label for ds in cfg.datasets if ds.group == gname] for gname in out.group_names]
        if all(m is not None for m in members):
            yield "every_dataset_is_in_the_group_it_names", members == want_members
            if members != want_members:
                return
        pos = 0
        expected_total = []
        used_data = []
        for gi, gname in enumerate(out.group_names):
            dss = ref.group_datasets(gname)
            snap = out.snap[gi]
            linked = ref.is_linked(gname)
            yield f"group_linked_iff_requested_or_linkable[{gname}]", snap["linked"] == linked
            if snap["linked"] != linked:
                return
            rs = ref.solves(gname)
            entries = out.log.entries[pos : pos + len(rs)]
            pos += len(rs)
            yield f"residual_function_of_group[{gname}]", all(e["fn"] == cfg.groups[gname][1] for e in entries)
            obl, retrieved = compare_solves(rs, entries, snap, [d.label for d in dss])
            for n, c in obl:
                yield f"{n}@{gname}", c
            if len(entries) != len(rs):
                return
            # penalty vector of the group: residuals of the solves in order, then the penalties
            exp = []
            for e in entries:
                exp += flat(e["residual"])
                used_data += flat(e["data"])
            pens = ref_penalties(b, rs, retrieved, linked, dss) if all(r is not None or rs[k]["kind"] == "full" for k, r in enumerate(retrieved)) else None
            got = flat(out.group_penalties[gi])
            if pens is not None:
                yield f"penalty_vector_is_residuals_then_equal_area_penalties[{gname}]", _eqv(got, exp + pens)
                yield f"penalty_vector_length[{gname}]", len(got) == sum(len(ds.model_axis) * len(ds.global_axis) for ds in dss) + len(pens)
                expected_total += exp + pens
        yield "all_solves_accounted_for", pos == out.n_log_eval
        yield "objective_is_concatenation_of_group_penalties", _eqv(flat(out.penalty), expected_total)
        # every data point of every dataset contributes exactly once
        if S.symbolic:
            counts = {}
            for v in used_data:
                for n in symbols_of(v):
                    if n.startswith("d_"):
                        counts[n] = counts.get(n, 0) + 1
            want = {f"d_{ds.label}_{m}_{g}" for ds in cfg.datasets for m in range(len(ds.model_axis)) for g in range(len(ds.global_axis))}
            yield "every_data_point_enters_exactly_one_solve_once", set(counts) == want and all(c == 1 for c in counts.values())
        # least_squares receives what the scheme says
        call = out.trace.calls[0]
        yield "least_squares_called_once_with_method", len(out.trace.calls) == 1 and call["method"] == "trf"


class IsLinkable(Contract):
    """DatasetGroup.is_linkable: true iff no global model, one model dimension and one global dimension;
    OptimizationGroup follows it when link_clp is left to auto."""

    prop = "C02"
    name = "IsLinkable"
    target = "glotaran.model.dataset_group:DatasetGroup.is_linkable"
    functions = ("glotaran.optimization.optimization_group:OptimizationGroup.__init__", "glotaran.model.dataset_model:get_dataset_model_model_dimension", "glotaran.model.dataset_model:has_dataset_model_global_model")
    modules = PIPE_MODS
    trusted = TRUSTED_PIPE
    strength = "S"
    agreement_runs = 0

    def cases(self, tier):
        for variant in ("plain", "global_model", "two_model_dimensions", "two_global_dimensions", "single_dataset", "other_group_has_another_global_dimension", "other_group_has_a_global_model"):
            yield {"variant": variant}

    def build(self, S, case):
        from contracts.configs import VP
        from contracts.harness import DS, Cfg

        T = (0.0, 1.0, 3.0)
        v = case["variant"]
        dss = [DS("ds1", T, (0.0, 1.0)), DS("ds2", T, (1.0, 2.0), megacomplexes=("m2",))]
        kw = {}
        if v == "global_model":
            dss[1] = DS("ds2", T, (1.0, 2.0), megacomplexes=("m2",), global_megacomplexes=("gm1",))
            kw["global_megacomplexes"] = {"gm1": ("g1",)}
        if v == "single_dataset":
            dss = dss[:1]
        groups = {"default": (None, VP)}
        if v.startswith("other_group"):
            # dataset groups contribute independently: what another group's data look like does not decide this group's linking
            gm = {"global_megacomplexes": ("gm1",)} if v.endswith("global_model") else {}
            dss.append(DS("ds3", T, (5.0, 6.0), group="g2", **gm))
            groups["g2"] = (False, VP)
            if gm:
                kw["global_megacomplexes"] = {"gm1": ("g1",)}
        cfg = Cfg("linkable_" + v, tuple(dss), megacomplexes={"m1": (("s1", "s2"), False), "m2": (("s2", "s3"), False)}, groups=groups, **kw)
        b = harness.build(S, cfg)
        if v == "other_group_has_another_global_dimension":
            b.scheme.data["ds3"] = b.scheme.data["ds3"].rename({"spectral": "pixel"})
        if v == "two_model_dimensions":
            b.model.megacomplex["m2"].dimension = "spectral"
            d = b.scheme.data["ds2"]
            b.scheme.data["ds2"] = d.rename({"time": "spectral", "spectral": "time"})
        if v == "two_global_dimensions":
            b.scheme.data["ds2"] = b.scheme.data["ds2"].rename({"spectral": "pixel"})
        return b

    def call(self, S, case, b):
        from glotaran.optimization.data_provider import DataProviderLinked
        from glotaran.optimization.optimization_group import OptimizationGroup

        harness.CURRENT["S"] = b.S
        group = next(iter(b.model.get_dataset_groups().values()))
        group.set_parameters(b.parameters)
        linkable = group.is_linkable(b.parameters, b.scheme.data)
        with harness.residual_stubs(b.S, S.symbolic):
            og = OptimizationGroup(b.scheme, next(iter(b.model.get_dataset_groups().values())))
        return {"linkable": linkable, "linked": isinstance(og._data_provider, DataProviderLinked)}

    def observe(self, out):
        return out if isinstance(out, Raised) else None

    def ensures(self, S, case, b, out):
        if isinstance(out, Raised):
            yield "no_exception", False
            return
        want = case["variant"] in ("plain", "single_dataset", "other_group_has_another_global_dimension", "other_group_has_a_global_model")
        yield "linkable_iff_no_global_model_one_model_dimension_one_global_dimension", out["linkable"] is want
        yield "auto_link_follows_is_linkable", out["linked"] is want


def _big_sweep(self, tier, seed):
    from contracts.big_configs import pipeline_sweep

    return pipeline_sweep(self, tier, seed)


Objective.bounded_checks = _big_sweep
