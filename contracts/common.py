"""Shared helpers for the sidecar contracts."""
from __future__ import annotations

import itertools

import numpy as np

from pyvc.sym import isfloat
from pyvc.contract import L

INF = float("inf")


def ext_real(S, name, kind):
    """A finite symbolic real, or the real +-inf (case enumeration of extended reals)."""
    if kind == "fin":
        return S.real(name)
    if kind == "+inf":
        return INF
    if kind == "-inf":
        return -INF
    raise ValueError(kind)


def strictly_increasing(S, a):
    for i in range(len(a) - 1):
        S.require(L.lt(a[i], a[i + 1]), "axis strictly increasing")


def lo_hi(interval):
    lo, hi = interval
    return L.min(lo, hi), L.max(lo, hi)


def inside(interval, x):
    """x in the closed interval [min(lo,hi), max(lo,hi)] (bounds may be +-inf)."""
    mn, mx = lo_hi(interval)
    return L.and_(L.le(mn, x), L.le(x, mx))


def is_nearest(axis, j, v):
    """axis[j] is a point of the axis nearest to the finite value v."""
    return L.and_(*[L.le(abs(axis[j] - v), abs(axis[k] - v)) for k in range(len(axis)) if k != j])


def not_before_nearest(axis, i, v):
    """Some axis point nearest to v has index <= i (v = -inf: always)."""
    if isfloat(v) and v == -INF:
        return True
    if isfloat(v) and v == INF:
        return i == len(axis) - 1
    return L.or_(*[is_nearest(axis, j, v) for j in range(0, i + 1)])


def not_after_nearest(axis, i, v):
    """Some axis point nearest to v has index >= i (v = +inf: always)."""
    if isfloat(v) and v == INF:
        return True
    if isfloat(v) and v == -INF:
        return i == 0
    return L.or_(*[is_nearest(axis, j, v) for j in range(i, len(axis))])


def within_nearest(axis, i, interval):
    """Index i is not beyond the axis points nearest to the interval bounds."""
    mn, mx = lo_hi(interval)
    return L.and_(not_before_nearest(axis, i, mn), not_after_nearest(axis, i, mx))


KINDS = ("fin", "+inf", "-inf")


def kind_pairs():
    return list(itertools.product(KINDS, repeat=2))


def proper_kind_pairs():
    """Kinds of (lo, hi) that denote a non-empty set of reals: (inf, inf) and (-inf, -inf) are excluded.

    Precondition of the slice/area/weight contracts (stated in DESIGN.md): an interval whose
    two bounds are the same infinity contains no real number and is outside the domain.
    """
    return [k for k in kind_pairs() if k not in (("+inf", "+inf"), ("-inf", "-inf"))]


# ----------------------------------------------------------------------------- axioms of the uninterpreted functions
from pyvc.contract import Contract as _Contract  # noqa: E402


class FunctionAxiomsBase(_Contract):
    """The ground axiom schemas of `pyvc/axioms.py` (exp, log, sqrt, cos, sin) are theorems about the real functions of
    Mathlib (`lemmas/FunctionAxioms.lean`, re-checked by `lean` on every run); the ones about erf are in Convolution.lean
    (C05).  What stays assumed is that numpy's / scipy's floating-point functions are these functions (floats as reals)."""

    abstract = True
    name = "FunctionAxioms"
    target = None
    strength = "U"
    lemma_files = (__import__("pathlib").Path(__file__).resolve().parent.parent / "lemmas" / "FunctionAxioms.lean",)
    trusted = ("Lean 4.33 kernel and Mathlib (Real.exp, Real.log, Real.sqrt, Real.cos, Real.sin); axioms propext, Classical.choice, Quot.sound",)
    THEOREMS = {
        "PyVC.ax_exp_pos": "axiom_exp_positive",
        "PyVC.ax_exp_mul": "axiom_exp_a_times_exp_b_is_exp_of_the_sum",
        "PyVC.ax_exp_zero": "axiom_exp_zero_is_one",
        "PyVC.ax_exp_log": "axiom_exp_of_log_of_a_positive_number",
        "PyVC.ax_log_exp": "axiom_log_of_exp",
        "PyVC.ax_sqrt": "axiom_sqrt_squares_back_and_is_non_negative",
        "PyVC.ax_cos_sin": "axiom_cos_squared_plus_sin_squared",
        "PyVC.ax_cos_neg": "axiom_cos_even",
        "PyVC.ax_sin_neg": "axiom_sin_odd",
        "PyVC.ax_cos_zero": "axiom_cos_zero",
        "PyVC.ax_sin_zero": "axiom_sin_zero",
        "PyVC.ax_cexp_re": "axiom_real_part_of_complex_exp",
        "PyVC.ax_cexp_im": "axiom_imaginary_part_of_complex_exp",
        "PyVC.ax_exp_strict_mono": "axiom_exp_strictly_increasing_and_injective",
        "PyVC.ax_log_strict_mono": "axiom_log_strictly_increasing_and_injective_on_positive_numbers",
        "PyVC.ax_log_one": "axiom_log_one_is_zero",
        "PyVC.ax_log_sign": "axiom_sign_of_log",
    }

    def cases(self, tier):
        return iter(())

    def static_obligations(self, tier):
        from pyvc.lean import check_lemmas

        return check_lemmas(self.lemma_files[0], self.THEOREMS)


# ----------------------------------------------------------------------------- bounded native sweeps at larger sizes
def native_sweep(contract, cases, envs=None, tries=4, seed=0, name="bounded_native_sweep_at_larger_sizes"):
    """B: the contract's own postcondition evaluated natively (unpatched function, floats) on random inputs for cases
    beyond the shapes of the symbolic runs.  Never counted as proved; a failure is a violation with its input."""
    import random

    from pyvc import runner

    out = []
    for ci, case in enumerate(cases):
        rng = random.Random(f"{seed}:{contract.name}:{ci}")
        done, witness = 0, None
        for k in range(tries * 3):
            env = envs(case, rng) if envs else {}
            try:
                r, detail, _ = runner.native_replay(contract, case, env, rng=rng)
            except Exception as e:  # the sweep itself must not crash the check
                witness = {"case": {k_: v for k_, v in case.items() if not k_.startswith("_")}, "exception": repr(e)}
                break
            if r is None:
                continue  # precondition not met by the random input
            failed = [n for n, ok in r if ok is False]
            unevaluated = [n for n, ok in r if ok is None]
            if len(unevaluated) == len(r):
                continue  # nothing could be evaluated natively on this input: no coverage, not a run
            done += 1
            if failed:
                witness = {"case": {k_: v for k_, v in case.items() if not k_.startswith("_")}, "failed": failed, "inputs_and_outcome": detail}
                break
            if done >= tries:
                break
        cid = contract.case_id(case)
        out.append({"name": name, "ok": witness is None and done > 0, "case": cid, "function": contract.target, "witness": witness, "detail": f"{done} native runs of {contract.name}[{cid}]" + ("" if done else " - no random input met the precondition")})
    return out


def sorted_env(prefix, n, rng, lo=-5.0, hi=5.0):
    vals = sorted({round(rng.uniform(lo, hi), 3) for _ in range(n * 3)})
    rng.shuffle(vals)
    vals = sorted(vals[:n])
    return {f"{prefix}_{i}": v for i, v in enumerate(vals)}
