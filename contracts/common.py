"""Shared helpers for the sidecar contracts."""
from __future__ import annotations

import itertools

import numpy as np

from pyvc.sym import isfloat
from pyvc.contract import L

INF = float("inf")


def ext_real(S, name, kind):
    """A finite symbolic real, or the real +-inf (case enumeration of extended reals)."""
    if kind == "fin":
        return S.real(name)
    if kind == "+inf":
        return INF
    if kind == "-inf":
        return -INF
    raise ValueError(kind)


def strictly_increasing(S, a):
    for i in range(len(a) - 1):
        S.require(L.lt(a[i], a[i + 1]), "axis strictly increasing")


def lo_hi(interval):
    lo, hi = interval
    return L.min(lo, hi), L.max(lo, hi)


def inside(interval, x):
    """x in the closed interval [min(lo,hi), max(lo,hi)] (bounds may be +-inf)."""
    mn, mx = lo_hi(interval)
    return L.and_(L.le(mn, x), L.le(x, mx))


def is_nearest(axis, j, v):
    """axis[j] is a point of the axis nearest to the finite value v."""
    return L.and_(*[L.le(abs(axis[j] - v), abs(axis[k] - v)) for k in range(len(axis)) if k != j])


def not_before_nearest(axis, i, v):
    """Some axis point nearest to v has index <= i (v = -inf: always)."""
    if isfloat(v) and v == -INF:
        return True
    if isfloat(v) and v == INF:
        return i == len(axis) - 1
    return L.or_(*[is_nearest(axis, j, v) for j in range(0, i + 1)])


def not_after_nearest(axis, i, v):
    """Some axis point nearest to v has index >= i (v = +inf: always)."""
    if isfloat(v) and v == INF:
        return True
    if isfloat(v) and v == -INF:
        return i == 0
    return L.or_(*[is_nearest(axis, j, v) for j in range(i, len(axis))])


def within_nearest(axis, i, interval):
    """Index i is not beyond the axis points nearest to the interval bounds."""
    mn, mx = lo_hi(interval)
    return L.and_(not_before_nearest(axis, i, mn), not_after_nearest(axis, i, mx))


KINDS = ("fin", "+inf", "-inf")


def kind_pairs():
    return list(itertools.product(KINDS, repeat=2))


def proper_kind_pairs():
    """Kinds of (lo, hi) that denote a non-empty set of reals: (inf, inf) and (-inf, -inf) are excluded.

    Precondition of the slice/area/weight contracts (stated in DESIGN.md): an interval whose
    two bounds are the same infinity contains no real number and is outside the domain.
    """
    return [k for k in kind_pairs() if k not in (("+inf", "+inf"), ("-inf", "-inf"))]
