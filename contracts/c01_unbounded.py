"""C01 (all sizes): the glue code of `residual_variable_projection` and `residual_nnls` for every m and n.

PyVC-U (`pyvc/wp.py`) executes the AST of the real functions over z3 arrays of symbolic length; the
zeroing loop is cut by an inductive invariant.  LAPACK / scipy routines are replaced by their contracts,
stated over uninterpreted array functions:

    dgeqrf(A)                    -> a factorisation token of A           (A untouched unless overwrite_a)
    dormqr('L','T',qr,tau,c,..)  -> QT(c)                                (c untouched unless overwrite_c)
    dormqr('L','N',qr,tau,c,..)  -> QN(c)
    dtrtrs(qr, b)                -> TRI(b)   (first n entries solve R x = b[:n], the rest are b's)
    nnls(A, b)                   -> (X(A, b) >= 0, rnorm)
    np.dot(A, x)[i]              =  DOT(A, x)[i]  (the i-th row of A times x)

The postconditions are exactly the hypotheses of the Lean theorem `vp_end_to_end` / `nnls_kkt_optimal`
(`lemmas/LeastSquares.lean`), which turn them into the property for every m, n.
"""
from __future__ import annotations

import z3

from contracts.unbounded import ext_max, inb, ints, records
from pyvc import wp
from pyvc.contract import Contract

A1, A2 = wp.arr_sort(1), wp.arr_sort(2)
QT = z3.Function("lapack_QT", A2, A1, A1)  # Q^T c for the factorisation of the matrix (first argument)
QN = z3.Function("lapack_QN", A2, A1, A1)
TRI = z3.Function("lapack_TRI", A2, A1, A1)
NNLS_X = z3.Function("nnls_x", A2, A1, A1)
DOT = z3.Function("np_dot", A2, A1, A1)


def vp_spec():
    from glotaran.optimization.variable_projection import residual_variable_projection as fn

    (k,) = ints("k")
    log = {}

    def requires(env):
        return [env.shape("matrix", 0) == env.shape("data"), env.shape("matrix", 1) <= env.shape("matrix", 0)]

    def dgeqrf(ex, st, args, kwargs, node):
        (a,) = args
        if not isinstance(a, wp.Arr) or a.ndim != 2:
            raise wp.Unsupported("dgeqrf: 2-d array expected")
        entry = ex.entry
        ex.oblige("O0_dgeqrf_factorises_the_callers_matrix", st, z3.And(st.heap[a.loc] == entry.heap[entry.vars["matrix"].loc], a.shape[0] == entry.vars["matrix"].shape[0], a.shape[1] == entry.vars["matrix"].shape[1]))
        tok = wp.Opaque("qr", of=st.heap[a.loc], shape=a.shape)
        if kwargs.get("overwrite_a", 0) not in (0, False):
            st.heap[a.loc] = wp.fresh("overwritten", A2)  # LAPACK may replace the input by the factorisation
        log["qr"], log["tau"] = tok, wp.Opaque("tau")
        return (tok, log["tau"], None, 0)

    def dormqr(ex, st, args, kwargs, node):
        side, trans, qr, tau, c, lwork = args
        ok = side == "L" and trans in ("T", "N") and qr is log.get("qr") and tau is log.get("tau") and isinstance(c, wp.Arr) and c.ndim == 1
        which = "first" if "dormqr1" not in log else "second"
        ex.oblige(f"O1_{which}_dormqr_uses_side_L_and_the_factorisation_of_dgeqrf", st, z3.BoolVal(bool(ok)))
        if not ok:
            raise wp.Unsupported("dormqr called outside its contract")
        ex.oblige(f"O1_{which}_dormqr_vector_has_one_entry_per_row_and_lwork_is_positive", st, z3.And(c.shape[0] == qr.shape[0], wp._int(lwork) >= 1))
        arg = st.heap[c.loc]
        out = (QT if trans == "T" else QN)(qr.of, arg)
        log["dormqr1" if which == "first" else "dormqr2"] = (trans, arg)
        if kwargs.get("overwrite_c", 0) not in (0, False):
            st.heap[c.loc] = out
            return (c, None, 0)
        return (st.new_array(c.shape, "dormqr_out", out), None, 0)

    def dtrtrs(ex, st, args, kwargs, node):
        qr, b = args
        ok = qr is log.get("qr") and isinstance(b, wp.Arr) and b.ndim == 1 and not kwargs
        ex.oblige("O1_dtrtrs_uses_the_factorisation_with_default_flags", st, z3.BoolVal(bool(ok)))
        if not ok:
            raise wp.Unsupported("dtrtrs called outside its contract")
        log["dtrtrs"] = st.heap[b.loc]
        return (st.new_array(b.shape, "dtrtrs_out", TRI(qr.of, st.heap[b.loc])), 0)

    def w_of(old):
        return QT(old.term("matrix"), old.term("data"))

    def inv(old, now, i):
        n, m = old.shape("matrix", 1), old.shape("matrix", 0)
        w = w_of(old)
        temp = now.stored(0)  # the vector the loop zeroes (whatever the code calls it)
        return [z3.ForAll([k], z3.If(z3.And(k >= 0, k < i), now.sel(temp, k) == 0, now.sel(temp, k) == z3.Select(w, k))), temp.shape[0] == m]

    def ensures(old, new, res):
        n, m = old.shape("matrix", 1), old.shape("matrix", 0)
        w = w_of(old)
        A = old.term("matrix")
        if not (isinstance(res, tuple) and len(res) == 2 and isinstance(res[0], wp.Prefix) and isinstance(res[1], wp.Arr)):
            return [("returns_clp_prefix_and_residual", z3.BoolVal(False))]
        clp, residual = res
        out = [
            ("O1a_first_dormqr_applies_Qt_to_the_callers_data", z3.BoolVal(log.get("dormqr1", ("", None))[0] == "T") if "dormqr1" not in log else z3.And(z3.BoolVal(log["dormqr1"][0] == "T"), log["dormqr1"][1] == old.term("data"))),
            ("O1b_triangular_solve_on_Qt_data", log["dtrtrs"] == w if "dtrtrs" in log else z3.BoolVal(False)),
            ("O1c_clp_is_the_first_n_entries_of_the_triangular_solution", z3.And(new.term(clp.arr) == TRI(A, w), clp.stop == n)),
        ]
        if "dormqr2" in log:
            T = log["dormqr2"][1]
            out += [
                ("O2_projected_vector_has_first_n_entries_zero_rest_Qt_data", z3.ForAll([k], z3.And(z3.Implies(inb(k, n), z3.Select(T, k) == 0), z3.Implies(z3.And(k >= n, k < m), z3.Select(T, k) == z3.Select(w, k))))),
                ("O3_residual_is_Q_applied_to_the_projected_vector", z3.And(z3.BoolVal(log["dormqr2"][0] == "N"), new.term(residual) == QN(A, T), residual.shape[0] == m)),
            ]
        else:
            out.append(("O3_residual_is_Q_applied_to_the_projected_vector", z3.BoolVal(False)))
        return out

    ext = {"lapack.dgeqrf": dgeqrf, "lapack.dormqr": dormqr, "lapack.dtrtrs": dtrtrs, "max": ext_max}
    return wp.FnSpec(fn, [("matrix", "arr2"), ("data", "arr1")], requires, (), ensures, {0: inv}, ext)


def nnls_spec():
    from glotaran.optimization.nnls import residual_nnls as fn

    (i,) = ints("i")
    log = {}

    def requires(env):
        return [env.shape("matrix", 0) == env.shape("data")]

    def nnls(ex, st, args, kwargs, node):
        a, b = args
        ok = isinstance(a, wp.Arr) and a.ndim == 2 and isinstance(b, wp.Arr) and b.ndim == 1 and not kwargs
        if not ok:
            raise wp.Unsupported("nnls called outside its contract")
        log["nnls"] = (st.heap[a.loc], st.heap[b.loc])
        x = st.new_array((a.shape[1],), "nnls_x", NNLS_X(st.heap[a.loc], st.heap[b.loc]))
        j = z3.Int("j")
        st.pc.append(z3.ForAll([j], z3.Implies(inb(j, a.shape[1]), x.sel(st.heap, j) >= 0)))
        return (x, wp.fresh("rnorm", wp.REAL))

    def dot(ex, st, args, kwargs, node):
        a, x = args
        if not (isinstance(a, wp.Arr) and a.ndim == 2 and isinstance(x, wp.Arr) and x.ndim == 1):
            raise wp.Unsupported("np.dot: matrix times vector expected")
        ex.oblige("np_dot_shapes_agree", st, a.shape[1] == x.shape[0])
        return st.new_array((a.shape[0],), "dot", DOT(st.heap[a.loc], st.heap[x.loc]))

    def ensures(old, new, res):
        if not (isinstance(res, tuple) and len(res) == 2 and isinstance(res[0], wp.Arr) and isinstance(res[1], (wp.Arr, wp.LazyArr))):
            return [("returns_clp_and_residual", z3.BoolVal(False))]
        clp, residual = res
        A, b = old.term("matrix"), old.term("data")
        n, m = old.shape("matrix", 1), old.shape("matrix", 0)
        return [
            ("nnls_called_with_the_callers_matrix_and_data", z3.And(log["nnls"][0] == A, log["nnls"][1] == b) if "nnls" in log else z3.BoolVal(False)),
            ("clp_is_the_nnls_solution_unchanged_and_non_negative", z3.And(new.term(clp) == NNLS_X(A, b), clp.shape[0] == n, z3.ForAll([i], z3.Implies(inb(i, n), new.sel(clp, i) >= 0)))),
            ("residual_is_data_minus_matrix_times_clp", z3.And(residual.shape[0] == m, z3.ForAll([i], z3.Implies(inb(i, m), new.sel(residual, i) == z3.Select(b, i) - z3.Select(DOT(A, NNLS_X(A, b)), i))))),
        ]

    return wp.FnSpec(fn, [("matrix", "arr2"), ("data", "arr1")], requires, (), ensures, {}, {"nnls": nnls, "np.dot": dot})


class GlueAllSizes(Contract):
    prop = "C01"
    name = "GlueAllSizes"
    target = "glotaran.optimization.variable_projection:residual_variable_projection"
    functions = ("glotaran.optimization.nnls:residual_nnls",)
    strength = "U"
    trusted = (
        *__import__('contracts.unbounded', fromlist=['WP_ASSUMPTIONS']).WP_ASSUMPTIONS,
        "LAPACK / scipy contracts over uninterpreted array functions: dgeqrf -> factorisation of its argument, dormqr('L','T'|'N') -> Q^T c | Q c of that factorisation, dtrtrs -> triangular solution with the tail copied, nnls -> x >= 0 (KKT), np.dot -> row times vector; inputs untouched unless an overwrite flag is passed",
        "elementwise `a - b` on arrays of equal length (numpy broadcasting contract)",
    )
    drops = ("PyVC-U re-reads the source of the two functions on every run (annotations and docstrings dropped); accepted subset in pyvc/wp.py",)

    def cases(self, tier):
        return iter(())

    def static_obligations(self, tier):
        from contracts.unbounded import engine_selftest

        return records(vp_spec(), self.name, prefix="vp.") + records(nnls_spec(), self.name, prefix="nnls.") + engine_selftest()
