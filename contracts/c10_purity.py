"""C10 - the objective is pure and deterministic; optimize() leaves its inputs unchanged.

NonInterference  histories of objective evaluations (repeat, return to an earlier point, an
                 evaluation that raises in between, a fresh optimizer) give identical penalty vectors
Frames           Optimizer.__init__ / optimize / create_result leave the caller's parameters, data
                 and model unchanged (field by field, cell by cell, as symbolic terms)
PrangeRaces      read/write sets of distinct prange iterations of the parallel numba kernels are disjoint
"""
from __future__ import annotations

import copy

import numpy as np

from contracts import configs, harness
from contracts.c02_objective import Objective
from contracts.pipeline import PIPE_MODS, TRUSTED_PIPE, flat, make_least_squares, run_optimizer
from pyvc.contract import Contract, L, Raised
from pyvc.sym import EngineError, PathAbort, SArr, SymReal, is_sym


_Boom = harness.InjectedFault


def _same_term(a, b):
    if type(a) is SymReal and type(b) is SymReal:
        return a.t.eq(b.t) or L.eq(a, b)
    if type(a) is SymReal or type(b) is SymReal:
        return L.eq(a, b)
    if isinstance(a, float) and isinstance(b, float) and np.isnan(a) and np.isnan(b):
        return True
    return a == b


def _c10_configs(tier):
    names = None
    if tier == "quick":
        names = {
            "one_unlinked", "one_dep_weight_gm", "one_linked_weight_scale", "two_overlap_linked_scales", "three_mixed_megacomplexes",
            "mc_mixed_dep", "relation_zero_linked", "penalty_unlinked", "penalty_linked_two", "model_weight", "two_groups", "full_model_dep_weight", "nnls",
        }
    for cfg in configs.configs(tier):
        if cfg.name == "labels_concatenations_coincide":
            continue
        if names is None or cfg.name in names:
            yield cfg


class NonInterference(Contract):
    prop = "C10"
    name = "NonInterference"
    target = "glotaran.optimization.optimizer:Optimizer.objective_function"
    functions = Objective.functions
    modules = PIPE_MODS
    trusted = TRUSTED_PIPE
    strength = "S"
    agreement_runs = 0
    max_paths = {"quick": 400, "thorough": 2000}
    not_decided = (
        "behaviour under real numba thread schedules / in a fresh process beyond race freedom of the prange loops (PrangeRaces) - not a contract on Python code",
        "'optimising twice gives identical results' follows from NonInterference + Frames + determinism of scipy least_squares (T)",
    )

    def cases(self, tier):
        for cfg in _c10_configs(tier):
            for hist in ("repeat", "return", "raise_between", "fresh_optimizer"):
                yield {"cfg": cfg.name, "_cfg": cfg, "history": hist}

    def case_id(self, case):
        return f"cfg={case['cfg']},history={case['history']}"

    def build(self, S, case):
        return harness.build(S, case["_cfg"])

    def call(self, S, case, b):
        from glotaran.optimization import optimizer as om

        harness.CURRENT["S"] = b.S
        symbolic = S.symbolic
        out = {}
        with harness.residual_stubs(b.S, symbolic) as log:
            opt = om.Optimizer(b.scheme, verbose=False, raise_exception=True)
            labels, x0, lo, hi = b.scheme.parameters.get_label_value_and_bounds_arrays(exclude_non_vary=True)
            opt._free_parameter_labels = labels
            n = len(x0)
            x1 = np.empty(n, dtype=object if symbolic else float)
            for j in range(n):
                x1[j] = b.S.named(f"x1_{j}")
            if symbolic:
                x1 = x1.view(SArr)
            h = case["history"]
            p1 = flat(opt.objective_function(x0))
            if h == "repeat":
                p2 = flat(opt.objective_function(x0))
                out["pairs"] = [("same_point_evaluated_twice", p1, p2)]
            elif h == "return":
                q = flat(opt.objective_function(x1))
                p2 = flat(opt.objective_function(x0))
                out["pairs"] = [("return_to_earlier_point", p1, p2)]
            elif h == "raise_between":
                # an evaluation at x1 that raises half-way through the model evaluation
                harness.CURRENT["fail_after_matrix_calls"] = 1 + len(b.cfg.datasets) // 2
                try:
                    opt.objective_function(x1)
                    out["raised"] = False
                except _Boom:
                    out["raised"] = True
                finally:
                    harness.CURRENT["fail_after_matrix_calls"] = None
                p2 = flat(opt.objective_function(x0))
                out["pairs"] = [("evaluation_after_a_failed_one", p1, p2)]
            else:
                q = flat(opt.objective_function(x1))
                opt2 = om.Optimizer(b.scheme, verbose=False, raise_exception=True)
                opt2._free_parameter_labels = labels
                q2 = flat(opt2.objective_function(x1))
                out["pairs"] = [("fresh_optimizer_same_point", q, q2)]
        return out

    def observe(self, out):
        return out if isinstance(out, Raised) else None

    def ensures(self, S, case, b, out):
        if isinstance(out, Raised):
            yield "no_exception", False
            return
        if case["history"] == "raise_between":
            yield "injected_fault_propagated", out.get("raised") is True
        for name, a, c in out["pairs"]:
            yield f"{name}.same_length", len(a) == len(c)
            if len(a) == len(c):
                yield f"{name}.identical_penalty_vector", L.and_(*[L.eq(x, y) for x, y in zip(a, c)])


def _snapshot_scheme(b):
    snap = {"params": {}, "data": {}, "model": None}
    for p in b.scheme.parameters.all():
        snap["params"][p.label] = (p.value, p.minimum, p.maximum, p.vary, p.non_negative, p.expression, p.standard_error, id(p))
    for label, ds in b.scheme.data.items():
        snap["data"][label] = {k: (tuple(v.dims), np.array(v.values, dtype=object, copy=True), id(v.values)) for k, v in ds.data_vars.items()}
        snap["data"][label + "//coords"] = {k: list(v.values) for k, v in ds.coords.items()}
    snap["model"] = repr(b.model.as_dict())
    snap["order"] = [p.label for p in b.scheme.parameters.all()]
    return snap


class Frames(Contract):
    prop = "C10"
    name = "Frames"
    target = "glotaran.optimization.optimize:optimize"
    functions = Objective.functions + (
        "glotaran.optimization.optimizer:Optimizer.create_result",
        "glotaran.parameter.parameters:Parameters.copy",
        "glotaran.parameter.parameter:Parameter.copy",
        "glotaran.optimization.data_provider:DataProvider.get_from_dataset",
    )
    modules = PIPE_MODS + ("glotaran.project.result",)
    trusted = TRUSTED_PIPE
    strength = "S"
    agreement_runs = 0
    max_paths = {"quick": 400, "thorough": 2000}

    def cases(self, tier):
        for cfg in _c10_configs(tier):
            yield {"cfg": cfg.name, "_cfg": cfg}

    def case_id(self, case):
        return f"cfg={case['cfg']}"

    def build(self, S, case):
        return harness.build(S, case["_cfg"])

    def call(self, S, case, b):
        before = _snapshot_scheme(b)
        run = run_optimizer(S, b, S.symbolic, n_evals=2, create_result=True)
        after = _snapshot_scheme(b)
        return before, after, run

    def observe(self, out):
        return out if isinstance(out, Raised) else None

    def ensures(self, S, case, b, out):
        if isinstance(out, Raised):
            yield "no_exception", False
            return
        before, after, run = out
        yield "parameter_set_and_order_unchanged", before["order"] == after["order"]
        conds = []
        for label, old in before["params"].items():
            new = after["params"].get(label)
            if new is None:
                conds.append(False)
                continue
            for a, c in zip(old[:7], new[:7]):
                conds.append(_same_term(a, c))
            conds.append(old[7] == new[7])
        yield "callers_parameters_unchanged", L.and_(*conds)
        opt = run.optimizer
        yield "optimizer_works_on_a_deep_copy_of_the_parameters", opt._parameters is not b.scheme.parameters and all(
            opt._parameters.get(p.label) is not p for p in b.scheme.parameters.all()
        )
        dconds = []
        for label, vars_ in before["data"].items():
            if label.endswith("//coords"):
                dconds.append(vars_ == after["data"].get(label))
                continue
            new = after["data"].get(label, {})
            dconds.append(set(vars_) == set(new))
            for k, (dims, vals, _) in vars_.items():
                if k not in new:
                    continue
                dconds.append(dims == new[k][0] and vals.shape == new[k][1].shape)
                if vals.shape == new[k][1].shape:
                    for a, c in zip(vals.reshape(-1), new[k][1].reshape(-1)):
                        dconds.append(_same_term(a, c))
        yield "callers_data_unchanged", L.and_(*dconds)
        yield "callers_model_unchanged", before["model"] == after["model"]
        yield "result_reports_callers_parameters_as_initial", run.result.initial_parameters is b.scheme.parameters and run.result.optimized_parameters is not b.scheme.parameters


class PrangeRaces(Contract):
    """Static + dynamic race check of the numba kernels (what 'however many threads' reduces to)."""

    prop = "C10"
    name = "PrangeRaces"
    target = "glotaran.builtin.megacomplexes.decay.decay_matrix_gaussian_irf:calculate_decay_matrix_gaussian_irf"
    functions = (
        "glotaran.builtin.megacomplexes.decay.util:calculate_decay_matrix_no_irf",
        "glotaran.builtin.megacomplexes.decay.decay_matrix_gaussian_irf:calculate_decay_matrix_gaussian_irf_on_index",
        "glotaran.builtin.megacomplexes.damped_oscillation.damped_oscillation_megacomplex:calculate_damped_oscillation_matrix_no_irf",
    )
    strength = "S"
    drops = ("numba @jit functions are analysed through their .py_func with nb.prange bound to an iteration-tagging range; the compiled parallel schedule itself is not executed",)

    def cases(self, tier):
        return iter(())

    def static_obligations(self, tier):
        from contracts.prange import race_obligations

        return race_obligations(tier) + builtin_matrices_are_fresh()


def builtin_matrices_are_fresh():
    """Megacomplex output is scaled in place by the matrix provider (`this_matrix *= scale`): every builtin
    megacomplex must hand out a fresh array per call and must not alias item state (concrete, structural)."""
    import numpy as np

    from glotaran.builtin.megacomplexes.baseline import BaselineMegacomplex
    from glotaran.builtin.megacomplexes.clp_guide import ClpGuideMegacomplex
    from glotaran.builtin.megacomplexes.coherent_artifact import CoherentArtifactMegacomplex
    from glotaran.builtin.megacomplexes.damped_oscillation import DampedOscillationMegacomplex
    from glotaran.builtin.megacomplexes.decay import DecayParallelMegacomplex, DecaySequentialMegacomplex
    from glotaran.builtin.megacomplexes.decay.irf import IrfMultiGaussian
    from glotaran.builtin.megacomplexes.pfid import PFIDMegacomplex
    from glotaran.builtin.megacomplexes.spectral import SpectralMegacomplex
    from glotaran.builtin.megacomplexes.spectral.shape import SpectralShapeGaussian
    from glotaran.parameter import Parameter

    def P(v):
        return Parameter(label="p", value=v)

    class DM:
        label = "ds"
        spectral_axis_inverted = False
        spectral_axis_scale = 1

    t = np.linspace(-1, 5, 13)
    g = np.array([1500.0, 1600.0])
    res = []
    for irf_kind in ("none", "plain", "shift"):
        dm = DM()
        dm.irf = None if irf_kind == "none" else IrfMultiGaussian(label="i", center=[P(0.3)], width=[P(0.2)], **({"shift": [P(0.0), P(0.1)]} if irf_kind == "shift" else {}))
        mcs = {
            "decay-parallel": DecayParallelMegacomplex(label="m", compartments=["a", "b"], rates=[P(0.5), P(1.5)]),
            "decay-sequential": DecaySequentialMegacomplex(label="m", compartments=["a", "b"], rates=[P(0.5), P(1.5)]),
            "damped-oscillation": DampedOscillationMegacomplex(label="m", labels=["o"], frequencies=[P(20.0)], rates=[P(0.4)]),
            "baseline": BaselineMegacomplex(label="m"),
            "clp-guide": ClpGuideMegacomplex(label="m", target="a"),
            "spectral": SpectralMegacomplex(label="m", shape={"a": SpectralShapeGaussian(label="s", location=P(1.0), width=P(2.0), amplitude=P(1.5))}),
        }
        if irf_kind != "none":
            mcs["coherent-artifact"] = CoherentArtifactMegacomplex(label="m", order=3)
            mcs["pfid"] = PFIDMegacomplex(label="m", labels=["o"], frequencies=[P(1550.0)], rates=[P(-0.4)])
        for name, mc in mcs.items():
            try:
                l1, m1 = mc.calculate_matrix(dm, g, t)
                keep = np.array(m1, copy=True)
                m1 *= 3.0  # what the matrix provider does with megacomplex scales
                l2, m2 = mc.calculate_matrix(dm, g, t)
                ok = l1 == l2 and m1 is not m2 and np.array_equal(np.asarray(m2), keep)
                detail = "second call differs after the first result was scaled in place" if not ok else ""
            except Exception as e:
                ok, detail = False, f"{type(e).__name__}: {e}"
            res.append({"name": f"matrix_is_fresh_per_call_and_deterministic[{name},irf={irf_kind}]", "ok": ok, "detail": detail, "function": f"{type(mc).__module__}:{type(mc).__name__}.calculate_matrix", "strength": "S", "witness": None if ok else detail})
    return res


def _builtin_histories(self, tier, seed):
    """B: the builtin megacomplexes (not the abstract one of the symbolic runs) driven natively through histories of
    evaluations - same point twice, return after another point, return after an evaluation that raises, a fresh
    optimizer - the penalty vectors at one point must be *identical* (hidden state in a megacomplex, an IRF or a module
    would show here)."""
    import warnings

    import numpy as np
    import xarray as xr

    from glotaran.builtin.megacomplexes.coherent_artifact import CoherentArtifactMegacomplex
    from glotaran.builtin.megacomplexes.damped_oscillation import DampedOscillationMegacomplex
    from glotaran.builtin.megacomplexes.decay import DecayMegacomplex, DecayParallelMegacomplex, DecaySequentialMegacomplex
    from glotaran.model import Model
    from glotaran.optimization.optimizer import Optimizer
    from glotaran.parameter import Parameters
    from glotaran.project import Scheme

    rng = np.random.default_rng(seed)
    time, pixel = np.arange(-1, 12, 0.5), np.arange(3.0)
    irf = {"irf1": {"type": "gaussian", "center": "irf.c", "width": "irf.w"}}
    shifted = {"irf1": {"type": "multi-gaussian", "center": ["irf.c"], "width": ["irf.w"], "shift": ["irf.s0", "irf.s1", "irf.s2"]}}
    specs = {
        "decay_parallel_no_irf": ([DecayParallelMegacomplex], {"megacomplex": {"m": {"type": "decay-parallel", "compartments": ["s1", "s2"], "rates": ["k.1", "k.2"]}}, "dataset": {"d": {"megacomplex": ["m"]}}}),
        "decay_sequential_irf": ([DecaySequentialMegacomplex], {"megacomplex": {"m": {"type": "decay-sequential", "compartments": ["s1", "s2"], "rates": ["k.1", "k.2"]}}, "irf": irf, "dataset": {"d": {"megacomplex": ["m"], "irf": "irf1"}}}),
        "decay_general_shifted_irf": ([DecayMegacomplex], {"megacomplex": {"m": {"type": "decay", "k_matrix": ["km"]}}, "k_matrix": {"km": {"matrix": {("s2", "s1"): "k.1", ("s2", "s2"): "k.2"}}}, "initial_concentration": {"j": {"compartments": ["s1", "s2"], "parameters": ["j.1", "j.0"]}}, "irf": shifted, "dataset": {"d": {"megacomplex": ["m"], "irf": "irf1", "initial_concentration": "j"}}}),
        "oscillation_and_artifact_irf": ([DampedOscillationMegacomplex, CoherentArtifactMegacomplex], {"megacomplex": {"o": {"type": "damped-oscillation", "labels": ["o1"], "frequencies": ["osc.f"], "rates": ["k.1"]}, "a": {"type": "coherent-artifact", "order": 2}}, "irf": irf, "dataset": {"d": {"megacomplex": ["o", "a"], "irf": "irf1"}}}),
    }
    specs["decay_two_k_matrices"] = ([DecayMegacomplex], {"megacomplex": {"m": {"type": "decay", "k_matrix": ["km1", "km2"]}}, "k_matrix": {"km1": {"matrix": {("s2", "s1"): "k.1"}}, "km2": {"matrix": {("s2", "s2"): "k.2"}}}, "initial_concentration": {"j": {"compartments": ["s1", "s2"], "parameters": ["j.1", "j.0"]}}, "dataset": {"d": {"megacomplex": ["m"], "initial_concentration": "j"}}})
    specs["decay_parallel_expression"] = ([DecayParallelMegacomplex], {"megacomplex": {"m": {"type": "decay-parallel", "compartments": ["s1", "s2"], "rates": ["k.1", "kx.2"]}}, "irf": irf, "dataset": {"d": {"megacomplex": ["m"], "irf": "irf1"}}})
    pars = {"kx": [["2", 0.15, {"expr": "$k.1 * 0.25"}]], "k": [0.6, 0.15], "irf": [["c", 0.4], ["w", 0.3], ["s0", 0.0], ["s1", 0.05], ["s2", -0.05]], "j": [["1", 1.0, {"vary": False}], ["0", 0.0, {"vary": False}]], "osc": [["f", 3.0]]}
    out = []
    for name, (mcs, spec) in specs.items():
        try:
            with warnings.catch_warnings():
                warnings.simplefilter("ignore")
                model = Model.create_class_from_megacomplexes(mcs)(**spec)
                parameters = Parameters.from_dict(pars)
                data = xr.DataArray(rng.normal(size=(len(time), len(pixel))), coords=[("time", time), ("pixel", pixel)]).to_dataset(name="data")
                scheme = Scheme(model=model, parameters=parameters, data={"d": data}, add_svd=False)
                opt = Optimizer(scheme, verbose=False, raise_exception=True)
                # what Optimizer.optimize does before it hands the objective to least_squares
                opt._free_parameter_labels, x0, _, _ = opt._parameters.get_label_value_and_bounds_arrays(exclude_non_vary=True)
                labels = list(opt._free_parameter_labels)
                x0 = np.asarray(x0, dtype=float)
                x1 = x0 * 1.1 + 0.01
                xbad = x0.copy()
                xbad[labels.index("k.1")] = -1e4  # non-finite concentrations: the evaluation raises
                f1 = np.array(opt.objective_function(x1.copy()), copy=True)
                f0 = np.array(opt.objective_function(x0.copy()), copy=True)
                bad = []
                for hist_name, hist in (("repeat", []), ("return", [x1]), ("raise_between", [xbad]), ("raise_then_other", [xbad, x1])):
                    raised = 0
                    for x in hist:
                        try:
                            opt.objective_function(x.copy())
                        except Exception:
                            raised += 1
                    try:
                        again = np.array(opt.objective_function(x0.copy()), copy=True)
                        same = again.shape == f0.shape and np.array_equal(again, f0)
                    except Exception as e:
                        same, again = False, repr(e)
                    if not same:
                        bad.append({"history": hist_name, "evaluations_that_raised": raised, "penalty_then": f0[:4].tolist(), "penalty_now": again[:4].tolist() if isinstance(again, np.ndarray) else again})
                opt2 = Optimizer(scheme, verbose=False, raise_exception=True)
                opt2._free_parameter_labels = list(labels)
                fresh = np.array(opt2.objective_function(x0.copy()), copy=True)
                if not np.array_equal(fresh, f0):
                    bad.append({"history": "fresh_optimizer"})
                # ... and at a point that is not the one the first optimizer evaluated last
                fresh1 = np.array(opt2.objective_function(x1.copy()), copy=True)
                if not np.array_equal(fresh1, f1):
                    bad.append({"history": "fresh_optimizer_at_another_point", "penalty_first_optimizer": f1[:4].tolist(), "penalty_fresh_optimizer": fresh1[:4].tolist()})
                # a second optimizer on *other* parameter values, created and evaluated while the first is alive
                caller_before = [(q.label, float(q.value), q.expression, q.vary) for q in parameters.all()]
                other = Parameters.from_dict({**pars, "k": [2.0, 0.9]})
                opt3 = Optimizer(Scheme(model=model, parameters=other, data={"d": data}, add_svd=False), verbose=False, raise_exception=True)
                opt3._free_parameter_labels = list(labels)
                opt3.objective_function(np.asarray(other.get_label_value_and_bounds_arrays(exclude_non_vary=True)[1], dtype=float))
                again = np.array(opt.objective_function(x0.copy()), copy=True)
                if not np.array_equal(again, f0):
                    bad.append({"history": "another_optimizer_alive_on_other_values", "penalty_then": f0[:4].tolist(), "penalty_now": again[:4].tolist()})
                if [(q.label, float(q.value), q.expression, q.vary) for q in parameters.all()] != caller_before:
                    bad.append({"history": "callers_parameters_changed_by_another_optimizer"})
            out.append({"name": "bounded_builtin_megacomplexes_penalty_at_a_point_independent_of_history", "ok": not bad, "case": name, "function": "glotaran.optimization.optimizer:Optimizer.objective_function", "witness": {"model": name, "x0": x0.tolist(), "failures": bad} if bad else None, "detail": "native histories on builtin megacomplexes (bounded stand-in)"})
        except Exception as e:
            import traceback

            out.append({"name": "bounded_builtin_megacomplexes_penalty_at_a_point_independent_of_history", "ok": False, "case": name, "function": "glotaran.optimization.optimizer:Optimizer.objective_function", "witness": {"model": name, "exception": repr(e), "trace": traceback.format_exc(limit=4)}, "detail": "the stand-in itself failed"})
    out.append(_failing_run_leaves_the_callers_parameters(DecayParallelMegacomplex, Model, Parameters, Scheme, rng, time, pixel))
    return out


def _failing_run_leaves_the_callers_parameters(DecayParallelMegacomplex, Model, Parameters, Scheme, rng, time, pixel):
    """B: an optimisation that fails after some good evaluations (raise_exception=False) and one that succeeds: the caller's
    parameters - free, fixed, fixed non-negative, expression - are bit for bit what they were, same objects, same flags."""
    import warnings

    import numpy as np
    import xarray as xr

    from glotaran.optimization.optimize import optimize

    name = "bounded_callers_parameters_unchanged_by_successful_and_failing_runs"
    fn = "glotaran.optimization.optimize:optimize"
    try:
        spec = {"megacomplex": {"m": {"type": "decay-parallel", "compartments": ["s1", "s2"], "rates": ["k.1", "k.2"]}}, "dataset": {"d": {"megacomplex": ["m"], "scale": "sc.1"}}}
        model = Model.create_class_from_megacomplexes([DecayParallelMegacomplex])(**spec)
        bad = []
        for failing in (False, True):
            parameters = Parameters.from_dict({"k": [0.6, ["2", 0.15, {"vary": False, "non-negative": True}]], "sc": [["1", 3.0, {"vary": False, "non-negative": True}]], "x": [["dbl", 0.0, {"expr": "$k.1 * 2"}], ["one", 1.0, {"vary": False, "non-negative": True}]]})
            data = xr.DataArray(rng.normal(size=(len(time), len(pixel))) + 5.0, coords=[("time", time), ("pixel", pixel)]).to_dataset(name="data")
            scheme = Scheme(model=model, parameters=parameters, data={"d": data}, add_svd=False, maximum_number_function_evaluations=6)
            before = [(q.label, repr(q.value), type(q.value).__name__, q.vary, q.non_negative, q.expression, repr(q.minimum), repr(q.maximum), id(q)) for q in parameters.all()]
            real = DecayParallelMegacomplex.calculate_matrix
            calls = {"n": 0}

            def faulty(self, *a, _real=real, **k):
                calls["n"] += 1
                if failing and calls["n"] == 4:
                    raise RuntimeError("injected")
                return _real(self, *a, **k)

            DecayParallelMegacomplex.calculate_matrix = faulty
            try:
                with warnings.catch_warnings():
                    warnings.simplefilter("ignore")
                    result = optimize(scheme, verbose=False, raise_exception=False)
            finally:
                DecayParallelMegacomplex.calculate_matrix = real
            after = [(q.label, repr(q.value), type(q.value).__name__, q.vary, q.non_negative, q.expression, repr(q.minimum), repr(q.maximum), id(q)) for q in scheme.parameters.all()]
            if after != before:
                bad.append({"run": "failing at the 4th evaluation" if failing else "successful", "changed": [(b_[0], b_[1:3], a_[1:3]) for b_, a_ in zip(before, after) if b_ != a_][:4]})
            if failing and result.success:
                bad.append({"run": "failing", "why": "the injected fault did not make the run fail (harness)"})
        return {"name": name, "ok": not bad, "case": "successful run / run failing at the 4th evaluation", "function": fn, "witness": {"failures": bad} if bad else None, "detail": "native optimize() on a builtin decay model with free, fixed, fixed non-negative and expression parameters (bounded stand-in)"}
    except Exception as e:
        import traceback

        return {"name": name, "ok": False, "case": "harness", "function": fn, "witness": {"exception": repr(e), "trace": traceback.format_exc(limit=4)}, "detail": "the stand-in itself failed"}


NonInterference.bounded_checks = _builtin_histories
