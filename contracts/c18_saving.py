"""C18 - saving never destroys existing files unless asked; project results accumulate."""
from __future__ import annotations

import ast
import inspect
import itertools
import os
import re
import tempfile
from pathlib import Path

from pyvc.contract import Contract, L, Raised

UTILS = "glotaran.plugin_system.io_plugin_utils"


class GhostFs:
    """Ghost file system: the facts the function asks for are fresh symbolic Booleans; mutations are logged."""

    def __init__(self, S):
        self.S = S
        self.facts = {}
        self.log = []

    def fact(self, name):
        if name not in self.facts:
            self.facts[name] = bool(self.S.bool(name))
        return self.facts[name]


def ghost_path_class(fs, target):
    class GhostPath:
        def __init__(self, p, role=None):
            self.p = str(p)
            self.role = role or ("target" if str(p) == target else "other")

        def resolve(self):
            return GhostPath(self.p, self.role)

        @property
        def parent(self):
            return GhostPath(os.path.dirname(self.p), self.role + ".parent")

        def is_file(self):
            return fs.fact(f"is_file[{self.role}]")

        def is_dir(self):
            if self.role == "target" and fs.facts.get("is_file[target]"):
                return False  # file system invariant: not both
            return fs.fact(f"is_dir[{self.role}]")

        def exists(self):
            return self.is_file() or self.is_dir()

        def mkdir(self, parents=False, exist_ok=False):
            fs.log.append(("mkdir", self.role, parents, exist_ok))

        def as_posix(self):
            return self.p

        def __fspath__(self):
            return self.p

        def __str__(self):
            return self.p

        def __repr__(self):
            return f"GhostPath({self.p!r})"

        def __getattr__(self, name):
            def mutate(*a, **k):
                fs.log.append((name, self.role))
                raise AssertionError(f"unexpected file system operation {name} on {self.role}")

            return mutate

    return GhostPath


class ProtectFromOverwrite(Contract):
    prop = "C18"
    name = "ProtectFromOverwrite"
    target = f"{UTILS}:protect_from_overwrite"
    modules = ()
    trusted = ("pathlib.Path / os.listdir replaced by a ghost file system whose facts (is_file, is_dir, listing non-empty, parent is a file) are arbitrary Booleans subject to 'not both file and directory'",)
    strength = "U"
    agreement_runs = 0

    def cases(self, tier):
        for allow in (False, True):
            yield {"allow_overwrite": allow}

    def build(self, S, case):
        return {"fs": GhostFs(S), "target": "/proj/out/result.yml"}

    def stubs_for(self, S, case, inp):
        fs, target = inp["fs"], inp["target"]
        GP = ghost_path_class(fs, target)

        class GhostOs:
            PathLike = os.PathLike

            @staticmethod
            def listdir(p):
                fs.log_listdir = True
                return ["x"] if fs.fact("listing_non_empty[target]") else []

            path = os.path

        return {f"{UTILS}:Path": GP, f"{UTILS}:os": GhostOs}

    modules = (UTILS,)

    def call(self, S, case, inp):
        from glotaran.plugin_system.io_plugin_utils import protect_from_overwrite

        return protect_from_overwrite(inp["target"], allow_overwrite=case["allow_overwrite"])

    def call_native(self, S, case, inp):
        # native replay on a real temporary directory built from the facts
        from glotaran.plugin_system.io_plugin_utils import protect_from_overwrite

        fs = inp["fs"]
        with tempfile.TemporaryDirectory() as d:
            parent = Path(d) / "out"
            target = parent / "result.yml"
            f = {k: bool(S.bool(k)) for k in ("is_file[target]", "is_dir[target]", "listing_non_empty[target]", "is_file[target.parent]")}
            fs.facts.update(f)
            if f["is_file[target.parent]"]:
                parent.write_text("x")
            else:
                if f["is_file[target]"] or f["is_dir[target]"]:
                    parent.mkdir()
                if f["is_file[target]"]:
                    target.write_text("keep")
                elif f["is_dir[target]"]:
                    target.mkdir()
                    if f["listing_non_empty[target]"]:
                        (target / "x").write_text("keep")
            before = sorted(str(p.relative_to(d)) + ":" + (p.read_text() if p.is_file() else "/") for p in Path(d).rglob("*"))
            try:
                protect_from_overwrite(target, allow_overwrite=case["allow_overwrite"])
                out = None
            except Exception as e:
                out = Raised(e)
            after = sorted(str(p.relative_to(d)) + ":" + (p.read_text() if p.is_file() else "/") for p in Path(d).rglob("*"))
            created = [x for x in after if x not in before]
            fs.log = [("mkdir", "target.parent", True, True)] if created == ["out:/"] else ([("changed", c) for c in created] + [("removed", b) for b in before if b not in after])
            if isinstance(out, Raised):
                raise out.exc
            return out

    def ensures(self, S, case, inp, out):
        fs = inp["fs"]
        f = fs.facts
        is_file = f.get("is_file[target]", False)
        is_dir = f.get("is_dir[target]", False) and not is_file
        nonempty = f.get("listing_non_empty[target]", False)
        must_raise = (not case["allow_overwrite"]) and (is_file or (is_dir and nonempty))
        if S.symbolic and not case["allow_overwrite"]:
            yield "existence_facts_are_consulted", "is_file[target]" in f and (is_file or "is_dir[target]" in f) and (not is_dir or "listing_non_empty[target]" in f)
        raised = isinstance(out, Raised)
        yield "raises_FileExistsError_iff_target_exists_and_overwrite_not_allowed", raised == must_raise and (not raised or isinstance(out.exc, FileExistsError))
        parent_is_file = f.get("is_file[target.parent]", False)
        allowed = [] if parent_is_file else [("mkdir", "target.parent", True, True)]
        yield "writes_nothing_except_creating_missing_parents", fs.log == allowed or fs.log == []
        if S.symbolic:
            yield "parents_created_unless_parent_is_a_file", fs.log == allowed


class SaveFunctionsProtectFirst(Contract):
    """Dominance: in every save_* function the protection call precedes everything else."""

    prop = "C18"
    name = "SaveFunctionsProtectFirst"
    target = "glotaran.plugin_system.project_io_registration:save_result"
    functions = (
        "glotaran.plugin_system.project_io_registration:save_model",
        "glotaran.plugin_system.project_io_registration:save_parameters",
        "glotaran.plugin_system.project_io_registration:save_scheme",
        "glotaran.plugin_system.project_io_registration:save_result",
        "glotaran.plugin_system.data_io_registration:save_dataset",
    )
    strength = "U"

    def cases(self, tier):
        return iter(())

    def static_obligations(self, tier):
        import types

        from glotaran.plugin_system import data_io_registration, project_io_registration

        res = []
        found = 0
        for mod in (project_io_registration, data_io_registration):
            tree = ast.parse(inspect.getsource(mod))
            fdefs = {n.name: n for n in tree.body if isinstance(n, ast.FunctionDef)}
            for fname, fn in inspect.getmembers(mod, inspect.isfunction):
                if not fname.startswith("save_") or fn.__module__ != mod.__name__:
                    continue
                found += 1
                fq = f"{mod.__name__}:{fname}"
                node = fdefs[fname]
                params = [a.arg for a in node.args.args]
                body = [st for st in node.body if not (isinstance(st, ast.Expr) and isinstance(getattr(st, "value", None), ast.Constant))]
                first = body[0]
                ok = (
                    isinstance(first, ast.Expr)
                    and isinstance(first.value, ast.Call)
                    and ast.unparse(first.value.func) == "protect_from_overwrite"
                    and len(first.value.args) == 1
                    and isinstance(first.value.args[0], ast.Name)
                    and first.value.args[0].id == params[1]
                    and [(k.arg, ast.unparse(k.value)) for k in first.value.keywords] == [("allow_overwrite", "allow_overwrite")]
                )
                res.append({"name": f"first_statement_is_protect_from_overwrite_of_target_with_callers_flag[{fname}]", "ok": ok, "detail": ast.unparse(first)[:120], "function": fq})
                # dynamic: order of effects with recording stubs, for both flags, unknown format, raising plugin
                for allow, scenario in itertools.product((False, True), ("ok", "exists", "unknown_format", "plugin_raises")):
                    log = []
                    saved = {}

                    def protect(path, *, allow_overwrite=False, _log=log, _sc=scenario):
                        _log.append(("protect", str(path), allow_overwrite))
                        if _sc == "exists" and not allow_overwrite:
                            raise FileExistsError("exists")

                    class Plug:
                        def __getattr__(self, meth, _log=log, _sc=scenario):
                            def f(*a, **k):
                                _log.append(("plugin", meth))
                                if _sc == "plugin_raises":
                                    raise RuntimeError("plugin failed midway")
                                return []

                            return f

                    def getter(fmt, _log=log, _sc=scenario):
                        _log.append(("lookup", fmt))
                        if _sc == "unknown_format":
                            raise ValueError("unknown format")
                        return Plug()

                    def infer(path, **kw):
                        log.append(("infer", str(path)))
                        return "fmt"

                    names = {"protect_from_overwrite": protect, "infer_file_format": infer}
                    for g in ("get_project_io", "get_data_io"):
                        if hasattr(mod, g):
                            names[g] = getter
                    for n, v in names.items():
                        saved[n] = getattr(mod, n)
                        setattr(mod, n, v)
                    try:
                        obj = types.SimpleNamespace(source_path=None, attrs={})
                        target = "/nonexistent/dir/target.fmt"
                        try:
                            fn(obj, target, allow_overwrite=allow)
                            exc = None
                        except Exception as e:
                            exc = e
                    finally:
                        for n, v in saved.items():
                            setattr(mod, n, v)
                    ok = bool(log) and log[0] == ("protect", target, allow)
                    if scenario == "exists" and not allow:
                        ok = ok and len(log) == 1 and isinstance(exc, FileExistsError)
                    if scenario == "unknown_format":
                        ok = ok and isinstance(exc, ValueError) and not any(e[0] == "plugin" for e in log)
                    if scenario == "plugin_raises" and not (scenario == "exists"):
                        ok = ok and isinstance(exc, RuntimeError)
                    ok = ok and all(e[0] != "protect" for e in log[1:])
                    res.append({"name": f"protection_precedes_lookup_and_plugin[{fname}]", "case": f"allow={allow},{scenario}", "ok": ok, "detail": str(log)[:200], "function": fq})
        res.append({"name": "all_save_functions_found", "ok": found >= 5, "detail": f"{found} save_* functions", "function": "plugin_system"})
        return res


class ProjectRegistriesAndRunNames(Contract):
    """Bounded stand-in (exhaustive finite enumeration on real temporary directories)."""

    prop = "C18"
    name = "ProjectRegistriesAndRunNames"
    target = "glotaran.project.project_result_registry:ProjectResultRegistry.create_result_run_name"
    functions = (
        "glotaran.project.project_result_registry:ProjectResultRegistry.previous_result_paths",
        "glotaran.project.project_result_registry:ProjectResultRegistry._latest_result_path_fallback",
        "glotaran.project.project_model_registry:ProjectModelRegistry.generate_model",
        "glotaran.project.project_parameter_registry:ProjectParameterRegistry.generate_parameters",
        "glotaran.project.project_data_registry:ProjectDataRegistry.import_data",
    )
    strength = "U"

    def cases(self, tier):
        return iter(())

    def bounded_checks(self, tier, seed):
        import warnings

        import numpy as np
        import xarray as xr

        from glotaran.project.project_data_registry import ProjectDataRegistry
        from glotaran.project.project_model_registry import ProjectModelRegistry
        from glotaran.project.project_parameter_registry import ProjectParameterRegistry
        from glotaran.project.project_result_registry import ProjectResultRegistry

        out = []
        # ---- run names over every subset of an alphabet of folder names
        alphabet = ["fit_run_0000", "fit_run_0001", "fit_run_0009", "fit_run_0001_run_0000", "fit_run_9999", "fit_run_10000", "fitx_run_0003", "fit_run_abc", "a.b_run_0002", "fit_run_0001_run_0004"]
        bases = ["fit", "fit_run_0001", "a.b", "new"]
        max_k = 4 if tier == "quick" else 6
        bad = None
        n = 0
        pat = {b: re.compile(re.escape(b) + r"_run_(\d+)") for b in bases}
        with tempfile.TemporaryDirectory() as d:
            for k in range(0, max_k + 1):
                for sub in itertools.combinations(alphabet, k):
                    root = Path(d) / f"p{n}"
                    reg = ProjectResultRegistry(root)
                    for name in sub:
                        (reg.directory / name).mkdir()
                    for b in bases:
                        n += 1
                        runs = sorted(int(m.group(1)) for m in (pat[b].fullmatch(x) for x in sub) if m)
                        try:
                            got = reg.create_result_run_name(b)
                        except Exception as e:
                            bad = bad or (sub, b, f"create_result_run_name raised {type(e).__name__}: {e}")
                            continue
                        want_nr = (runs[-1] + 1) if runs else 0
                        m = pat[b].fullmatch(got)
                        if not m or int(m.group(1)) != want_nr or got in sub or (want_nr < 10000 and got != f"{b}_run_{want_nr:04}"):
                            bad = bad or (sub, b, f"run name {got!r}, expected number {want_nr}")
                        with warnings.catch_warnings():
                            warnings.simplefilter("ignore")
                            try:
                                latest = reg._latest_result_path_fallback(b, latest=True).name
                            except ValueError:
                                latest = None
                        exact_dir = b if b in sub else None
                        if re.fullmatch(r".+_run_\d{4}", b):
                            want_latest = exact_dir
                        else:
                            want_latest = next((x for x in sub if pat[b].fullmatch(x) and int(pat[b].fullmatch(x).group(1)) == runs[-1]), None) if runs else None
                        if latest != want_latest and not (want_latest is None and latest is None):
                            bad = bad or (sub, b, f"latest result {latest!r}, expected {want_latest!r}")
                    if bad:
                        break
                if bad:
                    break
        out.append({"name": "bounded_run_names_fresh_increasing_and_latest_exact", "ok": bad is None, "case": f"{n} (listing, name) pairs: all subsets of size <= {max_k} of {len(alphabet)} folder names", "function": "ProjectResultRegistry", "witness": None if bad is None else {"listing": list(bad[0]), "name": bad[1], "why": bad[2]}, "detail": "exhaustive enumeration on real directories (bounded stand-in)"})

        # ---- the latest-result lookups of the Project facade: a name given with or without run suffix resolves to the most
        # recent run folder of exactly that result (never to another result's run, never to the results folder itself);
        # a result without any run is a ValueError
        from glotaran.project import Project

        bad2, n2 = None, 0
        with tempfile.TemporaryDirectory() as d:
            root = Path(d) / "proj"
            listing = ["test_run_0000", "test_run_0001", "test_run_0010", "testx_run_0000", "other_run_0003", "te_run_0007"]
            for nm in listing:
                (root / "results" / nm).mkdir(parents=True)
            with warnings.catch_warnings():
                warnings.simplefilter("ignore")
                proj = Project.open(root)
                proj._result_registry._loader = lambda path, *a, **k: path  # load_* then hand back the folder they resolved
                table = {"test": "test_run_0010", "test_run_0000": "test_run_0010", "test_run_0010": "test_run_0010", "testx": "testx_run_0000", "testx_run_0000": "testx_run_0000",
                         "other": "other_run_0003", "other_run_0003": "other_run_0003", "te": "te_run_0007", "nope": ValueError, "nope_run_0000": ValueError, "tes": ValueError}
                for name, want in table.items():
                    for fname in ("get_latest_result_path", "load_latest_result"):
                        n2 += 1
                        try:
                            got = getattr(proj, fname)(name)
                            got = Path(got).name if Path(got) != root / "results" else "<the results folder itself>"
                        except ValueError:
                            got = ValueError
                        except Exception as e:
                            got = repr(e)
                        if got != want:
                            bad2 = bad2 or {"listing": listing, "call": f"Project.{fname}({name!r})", "resolved": str(got), "expected": str(want)}
        out.append({"name": "bounded_project_latest_result_lookups_resolve_to_the_most_recent_run_of_that_result", "ok": bad2 is None and n2 > 0, "case": f"{n2} lookups with and without run suffix", "function": "glotaran.project.project:Project.get_latest_result_path", "witness": bad2, "detail": "decision table on a real project folder (bounded stand-in)"})

        # ---- item names with dots: `scan.v4` is its own item, not `scan` (the file of another item is never the target)
        bad3, n3 = None, 0
        ds0 = xr.Dataset({"data": (("time", "spectral"), np.ones((2, 2)))}, coords={"time": [0.0, 1.0], "spectral": [0.0, 1.0]})
        with tempfile.TemporaryDirectory() as d:
            for kind in ("data", "model"):
                for allow in (False, True):
                    n3 += 1
                    root = Path(d) / f"dn_{kind}_{allow}"
                    root.mkdir()
                    if kind == "data":
                        reg = ProjectDataRegistry(root)
                        other, mine = reg.directory / "scan.nc", reg.directory / "scan.v4.nc"
                        act = lambda: reg.import_data(ds0, dataset_name="scan.v4", allow_overwrite=allow, ignore_existing=False)  # noqa: E731
                    else:
                        reg = ProjectModelRegistry(root)
                        other, mine = reg.directory / "model.yml", reg.directory / "model.v3.yml"
                        act = lambda: reg.generate_model("model.v3", "decay_parallel", {"nr_compartments": 1, "irf": False}, allow_overwrite=allow, ignore_existing=False)  # noqa: E731
                    other.write_bytes(b"PRECIOUS")
                    try:
                        act()
                        exc = None
                    except Exception as e:
                        exc = e
                    if other.read_bytes() != b"PRECIOUS" or exc is not None or not mine.exists():
                        bad3 = bad3 or {"kind": kind, "allow_overwrite": allow, "other_item_kept": other.read_bytes() == b"PRECIOUS", "own_file_written": mine.exists(), "exception": repr(exc)}
        out.append({"name": "bounded_dotted_item_names_are_their_own_items", "ok": bad3 is None and n3 > 0, "case": f"{n3} imports / generations of `name.vN` next to an existing `name`", "function": "project registries", "witness": bad3, "detail": "decision table on real directories (bounded stand-in)"})

        # ---- generated / imported files: written only if absent or allow_overwrite; ignore_existing short-circuits
        bad = None
        n = 0
        from glotaran.project.generators.generator import GeneratorArguments  # noqa: F401

        class _M:
            def generate_parameters(self):
                from glotaran.parameter import Parameters

                return Parameters.from_dict({"g": [["a", 1.0], ["b", 2.0]]})

        ds = xr.Dataset({"data": (("time", "spectral"), np.ones((2, 2)))}, coords={"time": [0.0, 1.0], "spectral": [0.0, 1.0]})
        with tempfile.TemporaryDirectory() as d:
            # siblings: files of the same name in another format next to the target (the registries key items by
            # stem, so a sibling may own the plain name) - they must stay byte-identical whatever happens
            sibling_suffixes = {"model": ("yaml",), "parameters_csv": ("yml", "ods"), "parameters_yml": ("csv", "yaml"), "data": ("ascii",)}
            combos = [(k, e, a, i, ()) for k, e, a, i in itertools.product(("model", "parameters_csv", "parameters_yml", "data"), (False, True), (False, True), (False, True))]
            combos += [(k, e, a, i, (sfx,)) for k in sibling_suffixes for sfx in sibling_suffixes[k] for e, a, i in itertools.product((False, True), (False, True), (False, True))]
            for kind, exists, allow, ignore, siblings in combos:
                n += 1
                root = Path(d) / f"q{n}"
                root.mkdir()
                if kind == "model":
                    reg = ProjectModelRegistry(root)
                    target = reg.directory / "item.yml"
                    act = lambda: reg.generate_model("item", "decay_parallel", {"nr_compartments": 1, "irf": False}, allow_overwrite=allow, ignore_existing=ignore)  # noqa: E731
                elif kind.startswith("parameters"):
                    fmt = kind.split("_")[1]
                    reg = ProjectParameterRegistry(root)
                    target = reg.directory / f"item.{fmt}"
                    act = lambda: reg.generate_parameters(_M(), "item", format_name=fmt, allow_overwrite=allow, ignore_existing=ignore)  # noqa: E731
                else:
                    reg = ProjectDataRegistry(root)
                    target = reg.directory / "item.nc"
                    act = lambda: reg.import_data(ds, dataset_name="item", allow_overwrite=allow, ignore_existing=ignore)  # noqa: E731
                if exists:
                    target.write_bytes(b"PRECIOUS")
                sib = [target.with_suffix("." + sfx) for sfx in siblings]
                for f in sib:
                    f.write_bytes(b"SIBLING")
                try:
                    act()
                    exc = None
                except Exception as e:
                    exc = e
                content = target.read_bytes() if target.exists() else None
                if any((not f.exists()) or f.read_bytes() != b"SIBLING" for f in sib):
                    bad = bad or {"kind": kind, "exists": exists, "allow_overwrite": allow, "ignore_existing": ignore, "siblings": siblings, "why": "a file of the same name in another format was changed"}
                if exists and not allow:
                    ok = content == b"PRECIOUS" and ((exc is None) if ignore else isinstance(exc, FileExistsError))
                elif exists and allow:
                    ok = exc is None and (content == b"PRECIOUS" if (ignore and kind != "data") else content not in (None, b"PRECIOUS"))
                else:
                    ok = exc is None and content is not None
                if not ok:
                    bad = bad or {"kind": kind, "exists": exists, "allow_overwrite": allow, "ignore_existing": ignore, "siblings": siblings, "exception": repr(exc), "content_kept": content == b"PRECIOUS"}
        out.append({"name": "bounded_generated_and_imported_files_respect_existing_ones", "ok": bad is None, "case": f"{n} combinations of kind x exists x allow_overwrite x ignore_existing x same-name file of another format", "function": "project registries", "witness": bad, "detail": "exhaustive decision table on real directories (bounded stand-in)"})
        return out
