"""C20 - model validation is sound and complete for references.

ItemIssues      for every registered @item class: an instance with distinct labels in every reference
                position the *type annotations* declare; `label in model.<name>` and `parameters.has(label)`
                answer with fresh symbolic Booleans; the issue list holds a ModelItemIssue / ParameterIssue
                iff the corresponding Boolean is false - for every declared position, and nothing else.
MegacomplexRules exclusive / unique megacomplex issues iff the counting conditions; undefined labels tolerated.
Generated       bounded stand-in: generator models with every single reference / parameter removed in turn.
"""
from __future__ import annotations

import itertools
import typing
from types import NoneType, UnionType

import attrs

from pyvc.contract import Contract, L, Raised


def all_item_classes():
    import glotaran.builtin.megacomplexes.baseline  # noqa: F401
    import glotaran.builtin.megacomplexes.clp_guide  # noqa: F401
    import glotaran.builtin.megacomplexes.coherent_artifact  # noqa: F401
    import glotaran.builtin.megacomplexes.damped_oscillation  # noqa: F401
    import glotaran.builtin.megacomplexes.decay  # noqa: F401
    import glotaran.builtin.megacomplexes.pfid  # noqa: F401
    import glotaran.builtin.megacomplexes.spectral  # noqa: F401
    from glotaran.model.item import Item

    seen = []

    def walk(c):
        for s in c.__subclasses__():
            if s not in seen and s.__module__.startswith("glotaran."):
                seen.append(s)
            walk(s)

    walk(Item)
    out = {}
    for c in seen:
        try:
            attrs.fields(c)
        except Exception:
            continue
        out[f"{c.__module__.split('.')[-1]}.{c.__name__}"] = c
    return out


def classify(tp):
    """Independent of glotaran.model.item: (structure, kind) of an attribute type; kind in model/param/None."""
    from glotaran.model.item import ModelItem
    from glotaran.parameter import Parameter

    def strip_none(t):
        if typing.get_origin(t) in (typing.Union, UnionType):
            args = [a for a in typing.get_args(t) if a is not NoneType]
            if len(args) == 1:
                return args[0]
            if len(args) != len(typing.get_args(t)):
                return typing.Union[tuple(args)]
        return t

    t = strip_none(tp)
    struct = None
    org = typing.get_origin(t)
    if org is list:
        struct, t = "list", typing.get_args(t)[0]
    elif org is dict:
        struct, t = "dict", typing.get_args(t)[1]
    kind = None
    cands = typing.get_args(t) if typing.get_origin(t) in (typing.Union, UnionType) else (t,)
    if str in cands or len(cands) == 1:
        for c in cands:
            if c is Parameter:
                kind = "param"
            elif isinstance(c, type) and issubclass(c, ModelItem):
                kind = "model"
    if kind is not None and str not in cands:
        kind = None
    return struct, kind


def plain_value(f, size=2):
    if isinstance(f.default, attrs.Factory):
        return f.default.factory()
    if f.default is not attrs.NOTHING:
        return f.default
    t = f.type
    org = typing.get_origin(t)
    if t is str:
        return "txt"
    if t is bool:
        return False
    if t is int:
        return 1
    if t is float:
        return 1.0
    if org is list:
        a = typing.get_args(t)[0]
        return ["c1", "c2"][:size] if a is str else [(0.0, 1.0)]
    if org is typing.Literal:
        return typing.get_args(t)[0]
    return None


class GhostContainer:
    def __init__(self, facts, name, make_item):
        self.facts, self.name, self.make_item = facts, name, make_item

    def __contains__(self, label):
        return self.facts.ask(f"model:{self.name}:{label}")

    def __getitem__(self, label):
        if label not in self:
            raise KeyError(label)
        return self.make_item(self.name, label)

    def __len__(self):
        return 1

    def values(self):
        return []


class Facts:
    def __init__(self, S):
        self.S, self.asked = S, {}

    def ask(self, key):
        if key not in self.asked:
            self.asked[key] = bool(self.S.bool(key.replace(":", "__").replace(".", "_")))
        return self.asked[key]


class GhostModel:
    def __init__(self, facts, names):
        self._facts = facts
        self._c = {}
        self._names = names

    def __getattr__(self, name):
        if name.startswith("_"):
            raise AttributeError(name)
        if name not in self._c:
            self._c[name] = GhostContainer(self._facts, name, _stub_item)
        return self._c[name]


class _StubItem:
    def __init__(self, name, label):
        self.label, self.name = label, name
        self.type = "stub"

    __is_exclusive__ = False
    __is_unique__ = False


_LEAF = None


def _stub_item(name, label):
    """The item the ghost model holds under (container `name`, `label`): one leaf class per container, so
    that an item of another kind carrying the same label is distinguishable."""
    global _LEAF
    if name == "megacomplex":
        return _rule_classes()["plain"](label=label)
    if _LEAF is None:
        _LEAF = {}
    if name not in _LEAF:
        from glotaran.model.item import ModelItem, item

        _LEAF[name] = item(type(f"PyvcLeaf_{name}", (ModelItem,), {"__annotations__": {}, "__module__": __name__, "pyvc_container": name}))
    return _LEAF[name](label=label)


def _container_of(obj):
    if type(obj) is _rule_classes()["plain"]:
        return "megacomplex"
    return getattr(type(obj), "pyvc_container", None)


class GhostParameters:
    def __init__(self, facts):
        self.facts = facts

    def has(self, label):
        return self.facts.ask(f"param:{label}")

    def get(self, label):
        from glotaran.parameter import Parameter
        from glotaran.parameter.parameters import ParameterNotFoundException

        if not self.has(label):
            raise ParameterNotFoundException(label)
        return Parameter(label=label.replace(":", "_"), value=1.0)


def build_instance(cls, size=2, optional_set=True, shared=False, prefix=""):
    """An instance with distinct labels in every declared reference position (`shared`: items of different
    kinds carry the same labels - labels are unique per kind only)."""
    from glotaran.model.item import META_ALIAS

    kwargs, positions = {}, []
    for f in attrs.fields(cls):
        struct, kind = classify(f.type)
        if kind is None:
            v = plain_value(f, size)
            if v is None and f.default is attrs.NOTHING:
                return None, None
            kwargs[f.name] = v
            continue
        optional = f.default is None or (f.default is not attrs.NOTHING and not optional_set)
        if optional and not optional_set:
            kwargs[f.name] = f.default.factory() if isinstance(f.default, attrs.Factory) else f.default
            continue
        name = f.metadata.get(META_ALIAS, f.name) if kind == "model" else f.name
        labs = [f"{prefix}{'ref' if kind == 'model' else 'par'}.{f.name}.{i}" for i in range(size if struct else 1)]
        if shared and kind == "model":
            labs = [f"shared.{i}" for i in range(size if struct else 1)]
        if struct == "list":
            kwargs[f.name] = list(labs)
        elif struct == "dict":
            key0 = typing.get_args([a for a in (typing.get_args(f.type) or (f.type,))][0]) if False else None
            dkeys = [("c1", "c2"), ("c2", "c1")] if "tuple" in str(f.type) else ["c1", "c2"]
            kwargs[f.name] = {dkeys[i]: labs[i] for i in range(len(labs))}
        else:
            kwargs[f.name] = labs[0]
        for lab in labs:
            positions.append((kind, name, lab, f.name))
    try:
        inst = cls(**kwargs)
    except Exception:
        return None, None
    return inst, positions


class ItemIssues(Contract):
    prop = "C20"
    name = "ItemIssues"
    target = "glotaran.model.item:get_item_issues"
    functions = (
        "glotaran.model.item:get_item_model_issues",
        "glotaran.model.item:get_item_parameter_issues",
        "glotaran.model.item:get_item_validator_issues",
        "glotaran.model.item:iterate_names_and_labels",
        "glotaran.model.item:model_attributes",
        "glotaran.model.item:parameter_attributes",
        "glotaran.model.item:strip_type_and_structure_from_attribute",
        "glotaran.model.item:fill_item",
        "glotaran.model.item:fill_item_attributes",
        "glotaran.model.dataset_model:get_megacomplex_issues",
    )
    strength = "S"
    agreement_runs = 0
    max_paths = {"quick": 5000, "thorough": 40000}
    trusted = ("labels are opaque: the code only hashes and compares them (parametricity, stated)", "attrs / typing reflection executed for real")

    def cases(self, tier):
        for key, cls in sorted(all_item_classes().items()):
            for size in (1, 2):
                for opt in (True, False):
                    inst, pos = build_instance(cls, size, opt)
                    if inst is None or (not pos and (size, opt) != (1, True)):
                        continue
                    if len(pos) > (9 if tier == "quick" else 12):
                        continue
                    yield {"cls": key, "size": size, "optional_set": opt}
                    if opt and len({n for k, n, _, _ in pos if k == "model"}) > 1:
                        yield {"cls": key, "size": size, "optional_set": opt, "shared_labels": True}

    def build(self, S, case):
        cls = all_item_classes()[case["cls"]]
        inst, pos = build_instance(cls, case["size"], case["optional_set"], case.get("shared_labels", False))
        facts = Facts(S)
        return {"inst": inst, "pos": pos, "facts": facts, "model": GhostModel(facts, None), "params": GhostParameters(facts)}

    def call(self, S, case, inp):
        from glotaran.model.item import fill_item, get_item_issues

        issues = get_item_issues(item=inp["inst"], model=inp["model"], parameters=inp["params"])
        issues_no_params = get_item_issues(item=inp["inst"], model=inp["model"], parameters=None)
        filled = None
        if not issues:
            try:
                filled = fill_item(inp["inst"], inp["model"], inp["params"])
            except Exception as e:
                filled = Raised(e)
        return {"issues": issues, "no_params": issues_no_params, "filled": filled}

    def observe(self, out):
        return out if isinstance(out, Raised) else None

    def ensures(self, S, case, inp, out):
        from glotaran.model.item import ModelItemIssue, ParameterIssue

        if isinstance(out, Raised):
            yield "never_fails_with_an_internal_error", False
            return
        facts, pos = inp["facts"], inp["pos"]
        got_model = sorted((i._item_name, i._label) for i in out["issues"] if isinstance(i, ModelItemIssue))
        got_param = sorted(i._label for i in out["issues"] if isinstance(i, ParameterIssue))
        other = [i for i in out["issues"] if not isinstance(i, (ModelItemIssue, ParameterIssue))]
        want_model, want_param, unconsulted = [], [], []
        for kind, name, lab, attr in pos:
            key = f"model:{name}:{lab}" if kind == "model" else f"param:{lab}"
            if key not in facts.asked:
                unconsulted.append(key)
                defined = bool(S.bool(key.replace(":", "__").replace(".", "_"))) if not S.symbolic else None
                if defined is False:
                    (want_model if kind == "model" else want_param).append((name, lab) if kind == "model" else lab)
                continue
            if not facts.asked[key]:
                (want_model if kind == "model" else want_param).append((name, lab) if kind == "model" else lab)
        yield "every_declared_reference_position_is_checked", unconsulted == []
        yield "missing_model_item_issue_iff_label_undefined", got_model == sorted(want_model)
        yield "missing_parameter_issue_iff_parameter_undefined", got_param == sorted(want_param)
        yield "no_spurious_issue", other == []
        nm = sorted((i._item_name, i._label) for i in out["no_params"] if isinstance(i, ModelItemIssue))
        yield "without_parameters_only_model_issues", nm == got_model and not any(isinstance(i, ParameterIssue) for i in out["no_params"])
        if not out["issues"]:
            ok = out["filled"] is not None and not isinstance(out["filled"], Raised)
            yield "valid_item_can_be_filled_without_lookup_errors", ok
            if ok:
                # every reference is filled with the item of its own kind and label
                want, got = {}, {}
                for kind, name, lab, attr in pos:
                    if kind == "model":
                        want.setdefault(attr, []).append((name, lab))
                for attr in want:
                    v = getattr(out["filled"], attr)
                    objs = list(v.values()) if isinstance(v, dict) else list(v) if isinstance(v, (list, tuple)) else [v]
                    got[attr] = [(_container_of(o), getattr(o, "label", None)) for o in objs]
                yield "references_are_filled_with_the_item_of_their_own_kind_and_label", got == want


class MegacomplexRules(Contract):
    prop = "C20"
    name = "MegacomplexRules"
    target = "glotaran.model.dataset_model:get_megacomplex_issues"
    functions = ("glotaran.model.dataset_model:validate_megacomplexes", "glotaran.model.dataset_model:validate_global_megacomplexes", "glotaran.model.megacomplex:is_exclusive", "glotaran.model.megacomplex:is_unique")
    strength = "S"
    agreement_runs = 0

    KINDS = ("plain", "exclusive", "unique", "undefined")

    def cases(self, tier):
        for n in (1, 2, 3):
            for kinds in itertools.product(self.KINDS, repeat=n):
                yield {"kinds": kinds}

    def build(self, S, case):
        from glotaran.model import Megacomplex, megacomplex

        classes = _rule_classes()
        mcs = {}
        labels = []
        for i, k in enumerate(case["kinds"]):
            lab = f"m{i}"
            labels.append(lab)
            if k != "undefined":
                mcs[lab] = classes[k](label=lab)

        class M:
            megacomplex = mcs

        return {"labels": labels, "model": M(), "mcs": mcs}

    def call(self, S, case, inp):
        from glotaran.model.dataset_model import get_megacomplex_issues

        from glotaran.model.dataset_model import validate_global_megacomplexes, validate_megacomplexes

        out = {"issues": get_megacomplex_issues(inp["labels"], inp["model"], False), "none": get_megacomplex_issues(None, inp["model"], True)}
        # the validators of the two lists of a dataset: each list is judged on its own, whatever the other list holds
        labels = inp["labels"]
        for other_name, other in (("same", list(labels)), ("empty", []), ("first", labels[:1]), ("stranger", ["zz"])):
            class DM:
                megacomplex = other
                global_megacomplex = other

            out[f"global|{other_name}"] = validate_global_megacomplexes(list(labels), DM(), inp["model"], None)
            out[f"model|{other_name}"] = validate_megacomplexes(list(labels), DM(), inp["model"], None)
        out["global|none_value"] = validate_global_megacomplexes(None, DM(), inp["model"], None)
        return out

    def observe(self, out):
        return out if isinstance(out, Raised) else None

    def ensures(self, S, case, inp, out):
        from glotaran.model.dataset_model import ExclusiveMegacomplexIssue, UniqueMegacomplexIssue

        if isinstance(out, Raised):
            yield "never_fails_with_an_internal_error", False
            return
        kinds = case["kinds"]
        defined = [k for k in kinds if k != "undefined"]
        want_excl = sorted(f"m{i}" for i, k in enumerate(kinds) if k == "exclusive" and len(defined) > 1)
        want_uniq = sorted(f"m{i}" for i, k in enumerate(kinds) if k == "unique" and sum(1 for x in kinds if x == "unique") > 1)
        got_excl = sorted(i._label for i in out["issues"] if isinstance(i, ExclusiveMegacomplexIssue))
        got_uniq = sorted(i._label for i in out["issues"] if isinstance(i, UniqueMegacomplexIssue))
        yield "exclusive_issue_iff_combined_with_others", got_excl == want_excl
        yield "unique_issue_iff_used_more_than_once", got_uniq == want_uniq
        yield "nothing_else_reported", len(out["issues"]) == len(got_excl) + len(got_uniq) and out["none"] == []

        def sig(issues):
            return sorted((type(i).__name__, i._label) for i in issues)

        yield "each_list_of_a_dataset_is_judged_on_its_own", L.and_(*[sig(v) == sig(out["issues"]) for k, v in out.items() if "|" in k and k != "global|none_value"]) and out["global|none_value"] == []


_RULE_CLASSES = None


def _rule_classes():
    global _RULE_CLASSES
    if _RULE_CLASSES is None:
        import warnings

        from glotaran.model import Megacomplex, megacomplex

        with warnings.catch_warnings():
            warnings.simplefilter("ignore")

            @megacomplex()
            class PlainMc(Megacomplex):
                type: str = "pyvc-plain"

            @megacomplex(exclusive=True)
            class ExclMc(Megacomplex):
                type: str = "pyvc-exclusive"

            @megacomplex(unique=True)
            class UniqMc(Megacomplex):
                type: str = "pyvc-unique"

        _RULE_CLASSES = {"plain": PlainMc, "exclusive": ExclMc, "unique": UniqMc}
    return _RULE_CLASSES


class AttributeValidators(Contract):
    """Size validators of the damped-oscillation and pfid megacomplexes: an issue iff the three lists differ in length,
    and a megacomplex that validates can be evaluated (no shape error)."""

    prop = "C20"
    name = "AttributeValidators"
    target = "glotaran.builtin.megacomplexes.damped_oscillation.damped_oscillation_megacomplex:validate_oscillation_parameter"
    functions = ("glotaran.builtin.megacomplexes.pfid.pfid_megacomplex:validate_pfid_parameter", "glotaran.model.item:get_item_validator_issues")
    strength = "S"
    agreement_runs = 0

    def cases(self, tier):
        for kind in ("damped-oscillation", "pfid"):
            for sizes in itertools.product((1, 2, 3), repeat=3):
                yield {"kind": kind, "sizes": sizes}

    def build(self, S, case):
        from glotaran.builtin.megacomplexes.damped_oscillation import DampedOscillationMegacomplex
        from glotaran.builtin.megacomplexes.pfid import PFIDMegacomplex

        nl, nf, nr = case["sizes"]
        cls = PFIDMegacomplex if case["kind"] == "pfid" else DampedOscillationMegacomplex
        mc = cls(label="mc", labels=[f"o{i}" for i in range(nl)], frequencies=[f"f.{i}" for i in range(nf)], rates=[f"r.{i}" for i in range(nr)])
        return {"mc": mc}

    def call(self, S, case, inp):
        from glotaran.model.item import get_item_validator_issues

        return get_item_validator_issues(inp["mc"], None, None)

    def observe(self, out):
        return out if isinstance(out, Raised) else len(out)

    def ensures(self, S, case, inp, out):
        if isinstance(out, Raised):
            yield "never_fails_with_an_internal_error", False
            return
        nl, nf, nr = case["sizes"]
        consistent = nl == nf == nr
        yield "size_issue_iff_the_three_lists_differ_in_length", (len(out) == 0) == consistent and len(out) <= 1
        if out:
            text = out[0].to_string()
            yield "issue_names_the_three_sizes", f"labels ({nl})" in text and f"frequencies ({nf})" in text and f"rates ({nr})" in text


class Generated(Contract):
    prop = "C20"
    name = "Generated"
    target = "glotaran.model.model:Model.validate"
    functions = ("glotaran.model.model:Model.get_issues", "glotaran.model.model:Model.valid", "glotaran.model.model:Model.get_parameter_labels", "glotaran.model.model:Model.generate_parameters", "glotaran.project.scheme:Scheme.valid")
    strength = "S"

    def cases(self, tier):
        return iter(())

    def bounded_checks(self, tier, seed):
        import copy

        from glotaran.builtin.megacomplexes.decay import DecayParallelMegacomplex, DecaySequentialMegacomplex
        from glotaran.builtin.megacomplexes.spectral import SpectralMegacomplex
        from glotaran.model import Model
        from glotaran.model.item import fill_item
        from glotaran.parameter import Parameters
        from glotaran.project.generators.generator import generators

        M = Model.create_class_from_megacomplexes([DecayParallelMegacomplex, DecaySequentialMegacomplex, SpectralMegacomplex])
        out = []
        bad = None
        n = 0

        def refs(d, path=()):
            """(path, value) of every string leaf that names a model item or parameter."""
            if isinstance(d, dict):
                for k, v in d.items():
                    yield from refs(v, path + (k,))
            elif isinstance(d, list):
                for i, v in enumerate(d):
                    yield from refs(v, path + (i,))
            elif isinstance(d, str):
                yield path, d

        def setp(d, path, value):
            for p in path[:-1]:
                d = d[p]
            d[path[-1]] = value

        for gname, gen in generators.items():
            for nc in (1, 2, 3):
                for irf in (False, True):
                    spec = gen(nr_compartments=nc, irf=irf)
                    model = M(**copy.deepcopy(spec))
                    params = model.generate_parameters()
                    n += 1
                    try:
                        if model.get_issues(parameters=params) or not model.valid(params):
                            bad = bad or (gname, nc, irf, "generated model + generated parameters report issues")
                        for lab, dm in model.dataset.items():
                            fill_item(dm, model, params)
                    except Exception as e:
                        bad = bad or (gname, nc, irf, f"valid model raised {type(e).__name__}: {e}")
                    # every parameter removed in turn
                    labels = sorted(model.get_parameter_labels())
                    for lab in labels:
                        n += 1
                        p2 = Parameters({k: v for k, v in params._parameters.items() if k != lab})
                        try:
                            iss = [i.to_string() for i in model.get_issues(parameters=p2)]
                        except Exception as e:
                            bad = bad or (gname, nc, irf, f"removing parameter {lab} raised {type(e).__name__}: {e}")
                            continue
                        if not any(f"'{lab}'" in s for s in iss):
                            bad = bad or (gname, nc, irf, f"removed parameter {lab} not reported")
                    # every model-item reference misspelled in turn (leaves of dataset / megacomplex entries that name items)
                    item_names = {k for k, v in spec.items() if isinstance(v, dict)}
                    known_labels = {lab for k in item_names for lab in spec[k]}
                    for path, val in refs(spec):
                        if val not in known_labels or path[-1] in ("type",) or len(path) < 3:
                            continue
                        n += 1
                        s2 = copy.deepcopy(spec)
                        setp(s2, path, val + "_typo")
                        try:
                            m2 = M(**s2)
                            iss = [i.to_string() for i in m2.get_issues(parameters=params)]
                            m2.validate(params)
                        except Exception as e:
                            bad = bad or (gname, nc, irf, f"misspelled reference {path} raised {type(e).__name__}: {e}")
                            continue
                        if not any(f"'{val}_typo'" in s for s in iss):
                            bad = bad or (gname, nc, irf, f"misspelled reference {'/'.join(map(str, path))} = {val}_typo not reported: {iss}")
        out.append(self._mixed_kinds())
        out.append(self._scheme_validity_follows_edits(M, generators))
        out.append({"name": "bounded_generator_models_single_reference_or_parameter_removed", "ok": bad is None, "case": f"{n} model/parameter variants of the generator models", "function": "Model.get_issues", "witness": None if bad is None else {"generator": bad[0], "compartments": bad[1], "irf": bad[2], "why": bad[3]}, "detail": "bounded stand-in: every generator model, each reference misspelled / parameter removed in turn"})
        return out

    def _mixed_kinds(self):
        """B: label collection and parameter generation for containers holding items of different classes, in both
        orders (a container's items are heterogeneous: decay next to damped-oscillation, `one` next to `gaussian`)."""
        from glotaran.model import Model
        from glotaran.model.clp_constraint import ClpConstraint
        from glotaran.model.clp_penalties import ClpPenalty
        from glotaran.model.clp_relation import ClpRelation
        from glotaran.model.item import ParameterIssue
        from glotaran.model.megacomplex import Megacomplex
        from glotaran.model.weight import Weight

        cl = all_item_classes()
        mcs = [c for c in cl.values() if issubclass(c, Megacomplex) and c is not Megacomplex]
        M = Model.create_class_from_megacomplexes(mcs)
        import glotaran.builtin.megacomplexes.decay.irf as irf_mod
        import glotaran.builtin.megacomplexes.spectral.shape as shape_mod
        from glotaran.builtin.megacomplexes.decay.initial_concentration import InitialConcentration
        from glotaran.builtin.megacomplexes.decay.k_matrix import KMatrix

        fams = {
            "megacomplex": ("dict", [c for c in mcs]),
            "irf": ("dict", [c for c in cl.values() if issubclass(c, irf_mod.Irf) and c is not irf_mod.Irf]),
            "shape": ("dict", [c for c in cl.values() if issubclass(c, shape_mod.SpectralShape) and c is not shape_mod.SpectralShape]),
            "k_matrix": ("dict", [KMatrix]),
            "initial_concentration": ("dict", [InitialConcentration]),
            "clp_penalties": ("list", [c for c in cl.values() if issubclass(c, ClpPenalty) and c is not ClpPenalty]),
            "clp_constraints": ("list", [c for c in cl.values() if issubclass(c, ClpConstraint) and c is not ClpConstraint]),
            "clp_relations": ("list", [ClpRelation]),
            "weights": ("list", [Weight]),
        }
        bad, n = None, 0
        for cont, (struct, classes) in fams.items():
            for A in classes:
                for B in classes:
                    a, pa = build_instance(A, prefix="a_")
                    b, pb = build_instance(B, prefix="b_")
                    if a is None or b is None:
                        continue
                    if struct == "dict":
                        a, b = attrs.evolve(a, label="a"), attrs.evolve(b, label="b")
                    # a parameter-bearing container of another kind next to it
                    km, pk = build_instance(KMatrix, prefix="k_")
                    kw = {cont: {"a": a, "b": b} if struct == "dict" else [a, b]}
                    if cont != "k_matrix":
                        kw["k_matrix"] = {"k": attrs.evolve(km, label="k")}
                    else:
                        pk = []
                    want = {lab for kind, _, lab, _ in pa + pb + pk if kind == "param"}
                    n += 1
                    try:
                        m = M(**kw)
                        got = set(m.get_parameter_labels())
                        params = m.generate_parameters()
                        missing = [i.to_string() for i in m.get_issues(parameters=params) if isinstance(i, ParameterIssue)]
                    except Exception as e:
                        bad = bad or (cont, A.__name__, B.__name__, f"raised {type(e).__name__}: {e}")
                        continue
                    if got != want:
                        bad = bad or (cont, A.__name__, B.__name__, f"get_parameter_labels misses {sorted(want - got)} / invents {sorted(got - want)}")
                    elif missing:
                        bad = bad or (cont, A.__name__, B.__name__, f"generated parameters leave issues: {missing[:3]}")
        return {"name": "bounded_parameter_labels_complete_for_mixed_item_classes_in_any_order", "ok": bad is None and n > 0, "case": f"{n} ordered pairs of item classes per container", "function": "Model.get_parameter_labels", "witness": None if bad is None else {"container": bad[0], "first": bad[1], "second": bad[2], "why": bad[3]}, "detail": "bounded stand-in: every ordered pair of builtin item classes of a container, labels distinct per item"}

    def _scheme_validity_follows_edits(self, M, generators):
        """B: `Scheme.valid()` / `Scheme.validate()` answer for the model and parameters *as they are now*: valid, then a
        reference misspelled in place (invalid), then repaired (valid), then a parameter removed from a fresh parameter
        set - on one Scheme object, compared with `Model.valid` / `Model.get_issues` at every step."""
        import copy

        import xarray as xr

        from glotaran.parameter import Parameters
        from glotaran.project import Scheme

        bad, n = None, 0
        for gname, gen in generators.items():
            spec = gen(nr_compartments=2, irf=True)
            model = M(**copy.deepcopy(spec))
            params = model.generate_parameters()
            scheme = Scheme(model=model, parameters=params, data={lab: xr.Dataset() for lab in model.dataset})
            dm = next(iter(model.dataset.values()))
            good = list(dm.megacomplex)
            steps = []

            def step(name):
                nonlocal bad, n
                n += 1
                want = model.valid(scheme.parameters)
                got = scheme.valid()
                text_ok = ("Your model is valid." in str(scheme.validate())) == want
                steps.append((name, got, want))
                if got != want or not text_ok:
                    bad = bad or (gname, f"after {name}: Scheme.valid() = {got}, validate() says valid = {text_ok == want and want}, Model.valid = {want}; history {steps}")

            step("construction")
            dm.megacomplex[0] = good[0] + "_typo"
            step("megacomplex reference misspelled in place")
            dm.megacomplex[0] = good[0]
            step("reference repaired in place")
            labels = sorted(model.get_parameter_labels())
            scheme.parameters = Parameters({k: v for k, v in params._parameters.items() if k != labels[0]})
            step("a parameter removed")
            scheme.parameters = params
            step("parameters restored")
            if steps and [w for _, _, w in steps] != [True, False, True, False, True]:
                bad = bad or (gname, f"harness: the edits did not change validity as intended: {steps}")
        return {"name": "bounded_scheme_validity_answers_for_the_current_model_and_parameters", "ok": bad is None and n > 0, "case": f"{n} validity questions on {len(generators)} schemes edited in place", "function": "glotaran.project.scheme:Scheme.valid", "witness": None if bad is None else {"generator": bad[0], "why": bad[1]}, "detail": "bounded stand-in: histories of in-place edits on one Scheme object"}
