"""C13 - fit statistics are consistent with each other and with the reported data."""
from __future__ import annotations

import numpy as np

from contracts import configs, harness
from contracts.c02_objective import Objective, compare_solves, ref_penalties
from contracts.c03_results import ResultData, cell, final_entries
from contracts.pipeline import PIPE_MODS, TRUSTED_PIPE, flat, run_optimizer
from pyvc import shim
from pyvc.contract import Contract, L, Raised
from pyvc.sym import SArr, SymReal

EPS = float(np.finfo(float).eps)


def svd_stub(a, full_matrices=True, **kw):
    """Contract of numpy.linalg.svd(J, full_matrices=False): J = U diag(s) Vt, s >= 0 descending,
    rows of Vt orthonormal.  U is not used by the code under contract and is not constructed."""
    S = harness.CURRENT["S"]
    n, p = a.shape
    k = min(n, p)
    s = np.empty(k, dtype=object)
    vt = np.empty((k, p), dtype=object)
    for i in range(k):
        s[i] = S.named(f"sv_{i}")
        S.require(L.ge(s[i], 0), "singular values non-negative")
        if i:
            S.require(L.ge(s[i - 1], s[i]), "singular values descending")
        for j in range(p):
            vt[i, j] = S.named(f"vt_{i}_{j}")
    # orthonormality of the rows of Vt is part of numpy's contract but no obligation below needs it
    # (it only enters the trusted pseudo-inverse fact), so it is not asserted: fewer hypotheses, same proofs
    return None, s.view(SArr), vt.view(SArr)


class Statistics(Contract):
    prop = "C13"
    name = "Statistics"
    target = "glotaran.optimization.optimizer:Optimizer.create_result"
    functions = ResultData.functions + (
        "glotaran.optimization.optimizer:Optimizer.calculate_covariance_matrix_and_standard_errors",
        "glotaran.optimization.matrix_provider:MatrixProviderUnlinked.number_of_clps",
        "glotaran.optimization.matrix_provider:MatrixProviderLinked.number_of_clps",
        "glotaran.optimization.optimization_group:OptimizationGroup.number_of_clps",
    )
    modules = PIPE_MODS + ("glotaran.project.result",)
    trusted = TRUSTED_PIPE + (
        "numpy.linalg.svd(J, full_matrices=False) replaced by its contract: s >= 0 descending, rows of Vt orthonormal (J = U diag(s) Vt)",
        "that C = V diag(1/s^2 for s^2 > eps, else 0) V^T (obligation covariance_is_sum_of_retained_singular_directions) is the symmetric Moore-Penrose pseudo-inverse of J^T J = V diag(s^2) V^T - all four Penrose conditions - whenever the singular values cut off are zero (in general: of the truncated V diag(retained s^2) V^T) is the Lean development lemmas/PseudoInverse.lean (gram_of_svd, penrose_conditions, cutoff_inverse_conditions; every size; re-checked every run)",
    )
    strength = "S"
    agreement_runs = 0
    native_refutation = True  # sqrt obligations the solvers leave open are attacked by sampled inputs (sums, products, sqrt: benign in floats)
    max_paths = {"quick": 600, "thorough": 3000}
    not_decided = ("that least_squares terminates successfully (T on scipy)",)

    def cases(self, tier):
        for cfg in configs.configs(tier):
            nfree = sum(int(ds.scale) + (len(ds.megacomplexes) + len(ds.global_megacomplexes)) * int(ds.mc_scales) for ds in cfg.datasets) + len(cfg.relations) + len(cfg.penalties)
            if nfree > (3 if tier == "quick" else 4) or cfg.name == "labels_concatenations_coincide":
                continue
            yield {"cfg": cfg.name, "_cfg": cfg}

    def case_id(self, case):
        return f"cfg={case['cfg']}"

    def build(self, S, case):
        return harness.build(S, case["_cfg"])

    def call(self, S, case, b):
        shim.LINALG_HOOKS["svd"] = svd_stub
        try:
            # one further evaluation after the returned point: the result must describe the returned point, not the last call
            return run_optimizer(S, b, S.symbolic, create_result=True, jac=True, post_evals=1)
        finally:
            shim.LINALG_HOOKS.pop("svd", None)

    def observe(self, out):
        return out if isinstance(out, Raised) else None

    def ensures(self, S, case, b, out):
        harness.CURRENT["S"] = b.S
        if isinstance(out, Raised):
            from contracts.pipeline import dof_precondition_violated

            if dof_precondition_violated(b, out):
                yield "outside_precondition_degrees_of_freedom_zero", True
                return
            yield "no_exception", False
            return
        ref = harness.Ref(b)
        cfg = b.cfg
        res = out.result
        opt = out.optimizer
        # reference counts
        n_data = sum(len(ds.model_axis) * len(ds.global_axis) for ds in cfg.datasets)
        n_pen = 0
        n_clps = 0
        entries_of, _ = final_entries(out, ref)
        pens_ref = []
        for gi, gname in enumerate(out.group_names):
            rs = ref.solves(gname)
            for r in rs:
                n_clps += len(r["labels"])
            obl, retrieved = compare_solves(rs, entries_of[gname], out.snap[gi], None)
            pens = ref_penalties(b, rs, retrieved, ref.is_linked(gname), ref.group_datasets(gname))
            pens_ref.append(pens)
            n_pen += len(pens)
        fun = flat(opt._optimization_result.fun)
        yield "success", res.success is True
        yield "number_of_residuals_counts_data_points_and_penalties", res.number_of_residuals == n_data + n_pen and len(fun) == n_data + n_pen
        yield "number_of_clps_counts_reduced_labels_per_index", res.number_of_clps == n_clps
        nfree = len(res.free_parameter_labels)
        yield "number_of_free_parameters", res.number_of_free_parameters == nfree and nfree == sum(1 for p in b.parameters.all() if p.vary and p.expression is None)
        dof = n_data + n_pen - nfree - n_clps
        yield "degrees_of_freedom", res.degrees_of_freedom == dof
        chi = L.sum([f * f for f in fun])
        yield "chi_square_is_sum_of_squared_penalty_entries", L.eq(res.chi_square, chi)
        # ... and equals what the reported datasets and penalties say
        tot = 0
        for ds in cfg.datasets:
            rd = res.data[ds.label]
            var = "weighted_residual" if "weighted_residual" in rd else "residual"
            for m in range(len(ds.model_axis)):
                for g in range(len(ds.global_axis)):
                    v = cell(rd[var], time=m, spectral=g)
                    tot = tot + v * v
        addp = [x for grp in res.additional_penalty for x in flat(grp)]
        for x in addp:
            tot = tot + x * x
        yield "chi_square_equals_reported_weighted_residuals_and_penalties", L.eq(res.chi_square, tot)
        yield "additional_penalty_per_group", L.and_(
            len(res.additional_penalty) == len(out.group_names),
            all(len(flat(grp)) == len(pr) for grp, pr in zip(res.additional_penalty, pens_ref)),
            *[L.eq(a, c) for grp, pr in zip(res.additional_penalty, pens_ref) for a, c in zip(flat(grp), pr)],
        )
        yield "cost_is_half_chi_square", L.eq(res.cost * 2, res.chi_square)
        yield "reduced_chi_square", L.eq(res.reduced_chi_square * dof, res.chi_square)
        rm = res.root_mean_square_error
        yield "rmse_is_sqrt_of_reduced_chi_square", L.eq(rm, L.fn("sqrt", res.reduced_chi_square)) if isinstance(res.reduced_chi_square, (float, SymReal)) else False
        # per-dataset rmse attributes
        for ds in cfg.datasets:
            rd = res.data[ds.label]
            size = len(ds.model_axis) * len(ds.global_axis)
            ss = L.sum([cell(rd["residual"], time=m, spectral=g) ** 2 for m in range(len(ds.model_axis)) for g in range(len(ds.global_axis))])
            yield f"dataset_rmse[{ds.label}]", L.eq(_item(rd.attrs["root_mean_square_error"]), L.fn("sqrt", ss / size))
            if "weighted_residual" in rd:
                ws = L.sum([cell(rd["weighted_residual"], time=m, spectral=g) ** 2 for m in range(len(ds.model_axis)) for g in range(len(ds.global_axis))])
                yield f"dataset_weighted_rmse[{ds.label}]", L.eq(_item(rd.attrs["weighted_root_mean_square_error"]), L.fn("sqrt", ws / size))
            else:
                yield f"dataset_weighted_rmse[{ds.label}]", L.eq(_item(rd.attrs["weighted_root_mean_square_error"]), _item(rd.attrs["root_mean_square_error"]))
        # covariance: sum over retained singular directions, symmetric, positive semi-definite
        cov = np.asarray(res.covariance_matrix, dtype=object)
        yield "covariance_shape", tuple(cov.shape) == (nfree, nfree)
        if tuple(cov.shape) != (nfree, nfree):
            return
        k = min(len(fun), nfree)
        s = [b.S.named(f"sv_{i}") for i in range(k)] if S.symbolic else None
        if S.symbolic:
            vt = [[b.S.named(f"vt_{i}_{j}") for j in range(nfree)] for i in range(k)]
            keep = [b_ for b_ in [sym_decide(s[i] * s[i] > EPS) for i in range(k)]]
            rec = [1.0 / (s[i] * s[i]) if keep[i] else 0.0 for i in range(k)]
            want = [[L.sum([vt[i][a] * vt[i][c] * rec[i] for i in range(k) if keep[i]]) if any(keep) else 0.0 for c in range(nfree)] for a in range(nfree)]
            yield "covariance_is_sum_of_retained_singular_directions", L.and_(*[L.eq(cov[a, c], want[a][c]) for a in range(nfree) for c in range(nfree)])
            # positive semi-definite: x^T C x is a sum of squares (v_i . x)^2 / s_i^2 over the retained directions
            x = [b.S.S.real(f"psd_x_{a}") if f"psd_x_{a}" not in b.S.S.symbols else b.S.S.symbols[f"psd_x_{a}"] for a in range(nfree)]
            quad = L.sum([x[a] * want[a][c] * x[c] for a in range(nfree) for c in range(nfree)])
            ys = [L.sum([vt[i][a] * x[a] for a in range(nfree)]) for i in range(k)]
            sos = L.sum([rec[i] * ys[i] * ys[i] for i in range(k) if keep[i]]) if any(keep) else 0.0
            yield "covariance_quadratic_form_is_sum_of_squares", L.eq(quad, sos)
            yield "covariance_sum_of_squares_terms_non_negative", L.and_(*[L.ge(rec[i], 0) for i in range(k) if keep[i]])
        yield "covariance_symmetric", L.and_(*[L.eq(cov[a, c], cov[c, a]) for a in range(nfree) for c in range(a + 1, nfree)])
        # standard errors: rmse * sqrt(diag) written to the parameter of the same position
        for i, label in enumerate(res.free_parameter_labels):
            par = res.optimized_parameters.get(label)
            if not par.non_negative:
                yield f"standard_error_of_label_at_its_position[{label}]", L.eq(par.standard_error, rm * L.fn("sqrt", cov[i, i]))


def _item(v):
    return v.item() if hasattr(v, "item") and not isinstance(v, (float, SymReal)) else v


def sym_decide(cond):
    from pyvc import sym

    return sym.CUR.decide(cond)


class PseudoInverseLemma(Contract):
    """The mathematics between `covariance_is_sum_of_retained_singular_directions` and "the covariance matrix is
    the symmetric positive semi-definite pseudo-inverse of J^T J": proved in Lean 4 + Mathlib for every size and
    re-checked by `lean` on every run (`lemmas/PseudoInverse.lean`)."""

    prop = "C13"
    name = "PseudoInverseLemma"
    lemma_files = (__import__("pathlib").Path(__file__).resolve().parent.parent / "lemmas" / "PseudoInverse.lean",)
    target = None
    strength = "U"
    trusted = ("Lean 4.33 kernel and Mathlib (Matrix, diagonal, transpose); axioms propext, Classical.choice, Quot.sound",)

    def cases(self, tier):
        return iter(())

    def static_obligations(self, tier):
        from pathlib import Path

        from pyvc.lean import check_lemmas

        return check_lemmas(
            Path(__file__).resolve().parent.parent / "lemmas" / "PseudoInverse.lean",
            {
                "PyVC.gram_of_svd": "lemma_gram_matrix_of_the_svd_is_V_diag_s2_Vt",
                "PyVC.penrose_conditions": "lemma_four_penrose_conditions_and_symmetry_for_all_sizes",
                "PyVC.cutoff_inverse_conditions": "lemma_cutoff_reciprocals_satisfy_the_penrose_hypotheses",
            },
        )


from contracts.common import FunctionAxiomsBase  # noqa: E402


class FunctionAxioms(FunctionAxiomsBase):
    abstract = False
    prop = "C13"


def _big_sweep(self, tier, seed):
    from contracts.big_configs import pipeline_sweep

    return pipeline_sweep(self, tier, seed)


Statistics.bounded_checks = _big_sweep


def _zero_weight_points(self, tier, seed):
    """B: data points whose weight is exactly zero are data points: number_of_residuals counts every point once, and the
    degrees of freedom, reduced chi-square and RMSE follow from it (native optimize on a builtin decay model, part of the
    dataset weighted to zero through the dataset weight or a model weight)."""
    import warnings

    import numpy as np
    import xarray as xr

    from glotaran.builtin.megacomplexes.decay import DecayParallelMegacomplex
    from glotaran.model import Model
    from glotaran.optimization.optimize import optimize
    from glotaran.parameter import Parameters
    from glotaran.project import Scheme

    rng = np.random.default_rng(seed)
    time, pixel = np.arange(0.0, 10.0, 0.5), np.arange(4.0)
    out = []
    for how in ("dataset_weight", "model_weight"):
        name = "bounded_zero_weighted_points_are_counted_as_data_points"
        try:
            spec = {"megacomplex": {"m": {"type": "decay-parallel", "compartments": ["s1", "s2"], "rates": ["k.1", "k.2"]}}, "dataset": {"d": {"megacomplex": ["m"]}}}
            if how == "model_weight":
                spec["weights"] = [{"datasets": ["d"], "model_interval": [0.0, 1.0], "value": 0.0}]
            model = Model.create_class_from_megacomplexes([DecayParallelMegacomplex])(**spec)
            data = xr.DataArray(rng.normal(size=(len(time), len(pixel))) + 3.0, coords=[("time", time), ("pixel", pixel)]).to_dataset(name="data")
            if how == "dataset_weight":
                w = np.ones((len(time), len(pixel)))
                w[:3, :] = 0.0
                w[5, 1] = 0.5
                data["weight"] = (("time", "pixel"), w)
            scheme = Scheme(model=model, parameters=Parameters.from_dict({"k": [0.6, 0.15]}), data={"d": data}, add_svd=False, maximum_number_function_evaluations=3)
            with warnings.catch_warnings(), np.errstate(all="ignore"):
                warnings.simplefilter("ignore")
                r = optimize(scheme, verbose=False, raise_exception=True)
            n_data, n_clps, n_free = len(time) * len(pixel), 2 * len(pixel), 2
            dof = n_data - n_free - n_clps
            ok = r.number_of_residuals == n_data and r.number_of_clps == n_clps and r.degrees_of_freedom == dof and abs(r.reduced_chi_square * dof - r.chi_square) <= 1e-9 * max(1.0, r.chi_square) and abs(r.root_mean_square_error**2 - r.reduced_chi_square) <= 1e-9 * max(1.0, r.reduced_chi_square) and r.jacobian.shape[0] == n_data
            wit = None if ok else {"weights_through": how, "number_of_residuals": int(r.number_of_residuals), "data_points": n_data, "degrees_of_freedom": int(r.degrees_of_freedom), "expected_degrees_of_freedom": dof, "jacobian_rows": int(r.jacobian.shape[0])}
        except Exception as e:
            ok, wit = False, {"weights_through": how, "exception": repr(e)}
        out.append({"name": name, "ok": ok, "case": how, "function": "glotaran.optimization.optimizer:Optimizer.create_result", "witness": wit, "detail": "native optimize() with exact-zero weights on part of the data (bounded stand-in)"})
    return out


_prev_statistics_bounded = Statistics.bounded_checks


def _statistics_bounded(self, tier, seed):
    return list(_prev_statistics_bounded(self, tier, seed)) + _zero_weight_points(self, tier, seed)


Statistics.bounded_checks = _statistics_bounded
