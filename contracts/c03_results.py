"""C03 - result datasets decompose the data exactly and on the right coordinates.

Same run as C02, continued through Optimizer.create_result / OptimizationGroup.create_result_data.
"""
from __future__ import annotations

import numpy as np

from contracts import configs, harness
from contracts.c02_objective import Objective, compare_solves
from contracts.pipeline import PIPE_MODS, TRUSTED_PIPE, flat, run_optimizer
from pyvc.contract import Contract, L, Raised


def cell(da, **idx):
    v = da.isel(**idx).values
    return v.item() if hasattr(v, "item") else v


def final_entries(out, ref):
    """Solve-log entries of the evaluation that produced the result datasets, per group."""
    per_group = [len(ref.solves(g)) for g in out.group_names]
    n_eval = sum(per_group)
    # evaluations: optimize (1), calculate_penalty in create_result (2), then per group calculate+create_result_data
    # (optimize may hold several evaluations: out.n_log_eval entries were logged when it returned)
    pos = out.n_log_eval + n_eval
    res = {}
    for g, n in zip(out.group_names, per_group):
        res[g] = out.log.entries[pos : pos + n]
        pos += n
    return res, pos


class ResultData(Contract):
    prop = "C03"
    name = "ResultData"
    target = "glotaran.optimization.optimization_group:OptimizationGroup.create_result_data"
    functions = Objective.functions + (
        "glotaran.optimization.optimizer:Optimizer.create_result",
        "glotaran.optimization.optimization_group:OptimizationGroup.add_weight_to_result_data",
        "glotaran.optimization.estimation_provider:EstimationProviderLinked.get_result",
        "glotaran.optimization.estimation_provider:EstimationProviderUnlinked.get_result",
        "glotaran.optimization.matrix_provider:MatrixProvider.get_result",
        "glotaran.model.dataset_model:finalize_dataset_model",
    )
    modules = PIPE_MODS + ("glotaran.project.result",)
    trusted = TRUSTED_PIPE
    strength = "S"
    agreement_runs = 0
    max_paths = {"quick": 400, "thorough": 2000}
    not_decided = ()

    def cases(self, tier):
        for cfg in configs.configs(tier):
            yield {"cfg": cfg.name, "_cfg": cfg}

    def case_id(self, case):
        return f"cfg={case['cfg']}"

    def build(self, S, case):
        return harness.build(S, case["_cfg"])

    def call(self, S, case, b):
        return run_optimizer(S, b, S.symbolic, create_result=True, post_evals=1)

    def observe(self, out):
        return out if isinstance(out, Raised) else None

    def ensures(self, S, case, b, out):
        harness.CURRENT["S"] = b.S
        if isinstance(out, Raised):
            from contracts.pipeline import dof_precondition_violated

            if dof_precondition_violated(b, out):
                yield "outside_precondition_degrees_of_freedom_zero", True
                return
            yield "no_exception", False
            return
        ref = harness.Ref(b)
        cfg = b.cfg
        result = out.result
        entries_of, pos = final_entries(out, ref)
        yield "evaluations_made_by_create_result", pos == out.n_log_result
        yield "result_holds_every_dataset", sorted(result.data.keys()) == sorted(ds.label for ds in cfg.datasets)
        for gi, gname in enumerate(out.group_names):
            snap = out.snap[gi]
            rs = ref.solves(gname)
            entries = entries_of[gname]
            if len(entries) != len(rs):
                yield f"number_of_linear_solves@{gname}", False
                continue
            obl, retrieved = compare_solves(rs, entries, snap, None)
            # locate, for every dataset and own index, its solve and row block
            where = {}
            for k, r in enumerate(rs):
                if r["kind"] == "full":
                    where[(r["ds"].label, None)] = (k, 0, None)
                    continue
                for ds, g, row0, nm in r["blocks"]:
                    where[(ds.label, g)] = (k, row0, nm)
            for ds in ref.group_datasets(gname):
                if ds.label not in result.data:
                    continue
                rd = result.data[ds.label]
                lab = ds.label
                nm, ng = len(ds.model_axis), len(ds.global_axis)
                W = ref.dataset_weight(ds)
                scale = b.scale.get(lab, 1.0)
                D = b.data[lab]
                # ---- layout: own coordinates, own dims
                yield f"coordinates_are_the_datasets_own[{lab}]", (
                    [float(x) for x in rd.coords["time"].values] == list(ds.model_axis)
                    and [float(x) for x in rd.coords["spectral"].values] == list(ds.global_axis)
                )
                want_dims = ("time", "spectral")
                yield f"residual_on_model_global_dims[{lab}]", tuple(rd["residual"].dims) == want_dims and tuple(rd["residual"].shape) == (nm, ng)
                yield f"fitted_data_on_data_dims[{lab}]", tuple(rd["fitted_data"].dims) == tuple(rd["data"].dims) and set(rd["fitted_data"].dims) == {"time", "spectral"}
                yield f"data_unchanged[{lab}]", L.and_(*[L.eq(cell(rd["data"], time=m, spectral=g), D[m, g]) for m in range(nm) for g in range(ng)])
                yield f"attrs_dataset_scale[{lab}]", L.eq(rd.attrs["dataset_scale"], scale)
                yield f"attrs_dimensions[{lab}]", rd.attrs.get("model_dimension") == "time" and rd.attrs.get("global_dimension") == "spectral"
                res_c, wres_c, dec_c, fit_c, wgt_c, clp0_c, clprel_c = [], [], [], [], [], [], []
                has_w = W is not None
                yield f"weighted_residual_present_iff_weighted[{lab}]", ("weighted_residual" in rd) == has_w
                if has_w:
                    yield f"weight_reported[{lab}]", "weight" in rd and L.and_(
                        *[L.eq(cell(rd["weight"], time=m, spectral=g), W[m, g]) for m in range(nm) for g in range(ng)]
                    )
                if ds.global_megacomplexes:
                    k, _, _ = where[(lab, None)]
                    e = entries[k]
                    glabels = [str(x) for x in rd["global_matrix"].coords["global_clp_label"].values]
                    mlabels = [str(x) for x in rd["matrix"].coords["clp_label"].values]
                    yield f"clp_dims_full_model[{lab}]", tuple(rd["clp"].dims) == ("global_clp_label", "clp_label") and [str(x) for x in rd["clp"].coords["clp_label"].values] == mlabels and [str(x) for x in rd["clp"].coords["global_clp_label"].values] == glabels
                    dep = "spectral" in rd["matrix"].dims
                    for g in range(ng):
                        for m in range(nm):
                            r_w = e["residual"][g * nm + m]
                            r = r_w / W[m, g] if has_w else r_w
                            res_c.append(L.eq(cell(rd["residual"], time=m, spectral=g), r))
                            if has_w:
                                wres_c.append(L.eq(cell(rd["weighted_residual"], time=m, spectral=g), r_w))
                            dec_c.append(L.eq(cell(rd["fitted_data"], time=m, spectral=g) + cell(rd["residual"], time=m, spectral=g), D[m, g]))
                            model = 0
                            for gi_, gl in enumerate(glabels):
                                for mi, ml in enumerate(mlabels):
                                    mat = cell(rd["matrix"], spectral=g, time=m, clp_label=mi) if dep else cell(rd["matrix"], time=m, clp_label=mi)
                                    model = model + cell(rd["global_matrix"], spectral=g, global_clp_label=gi_) * cell(rd["clp"], global_clp_label=gi_, clp_label=mi) * mat
                            fit_c.append(L.eq(cell(rd["fitted_data"], time=m, spectral=g), model))
                    yield f"residual_is_unweighted_solve_residual[{lab}]", L.and_(*res_c)
                    yield f"weighted_residual_is_weight_times_residual[{lab}]", L.and_(*wres_c)
                    yield f"data_is_fitted_plus_residual[{lab}]", L.and_(*dec_c)
                    yield f"fitted_data_is_matrix_clp_global_matrixT[{lab}]", L.and_(*fit_c)
                    continue
                mlabels = [str(x) for x in rd["matrix"].coords["clp_label"].values]
                clabels = [str(x) for x in rd["clp"].coords["clp_label"].values]
                yield f"clp_on_global_axis_and_labels[{lab}]", tuple(rd["clp"].dims) == ("spectral", "clp_label") and [float(x) for x in rd["clp"].coords["spectral"].values] == list(ds.global_axis)
                yield f"matrix_and_clp_share_labels[{lab}]", sorted(mlabels) == sorted(clabels) and len(set(mlabels)) == len(mlabels)
                dep = "spectral" in rd["matrix"].dims
                for g in range(ng):
                    if (lab, g) not in where:
                        yield f"every_index_of_dataset_is_solved[{lab},{g}]", False
                        continue
                    k, row0, _ = where[(lab, g)]
                    e = entries[k]
                    info = rs[k]["info"]
                    full = retrieved[k] if k < len(retrieved) else None
                    for m in range(nm):
                        r_w = e["residual"][row0 + m]
                        r = r_w / W[m, g] if has_w else r_w
                        res_c.append(L.eq(cell(rd["residual"], time=m, spectral=g), r))
                        if has_w:
                            wres_c.append(L.eq(cell(rd["weighted_residual"], time=m, spectral=g), cell(rd["residual"], time=m, spectral=g) * W[m, g]))
                            wres_c.append(L.eq(cell(rd["weighted_residual"], time=m, spectral=g), r_w))
                        dec_c.append(L.eq(cell(rd["fitted_data"], time=m, spectral=g) + cell(rd["residual"], time=m, spectral=g), D[m, g]))
                        model = 0
                        for ml in mlabels:
                            mi, ci = mlabels.index(ml), clabels.index(ml) if ml in clabels else None
                            if ci is None:
                                continue
                            mat = cell(rd["matrix"], spectral=g, time=m, clp_label=mi) if dep else cell(rd["matrix"], time=m, clp_label=mi)
                            model = model + mat * cell(rd["clp"], spectral=g, clp_label=ci)
                        fit_c.append(L.eq(cell(rd["fitted_data"], time=m, spectral=g), scale * model))
                    for ml in clabels:
                        ci = clabels.index(ml)
                        inf = info.get(ml)
                        v = cell(rd["clp"], spectral=g, clp_label=ci)
                        if inf is None:
                            continue
                        if inf[0] == "zero":
                            clp0_c.append(L.eq(v, 0.0))
                        elif inf[0] == "rel" and inf[1] in clabels:
                            clprel_c.append(L.eq(v, inf[2] * cell(rd["clp"], spectral=g, clp_label=clabels.index(inf[1]))))
                        elif full is not None and ml in full:
                            clprel_c.append(L.eq(v, full[ml]))
                yield f"residual_is_unweighted_solve_residual_of_own_block[{lab}]", L.and_(*res_c)
                yield f"weighted_residual_is_weight_times_residual[{lab}]", L.and_(*wres_c)
                yield f"data_is_fitted_plus_residual[{lab}]", L.and_(*dec_c)
                yield f"fitted_data_is_scale_matrix_clp[{lab}]", L.and_(*fit_c)
                yield f"constrained_clps_are_zero[{lab}]", L.and_(*clp0_c)
                yield f"clps_by_label_and_relations[{lab}]", L.and_(*clprel_c)


def _big_sweep(self, tier, seed):
    from contracts.big_configs import pipeline_sweep

    return pipeline_sweep(self, tier, seed)


ResultData.bounded_checks = _big_sweep
