"""Larger pipeline configurations for the bounded native sweeps of C02 / C03 / C13 / C14 (B): more datasets, labels,
axis points and simultaneous features than the symbolic grid, evaluated natively against the same reference objective."""
from __future__ import annotations

import dataclasses
import random

from contracts.configs import INF, NNLS, VP
from contracts.harness import DS, Cfg

T6 = (0.0, 0.5, 1.0, 2.5, 4.0, 7.0)
T5 = (0.0, 1.0, 2.0, 3.0, 5.0)
T9 = tuple(float(x) for x in range(9))
M = {"ma": (("s1", "s2", "s3"), False), "mb": (("s3", "s4", "s5"), True)}


def big():
    linked = Cfg(
        "big_linked",
        (
            DS("d1", T6, (0.0, 1.0, 2.0, 3.0, 4.0, 5.0), megacomplexes=("ma", "mb"), scale=True, weight=True),
            DS("d2", T5, (2.0, 3.0, 4.0, 5.0, 6.0, 7.0), megacomplexes=("mb", "ma"), mc_scales=True),
            DS("d3", T6, (0.0, 2.0, 4.0, 6.0, 8.0), megacomplexes=("ma",), scale=True, order="gm"),
            DS("d4", T5, (1.0, 3.0, 5.0, 7.0), megacomplexes=("mb",), weight=True),
        ),
        megacomplexes=M,
        constraints=(("zero", "s2", (1.5, 4.5)),),
        relations=(("s1", "s4", (2.5, INF)),),
        penalties=(("s3", [(0.0, 3.0)], "s5", [(3.0, 8.0)]),),
        groups={"default": (True, VP)},
    )
    out = [linked, dataclasses.replace(linked, name="big_unlinked", groups={"default": (False, VP)}), dataclasses.replace(linked, name="big_linked_nnls", groups={"default": (True, NNLS)})]
    long_axis = tuple(float(x) for x in range(25))
    out.append(
        Cfg(
            "long_axes_linked_tolerance",
            (DS("a", T5, long_axis, scale=True), DS("b", T6, tuple(x + 0.2 for x in long_axis[3:20]), weight=True), DS("c", T5, tuple(x - 0.1 for x in long_axis[10:])),),
            megacomplexes={"m1": (("s1", "s2"), True)},
            constraints=(("only", "s2", (4.0, 18.0)),),
            groups={"default": (True, VP)},
            tol=0.25,
        )
    )
    out.append(
        Cfg(
            "big_full_model",
            (DS("f1", T9, (0.0, 1.0, 2.0, 3.0, 4.0, 5.0, 6.0), global_megacomplexes=("gm1", "gm2"), weight=True, mc_scales=True, order="gm"), DS("p1", T6, (0.0, 1.0, 2.0), scale=True)),
            megacomplexes={"m1": (("s1", "s2", "s3"), True)},
            global_megacomplexes={"gm1": ("g1", "g2"), "gm2": ("g2", "g3")},
        )
    )
    out.append(
        Cfg(
            "big_two_groups",
            (DS("u1", T6, (0.0, 1.0, 2.0, 3.0), scale=True), DS("u2", T5, (1.0, 2.0, 3.0, 4.0), group="g2", weight=True), DS("u3", T6, (2.0, 3.0, 4.0, 5.0), group="g2", scale=True), DS("u4", T5, (0.0, 5.0, 9.0), group="g2")),
            megacomplexes={"m1": (("s1", "s2", "s3", "s4"), False)},
            relations=(("s2", "s3", None),),
            groups={"default": (None, VP), "g2": (True, NNLS)},
        )
    )
    return out


class PosRng(random.Random):
    """values in (0.2, 2): weights, scales and parameters of the harness are positive"""

    def uniform(self, a, b):
        return super().uniform(0.2, 2.0)


def pipeline_sweep(contract, tier, seed, skip=()):
    from pyvc import runner

    out = []
    for cfg in big():
        if cfg.name in skip:
            continue
        case = {"cfg": cfg.name, "_cfg": cfg}
        witness, done = None, 0
        for k in range(2 if tier == "quick" else 5):
            try:
                r, detail, _ = runner.native_replay(contract, case, {}, rng=PosRng(f"{seed}:{cfg.name}:{k}"))
            except Exception as e:
                witness = {"configuration": cfg.name, "exception": repr(e)}
                break
            if r is None:
                continue
            failed = [n for n, ok in r if ok is False]
            unevaluated = [n for n, ok in r if ok is None]
            if len(unevaluated) == len(r):
                continue  # nothing could be evaluated natively on this input: no coverage, not a run
            done += 1
            if failed:
                witness = {"configuration": cfg.name, "failed": failed[:8], "random_seed": f"{seed}:{cfg.name}:{k}"}
                break
        out.append({"name": "bounded_native_sweep_over_larger_configurations", "ok": witness is None and done > 0, "case": f"cfg={cfg.name}", "function": contract.target, "witness": witness, "detail": f"{done} native runs of {contract.name} on {cfg.name} (more datasets / labels / axis points than the symbolic grid)"})
    return out
