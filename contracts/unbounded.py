"""Shared glue for the PyVC-U contracts (loop invariants over the AST of the real kernels, all sizes)."""
from __future__ import annotations

import z3

from pyvc import wp
from pyvc.sym import UF

I = z3.IntSort()


def ints(*names):
    return [z3.Int(n) for n in names]


def inb(i, n):
    return z3.And(i >= 0, i < n)


def exp(x):
    return UF["exp"](wp._real(x))


def ext_exp(ex, st, args, kwargs, node):
    return exp(args[0])


def ext_abs(ex, st, args, kwargs, node):
    x = wp._real(args[0])
    return z3.If(x >= 0, x, wp.rmul(-1, x))


def ext_max(ex, st, args, kwargs, node):
    a, b = args
    if all(isinstance(v, int) or (z3.is_expr(v) and v.sort() == I) for v in (a, b)):
        a, b = wp._int(a), wp._int(b)
    else:
        a, b = wp._real(a), wp._real(b)
    return z3.If(a >= b, a, b)


def records(spec, contract_name, timeout_s=10.0, prefix=""):
    """Prove one function against its contract; static-obligation records for the report."""
    fq = spec.name
    try:
        obls, notes = wp.prove(spec, timeout_s)
    except wp.Unsupported as e:
        return [{"name": f"{prefix}extraction", "ok": False, "undecided": True, "detail": f"outside the accepted subset: {e}", "function": fq, "backend": "z3-wp", "strength": "U"}]
    out = []
    merged = {}
    for ob in obls:
        merged.setdefault(ob.name, []).append(ob)
    for name, group in merged.items():
        bad = [o for o in group if o.status == "refuted"]
        unk = [o for o in group if o.status == "unknown"]
        rec = {"name": f"{prefix}{name}", "function": fq, "backend": group[0].backend or "z3-wp", "strength": "U", "case": "all sizes", "detail": f"{len(group)} path(s); {notes}"}
        if bad:
            m = bad[0].model
            rec.update(ok=False, detail=f"refuted for all-sizes contract; counter-model (first 12 symbols): " + ", ".join(f"{d.name()}={m[d]}" for d in list(m.decls())[:12]))
        elif unk:
            rec.update(ok=False, undecided=True, detail=unk[0].reason)
        else:
            rec.update(ok=True)
        out.append(rec)
    return out


def crosscheck(spec, make_args, runs=6, seed=0):
    """Engine agreement: the executor's concrete mode versus CPython on the real function, random small inputs."""
    import copy

    import numpy as np

    rng = np.random.default_rng(seed)
    bad, done = [], 0
    for k in range(runs):
        args = make_args(rng, k)
        native = copy.deepcopy(args)
        try:
            spec.fn(*[native[n] for n, _ in spec.params])
            got = wp.run_concrete(spec, copy.deepcopy(args))
        except wp.Unsupported as e:
            return [{"name": "engine_agrees_with_cpython_on_concrete_inputs", "ok": False, "undecided": True, "detail": f"concrete mode: {e}", "function": spec.name, "backend": "cpython-crosscheck", "strength": "B"}]
        done += 1
        for n, kind in spec.params:
            if isinstance(kind, str) and kind.startswith("arr"):
                a, b = np.asarray(native[n], dtype=float), got[n]
                if a.shape != b.shape or not np.allclose(a, b, rtol=1e-9, atol=1e-12, equal_nan=True):
                    bad.append((k, n, a.tolist(), b.tolist()))
    return [{"name": "engine_agrees_with_cpython_on_concrete_inputs", "ok": not bad, "engine": True, "detail": f"{done} random inputs (sizes 0-3); first disagreement: {bad[:1]}", "function": spec.name, "backend": "cpython-crosscheck", "strength": "B"}]
