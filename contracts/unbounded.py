"""Shared glue for the PyVC-U contracts (loop invariants over the AST of the real kernels, all sizes)."""

from __future__ import annotations

import z3

from pyvc import wp
from pyvc.sym import UF

I = z3.IntSort()

# assumptions of the generator, added to the `trusted` list of every contract that uses it
WP_ASSUMPTIONS = (
    "PyVC-U: distinct array parameters of a function do not alias each other; integers are unbounded and floats are reals; products of symbolic reals are uninterpreted (sound: fewer facts)",
)


def ints(*names):
    return [z3.Int(n) for n in names]


def inb(i, n):
    return z3.And(i >= 0, i < n)


def exp(x):
    return UF["exp"](wp._real(x))


def ext_exp(ex, st, args, kwargs, node):
    return exp(args[0])


def ext_abs(ex, st, args, kwargs, node):
    x = wp._real(args[0])
    return z3.If(x >= 0, x, wp.rmul(-1, x))


def ext_max(ex, st, args, kwargs, node):
    a, b = args
    if all(isinstance(v, int) or (z3.is_expr(v) and v.sort() == I) for v in (a, b)):
        a, b = wp._int(a), wp._int(b)
    else:
        a, b = wp._real(a), wp._real(b)
    return z3.If(a >= b, a, b)


def lex_before(cell, cur):
    """Lexicographic `cell < cur` over equally long lists of integer terms."""
    out = z3.BoolVal(False)
    for c, v in reversed(list(zip(cell, cur))):
        out = z3.Or(c < v, z3.And(c == v, out))
    return out


def cells_done(now, upto, coords):
    """Progress of a nest of loops over array dimensions, written without reference to the nesting order.

    `coords` maps (array parameter, axis) -> the coordinate of the cell along that dimension, e.g.
    {("rates", 0): r, ("times", 0): t}.  `upto` is the ordinal of the loop whose invariant is being stated and its index
    term.  Returns the condition "the iteration that handles this cell comes before the current position" in the
    lexicographic order of the loops that are active; loops that run over something else make it Unsupported."""
    ordinal, i = upto
    cell, cur = [], []
    for k in now.active_loops() + ([ordinal] if ordinal not in now.active_loops() else []):
        if k > ordinal:
            continue
        over = now.loop_over(k)
        if over not in coords:
            raise wp.Unsupported(f"loop {k} does not run over one of {sorted(coords)} (code restructured?)")
        cell.append(coords[over])
        cur.append(i if k == ordinal else now.loopvar(k))
    return lex_before(cell, cur)


def accumulated(now, upto, coords, sum_dim, n_terms, S):
    """Value accumulated so far into a cell by a nest of loops one of which (over `sum_dim`) adds one term per iteration.

    S(g) is the ghost prefix sum of the first g terms for this cell.  Whatever the nesting order, the terms added to one
    cell so far form a prefix: all `n_terms` if the cell's coordinates along the loops *outside* the summing loop come
    before the current ones, none if they come after, and if they are equal the first v (or v + 1, when the cell's
    coordinates along the loops *inside* it come before the current ones) - v being the summing loop's variable."""
    ordinal, i = upto
    act = [k for k in now.active_loops() if k <= ordinal]
    if ordinal not in act:
        act.append(ordinal)
    dims = [now.loop_over(k) for k in act]
    vals = [i if k == ordinal else now.loopvar(k) for k in act]
    for d in dims:
        if d != sum_dim and d not in coords:
            raise wp.Unsupported(f"a loop runs over {d}, not over one of {sorted(coords)} or {sum_dim} (code restructured?)")
    if sum_dim in dims:
        p = dims.index(sum_dim)
        outer_c, outer_v = [coords[d] for d in dims[:p]], vals[:p]
        inner_c, inner_v = [coords[d] for d in dims[p + 1 :]], vals[p + 1 :]
        same_outer = z3.And(*[c == v for c, v in zip(outer_c, outer_v)]) if outer_c else z3.BoolVal(True)
        here = z3.If(lex_before(inner_c, inner_v), S(vals[p] + 1), S(vals[p])) if inner_c else S(vals[p])
        return z3.If(lex_before(outer_c, outer_v), S(n_terms), z3.If(same_outer, here, S(0)))
    cell = [coords[d] for d in dims]
    return z3.If(lex_before(cell, vals), S(n_terms), S(0))


def records(spec, contract_name, timeout_s=10.0, prefix=""):
    """Prove one function against its contract; static-obligation records for the report."""
    fq = spec.name
    try:
        obls, notes = wp.prove(spec, timeout_s)
    except wp.Unsupported as e:
        return [{"name": f"{prefix}extraction", "ok": False, "undecided": True, "detail": f"outside the accepted subset: {e}", "function": fq, "backend": "z3-wp", "strength": "U"}]
    out = []
    # A refuted obligation is a *verdict* only when the proof skeleton still fits the code: if an invariant, a call
    # precondition or a loop-entry obligation is not proved, the recorded invariants no longer describe the (possibly
    # harmlessly restructured) code and nothing follows about the property - everything of this function is undecided.
    skeleton_ok = all(o.status == "proved" for o in obls if not (o.name.startswith("post.") or o.name.startswith("frame.") or o.name.startswith("index_in_bounds") or "prange" in o.name))
    if notes.get("vacuous"):
        out.append({"name": f"{prefix}hypotheses_are_not_contradictory", "ok": False, "engine": True, "function": fq, "backend": "z3-wp", "strength": "U", "detail": f"`False` follows from the hypotheses of {notes['vacuous']} (contradictory requires / invariant / callee contract)"})
    merged = {}
    for ob in obls:
        merged.setdefault(ob.name, []).append(ob)
    for name, group in merged.items():
        bad = [o for o in group if o.status == "refuted"]
        unk = [o for o in group if o.status == "unknown"]
        rec = {"name": f"{prefix}{name}", "function": fq, "backend": group[0].backend or "z3-wp", "strength": "U", "case": "all sizes", "detail": f"{len(group)} path(s); {notes}", "time_s": round(sum(o.time_s for o in group), 4)}
        if bad and not skeleton_ok:
            rec.update(ok=False, undecided=True, detail="not proved, and the invariants recorded for this function are no longer inductive for its code (restructured loops?): no verdict from the all-sizes contract")
        elif bad:
            m = bad[0].model
            rec.update(ok=False, detail=f"refuted for all-sizes contract; counter-model (first 12 symbols): " + ", ".join(f"{d.name()}={m[d]}" for d in list(m.decls())[:12]))
        elif unk:
            rec.update(ok=False, undecided=True, detail=unk[0].reason)
        else:
            rec.update(ok=True)
        out.append(rec)
    return out


def crosscheck(spec, make_args, runs=6, seed=0):
    """Engine agreement: the executor's concrete mode versus CPython on the real function, random small inputs."""
    import copy

    import numpy as np

    rng = np.random.default_rng(seed)
    bad, done = [], 0
    for k in range(runs):
        args = make_args(rng, k)
        native = copy.deepcopy(args)
        try:
            spec.fn(*[native[n] for n, _ in spec.params])
            got = wp.run_concrete(spec, copy.deepcopy(args))
        except wp.Unsupported as e:
            return [{"name": "engine_agrees_with_cpython_on_concrete_inputs", "ok": False, "undecided": True, "detail": f"concrete mode: {e}", "function": spec.name, "backend": "cpython-crosscheck", "strength": "B"}]
        except Exception as e:  # the real function (or the executor) raised on a valid input: no cross-check possible
            return [{"name": "engine_agrees_with_cpython_on_concrete_inputs", "ok": False, "undecided": True, "detail": f"{type(e).__name__}: {e} on input {k}", "function": spec.name, "backend": "cpython-crosscheck", "strength": "B"}]
        done += 1
        for n, kind in spec.params:
            if isinstance(kind, str) and kind.startswith("arr"):
                a, b = np.asarray(native[n], dtype=float), got[n]
                if a.shape != b.shape or not np.allclose(a, b, rtol=1e-9, atol=1e-12, equal_nan=True):
                    bad.append((k, n, a.tolist(), b.tolist()))
    return [{"name": "engine_agrees_with_cpython_on_concrete_inputs", "ok": not bad, "engine": True, "detail": f"{done} random inputs (sizes 0-3); first disagreement: {bad[:1]}", "function": spec.name, "backend": "cpython-crosscheck", "strength": "B"}]


def engine_selftest():
    """Proof rules of PyVC-U on toy functions: what must be rejected is rejected, what must be proved is proved.
    (A loop rule that forgets to havoc an array written through a callee's frame, a frame rule that misses an alias, a
    missing bounds obligation ... would show up here as an accepted wrong claim.)  Failure = checker crash (exit 3)."""
    from pyvc import wp_toys as T

    k, r = ints("k", "r")

    def one_everywhere(old, new, res, n):
        return [("filled", z3.ForAll([k], z3.Implies(inb(k, n), new.sel("a", k) == 1), patterns=[new.sel("a", k)]))]

    def fill_spec(inv, post=None):
        req = lambda env: [env["n"] == env.shape("a")]  # noqa: E731
        ens = post or (lambda old, new, res: one_everywhere(old, new, res, old["n"]) + [("rest_untouched", z3.ForAll([k], z3.Implies(z3.Not(inb(k, old["n"])), new.sel("a", k) == old.sel("a", k)), patterns=[new.sel("a", k)]))])
        return wp.FnSpec(T.fill, [("a", "arr1"), ("n", "int")], req, ("a",), ens, {0: inv})

    good_inv = lambda old, now, i: [z3.ForAll([k], z3.If(z3.And(k >= 0, k < i), now.sel("a", k) == 1, now.sel("a", k) == old.sel("a", k)), patterns=[now.sel("a", k)])]  # noqa: E731
    weak_inv = lambda old, now, i: [z3.BoolVal(True)]  # noqa: E731
    bad_entry = lambda old, now, i: [z3.ForAll([k], z3.Implies(z3.And(k >= 0, k <= i), now.sel("a", k) == 1))]  # noqa: E731

    def verdicts(spec):
        obls, _ = wp.prove(spec, timeout_s=5.0, budget_s=40.0)
        return {o.name: o.status for o in obls}

    def all_proved(spec):
        return all(v == "proved" for v in verdicts(spec).values())

    def some_not_proved(spec, name_part):
        v = verdicts(spec)
        return any(name_part in n and s != "proved" for n, s in v.items())

    results = []

    def expect(name, ok):
        results.append((name, bool(ok)))

    expect("correct_invariant_proves", all_proved(fill_spec(good_inv)))
    expect("weak_invariant_does_not_prove_the_postcondition", some_not_proved(fill_spec(weak_inv), "post."))
    expect("invariant_false_on_entry_is_rejected", some_not_proved(fill_spec(bad_entry), "holds_on_entry"))
    # callee frame inside a loop: claiming the matrix is untouched must fail
    callee = fill_spec(good_inv)
    rows_untouched = wp.FnSpec(
        T.fill_rows,
        [("m", "arr2"), ("rows", "int")],
        lambda env: [env["rows"] == env.shape("m", 0), env.shape("m", 1) == 3],
        ("m",),
        lambda old, new, res: [("matrix_untouched", new.term("m") == old.term("m"))],
        {0: lambda old, now, i: [z3.BoolVal(True)]},
        {"fill": wp.call_contract(callee)},
    )
    expect("array_written_through_a_callee_frame_is_havocked_at_the_loop_head", some_not_proved(rows_untouched, "post.matrix_untouched"))
    rows_filled = wp.FnSpec(
        T.fill_rows,
        [("m", "arr2"), ("rows", "int")],
        lambda env: [env["rows"] == env.shape("m", 0), env.shape("m", 1) == 3],
        ("m",),
        lambda old, new, res: [("all_ones", z3.ForAll([r, k], z3.Implies(z3.And(inb(r, old["rows"]), inb(k, 3)), new.sel("m", r, k) == 1), patterns=[new.sel("m", r, k)]))],
        {0: lambda old, now, i: [z3.ForAll([r, k], z3.Implies(z3.And(inb(r, i), inb(k, 3)), now.sel("m", r, k) == 1), patterns=[now.sel("m", r, k)])]},
        {"fill": wp.call_contract(callee)},
    )
    expect("callee_contract_on_row_views_proves_the_matrix_filled", all_proved(rows_filled))
    expect("write_outside_the_declared_frame_is_rejected", some_not_proved(wp.FnSpec(T.write_other, [("a", "arr1"), ("b", "arr1")], lambda env: [env.shape("b") >= 1], ("a",), None, {}), "frame.b_unchanged"))
    expect("out_of_bounds_store_is_rejected", some_not_proved(wp.FnSpec(T.out_of_bounds, [("a", "arr1"), ("n", "int")], lambda env: [env["n"] == env.shape("a")], ("a",), None, {}), "index_in_bounds"))
    expect("store_through_an_alias_reaches_the_parameter", some_not_proved(wp.FnSpec(T.alias, [("a", "arr1")], lambda env: [env.shape("a") >= 1], (), None, {}), "frame.a_unchanged"))
    short = wp.FnSpec(T.early, [("a", "arr1"), ("n", "int")], lambda env: [env["n"] == env.shape("a")], ("a",), lambda old, new, res: one_everywhere(old, new, res, old["n"]), {0: good_inv})
    expect("loop_that_stops_one_short_does_not_prove_the_postcondition", some_not_proved(short, "post.filled"))
    contradictory = wp.FnSpec(T.fill, [("a", "arr1"), ("n", "int")], lambda env: [env["n"] == env.shape("a"), env["n"] < 0, z3.ForAll([k], env.sel("a", k) == 0), env.sel("a", 7) == 1], ("a",), lambda old, new, res: one_everywhere(old, new, res, old["n"]), {0: weak_inv})
    try:
        _, notes = wp.prove(contradictory, timeout_s=3.0, budget_s=20.0)
        expect("contradictory_precondition_is_reported_as_vacuous", bool(notes.get("vacuous")))
    except wp.Unsupported as e:
        expect("contradictory_precondition_is_reported_as_vacuous", "contradictory" in str(e))
    # zip loop: runs over the shorter of the two arrays, targets are the k-th elements
    def zip_spec(upto):
        def post(old, new, res):
            n = upto(old)
            return [("sums", z3.ForAll([k], z3.Implies(inb(k, n), new.sel("out", k) == old.sel("a", k) + old.sel("b", k)), patterns=[new.sel("out", k)]))]

        def inv(old, now, i):
            return [z3.ForAll([k], z3.Implies(inb(k, i), now.sel("out", k) == old.sel("a", k) + old.sel("b", k)), patterns=[now.sel("out", k)]), now["idx"] == i]

        return wp.FnSpec(T.zip_copy, [("a", "arr1"), ("b", "arr1"), ("out", "arr1")], lambda env: [env.shape("out") >= env.shape("a"), env.shape("out") >= env.shape("b")], ("out",), post, {0: inv})

    shorter = lambda old: z3.If(old.shape("a") < old.shape("b"), old.shape("a"), old.shape("b"))  # noqa: E731
    expect("zip_loop_covers_the_shorter_array", all_proved(zip_spec(shorter)))
    expect("zip_loop_does_not_cover_the_longer_array", some_not_proved(zip_spec(lambda old: old.shape("a")), "post.sums"))
    # complex arithmetic: (2 + i x)(-i) = x - 2i
    def cx_spec(re, im):
        return wp.FnSpec(T.complex_parts, [("a", "arr1"), ("out", "arr1")], lambda env: [env.shape("a") >= 1, env.shape("out") >= 2], ("out",), lambda old, new, res: [("parts", z3.And(new.sel("out", 0) == re(old), new.sel("out", 1) == im(old)))], {})

    expect("complex_product_real_and_imaginary_part", all_proved(cx_spec(lambda old: old.sel("a", 0), lambda old: z3.RealVal(-2))))
    expect("complex_product_wrong_sign_is_rejected", some_not_proved(cx_spec(lambda old: old.sel("a", 0), lambda old: z3.RealVal(2)), "post.parts"))
    bad = [n for n, ok in results if not ok]
    return [{"name": "proof_rules_accept_and_reject_as_they_must_on_toy_functions", "ok": not bad, "engine": True, "detail": f"{len(results)} rule tests; failed: {bad}", "function": "pyvc.wp", "backend": "selftest", "strength": "B"}]
