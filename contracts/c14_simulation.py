"""C14 - simulation and fitting agree.

Simulate         simulate / simulate_from_clp / simulate_full_model: data[:, i] = matrix_i @ clp_i by label
SimulatedIsFitted  the C02 run fed with simulated data: every solve's data vector lies in the column
                 space of its matrix with coefficients generating_clp / dataset_scale  (lemma over the
                 C01 contract: residual 0, clp = those coefficients at full column rank)
NoiseSeed        seed(noise_seed) is called before normal(), nothing in between
"""
from __future__ import annotations

import numpy as np
import xarray as xr

from contracts import configs, harness
from contracts.c02_objective import Objective
from contracts.pipeline import PIPE_MODS, TRUSTED_PIPE, flat, run_optimizer
from pyvc import shim
from pyvc.contract import Contract, L, Raised
from pyvc.sym import SArr

SIM_MODS = PIPE_MODS


def _sim_configs(tier):
    for cfg in configs.configs(tier):
        if cfg.constraints or cfg.relations or cfg.penalties or cfg.name == "labels_concatenations_coincide":
            continue
        yield cfg


def _gen_clps(b, ds, perm=True, axis=None):
    """Generating clps of a dataset as an xarray with a permuted label order (selection must be by label).
    `axis`: the global coordinates in the order of the simulated data (position g of the clp belongs to position g)."""
    ref = harness.Ref(b)
    labels, _ = ref.dataset_columns(ds, 0)
    order = list(reversed(labels)) + ["unused"] if perm else list(labels)
    ng = len(ds.global_axis)
    coords_g = np.asarray(ds.global_axis if axis is None else axis, dtype=float)
    a = np.empty((ng, len(order)), dtype=object if b.S.symbolic else float)
    for g in range(ng):
        for j, lab in enumerate(order):
            a[g, j] = b.S.named(f"gen_{ds.label}_{g}_{lab}")
    return xr.DataArray(a, coords=[("spectral", coords_g), ("clp_label", order)]), labels


class Simulate(Contract):
    prop = "C14"
    name = "Simulate"
    target = "glotaran.simulation.simulation:simulate"
    functions = (
        "glotaran.simulation.simulation:simulate_from_clp",
        "glotaran.simulation.simulation:simulate_full_model",
        "glotaran.optimization.matrix_provider:MatrixProvider.calculate_dataset_matrix",
        "glotaran.optimization.matrix_provider:MatrixProvider.combine_megacomplex_matrices",
    )
    modules = SIM_MODS
    trusted = TRUSTED_PIPE[2:]
    strength = "S"
    agreement_runs = 0

    def cases(self, tier):
        for k, cfg in enumerate(_sim_configs(tier)):
            yield {"cfg": cfg.name, "_cfg": cfg}
            # the global axis need not be ascending (wavenumbers, pixel order): position g of the data, of the matrix and
            # of the clp belong together
            if tier == "quick" or k % 5 == 0:
                yield {"cfg": cfg.name, "_cfg": cfg, "global_axis_descending": True}
            # the clp may be given on its own global coordinate (a pixel index): it is consumed by position, the simulated
            # dataset lives on the requested coordinates
            if k % 3 == 0 and not any(ds.global_megacomplexes for ds in cfg.datasets):
                yield {"cfg": cfg.name, "_cfg": cfg, "clp_on_pixel_index": True}

    def case_id(self, case):
        return f"cfg={case['cfg']}" + (",global_axis_descending" if case.get("global_axis_descending") else "") + (",clp_on_pixel_index" if case.get("clp_on_pixel_index") else "")

    def build(self, S, case):
        return harness.build(S, case["_cfg"])

    @staticmethod
    def _axis(case, ds):
        return list(reversed(ds.global_axis)) if case.get("global_axis_descending") else list(ds.global_axis)

    def call(self, S, case, b):
        from glotaran.simulation import simulate

        harness.CURRENT["S"] = b.S
        out = {}
        ref = harness.Ref(b)
        for ds in b.cfg.datasets:
            coords = {"time": np.asarray(ds.model_axis, dtype=float), "spectral": np.asarray(self._axis(case, ds), dtype=float)}
            if ds.global_megacomplexes:
                if not set(ref.dataset_columns(ds, 0)[0]) <= set(ref.global_columns(ds)[0]):
                    out[ds.label] = None  # not simulatable: the global matrix must provide every clp label
                    continue
                out[ds.label] = (simulate(b.model, ds.label, b.parameters, coords), None)
            else:
                clp, labels = _gen_clps(b, ds, axis=[float(g) + 100.0 for g in range(len(ds.global_axis))] if case.get("clp_on_pixel_index") else self._axis(case, ds))
                out[ds.label] = (simulate(b.model, ds.label, b.parameters, coords, clp=clp), clp)
        return out

    def observe(self, out):
        return out if isinstance(out, Raised) else None

    def ensures(self, S, case, b, out):
        if isinstance(out, Raised):
            yield "no_exception", False
            return
        harness.CURRENT["S"] = b.S
        ref = harness.Ref(b)
        for ds in b.cfg.datasets:
            if out[ds.label] is None:
                yield f"configuration_not_simulatable[{ds.label}]", True
                continue
            sim, clp = out[ds.label]
            nm, ng = len(ds.model_axis), len(ds.global_axis)
            yield f"coordinates[{ds.label}]", tuple(sim.data.dims) == ("time", "spectral") and [float(x) for x in sim.coords["time"].values] == list(ds.model_axis) and [float(x) for x in sim.coords["spectral"].values] == self._axis(case, ds)
            cells = []
            if ds.global_megacomplexes:
                glabels, gcols = ref.global_columns(ds)
                for g in range(ng):
                    labels, cols = ref.dataset_columns(ds, g)
                    if not set(labels) <= set(glabels):
                        yield f"configuration_simulatable[{ds.label}]", True
                        cells = None
                        break
                    for m in range(nm):
                        want = L.sum([cols[lab][m] * gcols[lab][g] for lab in labels])
                        cells.append(L.eq(sim.data.values[m, g], want))
                if cells is not None:
                    yield f"full_model_data_is_matrix_times_global_matrix_T_by_label[{ds.label}]", L.and_(*cells)
                continue
            order = [str(x) for x in clp.coords["clp_label"].values]
            for g in range(ng):
                labels, cols = ref.dataset_columns(ds, g)
                for m in range(nm):
                    want = L.sum([cols[lab][m] * clp.values[g, order.index(lab)] for lab in labels])
                    cells.append(L.eq(sim.data.values[m, g], want))
            yield f"data_is_matrix_times_clp_selected_by_label[{ds.label}]", L.and_(*cells)


class SimulatedIsFitted(Contract):
    """Lemma over the C01/C02 contracts: simulated data lie in the column space of every solve."""

    prop = "C14"
    name = "SimulatedIsFitted"
    target = "glotaran.optimization.optimizer:Optimizer.objective_function"
    functions = Objective.functions + Simulate.functions + ("glotaran.simulation.simulation:simulate",)
    modules = SIM_MODS
    trusted = TRUSTED_PIPE + (
        "that data = matrix @ c together with the C01 postcondition (residual orthogonal to the columns) gives residual 0 and, at full column rank, estimated clp = c is the Lean theorem PyVC.exact_data_recovered (lemmas/LeastSquares.lean, all m, n; re-checked every run)",
    )
    strength = "S"
    agreement_runs = 0
    not_decided = (
        "the optimiser does not move away from the generating parameters / returns from a <=20 % perturbation: convergence of scipy's trust-region iteration is not a contract on glotaran code (not applicable)",
    )

    def cases(self, tier):
        for cfg in _sim_configs(tier):
            if any(ds.global_megacomplexes for ds in cfg.datasets):
                continue
            yield {"cfg": cfg.name, "_cfg": cfg}

    def case_id(self, case):
        return f"cfg={case['cfg']}"

    def build(self, S, case):
        return harness.build(S, case["_cfg"])

    def call(self, S, case, b):
        from glotaran.simulation import simulate

        harness.CURRENT["S"] = b.S
        ref = harness.Ref(b)
        cfg = b.cfg
        # generating clps: common coefficients per (group, aligned index, label) times the dataset scale
        gen = {}
        for gname in cfg.groups:
            dss = ref.group_datasets(gname)
            if ref.is_linked(gname):
                _, images = harness.ref_align(cfg, dss)
            else:
                images = {ds.label: [(ds.label, g) for g in range(len(ds.global_axis))] for ds in dss}
            for ds in dss:
                labels, _ = ref.dataset_columns(ds, 0)
                ng = len(ds.global_axis)
                a = np.empty((ng, len(labels)), dtype=object if b.S.symbolic else float)
                for g in range(ng):
                    for j, lab in enumerate(labels):
                        common = b.S.named(f"cc_{gname}_{images[ds.label][g]}_{lab}".replace(" ", "").replace("(", "").replace(")", "").replace(",", "_").replace("'", "").replace(".", "p").replace("-", "m"))
                        a[g, j] = common * b.scale.get(ds.label, 1.0)
                gen[ds.label] = (xr.DataArray(a, coords=[("spectral", np.asarray(ds.global_axis, dtype=float)), ("clp_label", list(labels))]), images[ds.label])
        for ds in cfg.datasets:
            coords = {"time": np.asarray(ds.model_axis, dtype=float), "spectral": np.asarray(ds.global_axis, dtype=float)}
            sim = simulate(b.model, ds.label, b.parameters, coords, clp=gen[ds.label][0])
            vals = sim.data.values
            dsx = b.scheme.data[ds.label]
            new = vals if tuple(dsx["data"].dims) == ("time", "spectral") else vals.T
            dsx["data"] = (dsx["data"].dims, new)
            b.data[ds.label] = np.asarray(vals, dtype=object if b.S.symbolic else float)
        self_gen = gen
        run = run_optimizer(S, b, S.symbolic)
        run.gen = self_gen
        return run

    def observe(self, out):
        return out if isinstance(out, Raised) else None

    def ensures(self, S, case, b, out):
        if isinstance(out, Raised):
            yield "no_exception", False
            return
        harness.CURRENT["S"] = b.S
        ref = harness.Ref(b)
        cfg = b.cfg
        pos = 0
        for gi, gname in enumerate(out.group_names):
            snap = out.snap[gi]
            rs = ref.solves(gname)
            entries = out.log.entries[pos : pos + len(rs)]
            pos += len(rs)
            if len(entries) != len(rs):
                yield f"number_of_linear_solves@{gname}", False
                continue
            for k, (r, e) in enumerate(zip(rs, entries)):
                if snap["linked"]:
                    code_labels = snap["labels"][k]
                    key = r["value"]
                    tag = f"aligned={r['value']}"
                else:
                    code_labels = snap["labels"][r["ds"].label][r["g"]]
                    key = (r["ds"].label, r["g"])
                    tag = f"{r['ds'].label},{r['g']}"
                cstar = [b.S.named(f"cc_{gname}_{key}_{lab}".replace(" ", "").replace("(", "").replace(")", "").replace(",", "_").replace("'", "").replace(".", "p").replace("-", "m")) for lab in code_labels]
                M, d = e["matrix"], e["data"]
                yield f"data_in_column_space_with_generating_clps_over_scale[{tag}]@{gname}", L.and_(
                    *[L.eq(d[i], L.sum([M[i, j] * cstar[j] for j in range(len(code_labels))])) for i in range(len(d))]
                )


class _RandomRecorder:
    def __init__(self, log):
        self.log = log

    def seed(self, s):
        self.log.append(("seed", s))

    def normal(self, loc, scale=1.0, size=None):
        loc = getattr(loc, "values", loc)
        self.log.append(("normal", loc, scale))
        return loc

    def __getattr__(self, name):
        def other(*a, **k):
            self.log.append((name,))
            return getattr(np.random, name)(*a, **k)

        return other


class NoiseSeed(Contract):
    prop = "C14"
    name = "NoiseSeed"
    target = "glotaran.simulation.simulation:simulate"
    modules = SIM_MODS
    trusted = ("numpy.random.seed / normal replaced by a recording stub: Gaussian noise is a deterministic function of the seed and the call order (numpy RNG determinism trusted)",)
    strength = "U"
    agreement_runs = 0

    def cases(self, tier):
        cfg = [c for c in configs.quick() if c.name == "one_unlinked"][0]
        for seed in (None, 0, 123):
            for noise in (True, False):
                yield {"cfg": cfg.name, "_cfg": cfg, "seed": seed, "noise": noise}

    def build(self, S, case):
        return harness.build(S, case["_cfg"])

    def call(self, S, case, b):
        from glotaran.simulation import simulation as sm

        harness.CURRENT["S"] = b.S
        ds = b.cfg.datasets[0]
        clp, _ = _gen_clps(b, ds)
        log = []
        rec = _RandomRecorder(log)
        coords = {"time": np.asarray(ds.model_axis, dtype=float), "spectral": np.asarray(ds.global_axis, dtype=float)}
        std = b.S.named("noise_std")
        if S.symbolic:
            shim.RANDOM_PROXY[0] = rec
            try:
                sim = sm.simulate(b.model, ds.label, b.parameters, coords, clp=clp, noise=case["noise"], noise_std_dev=std, noise_seed=case["seed"])
            finally:
                shim.RANDOM_PROXY[0] = None
        else:
            saved = sm.np
            class _NP:
                random = rec
                def __getattr__(self, n):
                    return getattr(saved, n)
            sm.np = _NP()
            try:
                sim = sm.simulate(b.model, ds.label, b.parameters, coords, clp=clp, noise=case["noise"], noise_std_dev=std, noise_seed=case["seed"])
            finally:
                sm.np = saved
        return sim, log, std

    def observe(self, out):
        return out if isinstance(out, Raised) else None

    def ensures(self, S, case, b, out):
        if isinstance(out, Raised):
            yield "no_exception", False
            return
        sim, log, std = out
        kinds = [e[0] for e in log]
        if not case["noise"]:
            yield "no_rng_call_without_noise", kinds == []
            return
        if case["seed"] is None:
            yield "unseeded_noise_draws_once", kinds == ["normal"]
        else:
            yield "seed_called_before_normal_and_nothing_in_between", kinds == ["seed", "normal"] and log[0][1] == case["seed"]
        if "normal" in kinds:
            e = log[kinds.index("normal")]
            yield "noise_std_dev_passed", L.eq(e[2], std)
            yield "result_is_the_noisy_draw_around_the_simulated_data", L.and_(*[L.eq(a, c) for a, c in zip(flat(sim.data.values), flat(e[1]))])


class RecoveryLemma(Contract):
    """`exact_data_recovered` (Lean 4 + Mathlib, every m and n, re-checked by `lean` on every run): for b = A c0 a
    least-squares solution (A^T (b - A clp) = 0, the C01 postcondition) has residual 0 and, when A x = 0 only for
    x = 0, clp = c0 - the step from `SimulatedIsFitted` to "the objective is zero and the estimated clps equal the
    generating clps divided by the dataset scale"."""

    prop = "C14"
    name = "RecoveryLemma"
    lemma_files = (__import__("pathlib").Path(__file__).resolve().parent.parent / "lemmas" / "LeastSquares.lean",)
    target = None
    strength = "U"
    trusted = ("Lean 4.33 kernel and Mathlib; axioms propext, Classical.choice, Quot.sound",)

    def cases(self, tier):
        return iter(())

    def static_obligations(self, tier):
        from pathlib import Path

        from pyvc.lean import check_lemmas

        return check_lemmas(
            Path(__file__).resolve().parent.parent / "lemmas" / "LeastSquares.lean",
            {"PyVC.exact_data_recovered": "lemma_noise_free_data_give_zero_residual_and_the_generating_clp_for_all_m_n"},
        )
