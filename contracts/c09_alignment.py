"""C09 - CLP linking aligns global axes faithfully (value-level contracts).

AlignIndex           DataProviderLinked.align_index for every strictly increasing target axis
AlignedGlobalAxes    DataProviderLinked.create_aligned_global_axes, symbolic axes of 2-3 datasets
(the xarray based tables and the providers are under contract in c09_tables.py)
"""
from __future__ import annotations

import itertools

import numpy as np

from contracts.common import strictly_increasing
from pyvc.contract import Contract, L, Raised

MODS = ("glotaran.optimization.data_provider",)
METHODS = ("nearest", "backward", "forward")


def permitted(method, t, x):
    if method == "forward":
        return L.ge(t, x)
    if method == "backward":
        return L.le(t, x)
    return True


def is_image(res, x, T, tol, method):
    """`res` is an admissible image of x on the target axis T (property statement of C09)."""
    n = len(T)
    alts = []
    for k in range(n):
        dk = abs(T[k] - x)
        nearer = [L.implies(permitted(method, T[j], x), L.ge(abs(T[j] - x), dk)) for j in range(n) if j != k]
        alts.append(L.and_(L.eq(res, T[k]), permitted(method, T[k], x), L.le(dk, tol), *nearer))
    exists = L.or_(*[L.and_(permitted(method, T[k], x), L.le(abs(T[k] - x), tol)) for k in range(n)])
    alts.append(L.and_(L.eq(res, x), L.not_(exists)))
    return L.or_(*alts)


class AlignIndex(Contract):
    prop = "C09"
    name = "AlignIndex"
    target = "glotaran.optimization.data_provider:DataProviderLinked.align_index"
    modules = MODS
    strength = "S"

    def cases(self, tier):
        max_n = 5 if tier == "quick" else 7
        for n in range(0, max_n + 1):
            for m in METHODS:
                yield {"n": n, "method": m}

    def build(self, S, case):
        x = S.real("x")
        T = S.real_array("t", case["n"])
        strictly_increasing(S, T)
        tol = S.real("tol")
        S.require(L.ge(tol, 0), "tolerance >= 0")
        return (x, T, tol, case["method"]), {}

    def ensures(self, S, case, inp, out):
        (x, T, tol, method), _ = inp
        if isinstance(out, Raised):
            yield "no_exception", False
            return
        yield "image_is_self_or_nearest_permitted_target_within_tolerance", is_image(out, x, T, tol, method)


def _align_index_sweep(self, tier, seed):
    from contracts.common import native_sweep, sorted_env

    cases = [{"n": n, "method": m} for n in ((15, 60) if tier == "quick" else (15, 60, 200)) for m in METHODS]
    def env(case, rng):
        e = sorted_env("t", case["n"], rng, -10, 10)
        pts = list(e.values())
        # indices between target points and indices that coincide with one; tolerances below and above the spacing
        e["x"] = rng.choice(pts) if rng.random() < 0.6 else round(rng.uniform(-11, 11), 3)
        # (off the 0.001 grid of the points, see _aligned_axes_sweep; the boundary |t - x| = tolerance is decided symbolically)
        e["tol"] = rng.choice([0.0, 0.0555, round(rng.uniform(0, 1.5), 3) + 0.0005, 5.0005])
        return e

    return native_sweep(self, cases, envs=env, tries=8, seed=seed)


AlignIndex.bounded_checks = _align_index_sweep


class AlignedGlobalAxes(Contract):
    """create_aligned_global_axes with symbolic axes; align_index is recorded (real callee runs)."""

    prop = "C09"
    name = "AlignedGlobalAxes"
    target = "glotaran.optimization.data_provider:DataProviderLinked.create_aligned_global_axes"
    functions = ("glotaran.optimization.data_provider:DataProviderLinked.align_index",)
    modules = MODS
    strength = "S"
    agreement_runs = 2
    max_paths = {"quick": 6000, "thorough": 60000}

    def cases(self, tier):
        sizes = [(1, 1), (2, 1), (1, 2), (2, 2), (1, 1, 1)] if tier == "quick" else [(1, 1), (2, 1), (1, 2), (2, 2), (3, 2), (2, 3), (1, 1, 1), (2, 1, 1), (1, 2, 1), (1, 1, 2)]
        for sz in sizes:
            for m in METHODS:
                yield {"sizes": sz, "method": m}
        # the first dataset's axis is taken as it comes (a descending wavenumber axis): the points of the next dataset
        # are still assigned to the nearest of *all* its points
        for sz in [(2, 1), (2, 2), (3, 1)] if tier == "quick" else [(2, 1), (2, 2), (3, 1), (3, 2), (2, 1, 1)]:
            for m in METHODS:
                yield {"sizes": sz, "method": m, "first": "descending"}

    def build(self, S, case):
        axes = {}
        for d, n in enumerate(case["sizes"]):
            a = S.real_array(f"g{d}", n)
            if d == 0 and case.get("first") == "descending":
                strictly_increasing(S, a[::-1])
            else:
                strictly_increasing(S, a)
            axes[f"ds{d}"] = a
        tol = S.real("tol")
        S.require(L.ge(tol, 0), "tolerance >= 0")
        return axes, tol, case["method"]

    def call(self, S, case, inp):
        from glotaran.optimization import data_provider as dpm

        axes, tol, method = inp
        log = []
        real = dpm.DataProviderLinked.__dict__["align_index"].__func__

        def recording_align_index(index, target_axis, tolerance, meth):
            r = real(index, target_axis, tolerance, meth)
            log.append((index, list(np.asarray(target_axis, dtype=object)), tolerance, meth, r))
            return r

        class _Scheme:
            clp_link_tolerance = tol
            clp_link_method = method

        dp = dpm.DataProviderLinked.__new__(dpm.DataProviderLinked)
        dp._global_axes = dict(axes)
        dp.align_index = recording_align_index
        from pyvc.sym import EngineError, PathAbort

        try:
            res = dp.create_aligned_global_axes(_Scheme())
        except (EngineError, PathAbort, RecursionError):
            raise
        except Exception as e:
            res = Raised(e)
        return res, log

    def observe(self, out):
        out = out[0]
        if isinstance(out, Raised):
            return out
        return {k: list(np.asarray(v, dtype=object)) for k, v in out.items()}

    def ensures(self, S, case, inp, out):
        axes, tol, method = inp
        out, log = out
        labels = list(axes)
        # replay the log dataset by dataset
        pos = 0
        acc_images = [axes[labels[0]][i] for i in range(len(axes[labels[0]]))]
        calls_ok = []
        targets_ok = []
        images_per_dataset = {labels[0]: list(acc_images)}
        failed_dataset = None
        for lab in labels[1:]:
            ax = axes[lab]
            imgs = []
            for i in range(len(ax)):
                if pos >= len(log):
                    break
                x, T, tl, me, r = log[pos]
                pos += 1
                calls_ok.append(L.and_(L.eq(x, ax[i]), L.eq(tl, tol), me == method))
                # the target axis handed to align_index: exactly the images so far, strictly increasing once something was merged
                if lab != labels[1] or case.get("first") != "descending":
                    targets_ok.append(L.and_(*[L.lt(T[j], T[j + 1]) for j in range(len(T) - 1)]))
                targets_ok.append(L.and_(*[L.or_(*[L.eq(t, a) for a in acc_images]) for t in T]))
                targets_ok.append(L.and_(*[L.or_(*[L.eq(t, a) for t in T]) for a in acc_images]))
                yield f"image[{lab},{i}]", is_image(r, x, T, tol, method)
                imgs.append(r)
            images_per_dataset[lab] = imgs
            if len(imgs) < len(ax):
                failed_dataset = lab
                break
            distinct = L.and_(*[L.not_(L.eq(imgs[i], imgs[j])) for i in range(len(imgs)) for j in range(i + 1, len(imgs))])
            if isinstance(out, Raised) and pos == len(log) and lab == self._raised_at(labels, axes, log):
                failed_dataset = lab
                yield "error_only_if_two_points_of_one_dataset_share_an_image", L.not_(distinct)
                break
            yield f"images_of_one_dataset_distinct[{lab}]", distinct
            acc_images = acc_images + imgs
        yield "align_index_called_with_point_tolerance_method", L.and_(*calls_ok)
        yield "accumulated_axis_strictly_increasing_and_equal_to_images", L.and_(*targets_ok)
        if isinstance(out, Raised):
            yield "only_AlignDatasetError_is_raised", type(out.exc).__name__ == "AlignDatasetError"
            yield "error_is_attributed_to_a_dataset", failed_dataset is not None
            return
        yield "all_datasets_present_in_order", list(out.keys()) == labels
        same = []
        for lab in labels:
            res = list(np.asarray(out[lab], dtype=object))
            want = images_per_dataset.get(lab, [])
            same.append(len(res) == len(want) and L.and_(*[L.eq(a, b) for a, b in zip(res, want)]))
        yield "returned_axes_are_the_images", L.and_(*same)

    @staticmethod
    def _raised_at(labels, axes, log):
        """The dataset during whose alignment the function stopped (all its points were aligned)."""
        n = 0
        for lab in labels[1:]:
            n += len(axes[lab])
            if n == len(log):
                return lab
        return None


def _aligned_axes_sweep(self, tier, seed):
    from contracts.common import native_sweep, sorted_env

    cases = [{"sizes": sz, "method": m} for sz in ((9, 8, 7), (6, 5, 7, 4), (12, 12)) for m in METHODS]
    cases += [{"sizes": sz, "method": m, "first": "descending"} for sz in ((9, 8, 7), (12, 12)) for m in METHODS]

    def env(case, rng):
        e = {}
        base = sorted({round(rng.uniform(-10, 10), 1) for _ in range(40)})
        for d, n in enumerate(case["sizes"]):
            # axes that share points, nearly share points and have points of their own
            pts = sorted({(rng.choice(base) + rng.choice([0.0, 0.0, 0.02, -0.03, 0.4])) for _ in range(n * 4)})
            rng.shuffle(pts)
            pts = sorted(pts[:n])
            if len(pts) < n:
                pts = sorted(set(pts) | {20.0 + k for k in range(n - len(pts))})
            if d == 0 and case.get("first") == "descending":
                pts = pts[::-1]
            e.update({f"g{d}_{i}": round(v, 3) for i, v in enumerate(pts)})
        # (tolerances off the 0.001 grid of the points: a distance exactly equal to the tolerance is decided by float rounding,
        # which the native evaluation of the postcondition cannot reproduce; the boundary itself is decided symbolically)
        e["tol"] = rng.choice([0.0, 0.0555, 0.3333]) if case.get("first") != "descending" else rng.choice([0.0555, 0.3333, 2.5555])
        return e

    return native_sweep(self, cases, envs=env, tries=3, seed=seed)


AlignedGlobalAxes.bounded_checks = _aligned_axes_sweep
