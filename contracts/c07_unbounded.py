"""C07 (all sizes): the coherent-artifact kernels for every number of time points and global indices.

`_calculate_coherent_artifact_matrix_on_index`: column 0 is the IRF Gaussian exp(-(t - c)^2 / (2 w^2)), column 1 its first
and column 2 its second time derivative,
    g'(t) = g(t) (c - t) / w^2,        g''(t) = g(t) ((c - t)^2 - w^2) / w^4,
for as many columns as `order` asks for.  The kernel writes the second derivative with the polynomial expanded; that
(c - t)^2 - w^2 = c^2 - w^2 - 2 c t + t^2 is a separate obligation decided by z3 in exact real arithmetic and then used as
an axiom instance per time point.  `_calculate_coherent_artifact_matrix` is verified against that contract: slice i of the
3-d matrix is the on-index matrix for centre_i and width_i, other slices untouched.
"""
from __future__ import annotations

import z3

from contracts.unbounded import exp, inb, ints, records
from pyvc import wp
from pyvc.contract import Contract
from pyvc.sym import UF

MOD = "glotaran.builtin.megacomplexes.coherent_artifact.coherent_artifact_megacomplex"


def ext_np_exp(ex, st, args, kwargs, node):
    (a,) = args
    if isinstance(a, (wp.Arr, wp.View, wp.ColView, wp.LazyArr)) and a.ndim == 1:
        heap_now = dict(st.heap)
        return wp.LazyArr(a.shape, lambda i: exp(a.sel(heap_now, i)))
    return exp(a)


def columns(c, w, x, g0=None):
    """(g, g', g'') at time x for centre c and width w, from the definition; plus the expanded polynomial of the kernel.
    `g0`: the value the Gaussian column holds at x - the derivative columns are stated relative to it (g' = g (c-x)/w^2 ...),
    the Gaussian column itself being pinned to exp(-(x-c)^2/(2 w^2)) by its own obligation."""
    RV = wp.RV
    c, w, x = RV(c), RV(w), RV(x)
    d = x - c
    g = RV(exp(((-1 * (d * d)) / (2 * (w * w))).t))
    if g0 is not None:
        g_exact, g = g, RV(g0)
    g1 = g * (c - x) / (w * w)
    poly = (c - x) * (c - x) - w * w
    expanded = c * c - w * w - 2 * c * x + x * x
    g2 = g * poly / (w * w * w * w)
    return (g_exact if g0 is not None else g), g1, g2, poly, expanded


def polynomial_lemma(timeout_s=10.0):
    """(c - x)^2 - w^2 = c^2 - w^2 - 2 c x + x^2 for all reals (exact products)."""
    c, w, x = z3.Reals("c w x")
    ob = wp.Obligation("lemma_second_derivative_polynomial", [], (c - x) * (c - x) - w * w == c * c - w * w - 2 * c * x + x * x)
    return wp.discharge(ob, timeout_s)


def on_index_spec():
    import importlib

    fn = importlib.import_module(MOD)._calculate_coherent_artifact_matrix_on_index
    t, kk = ints("t", "kk")

    def requires(env):
        return [env.shape("matrix", 0) == env.shape("axis"), env.shape("matrix", 1) == env["order"], env["order"] >= 1, env["order"] <= 3]

    def axioms(env):
        _, _, _, poly, expanded = columns(env["center"], env["width"], env.sel("axis", t))
        return [z3.ForAll([t], poly.t == expanded.t, patterns=[env.sel("axis", t)])]

    def ensures(old, new, res):
        n, order = old.shape("axis"), old["order"]
        g, g1, g2, _, _ = columns(old["center"], old["width"], old.sel("axis", t), new.sel("matrix", t, 0))
        return [
            ("column_0_is_the_irf_gaussian", z3.ForAll([t], z3.Implies(inb(t, n), new.sel("matrix", t, 0) == g.t), patterns=[new.sel("matrix", t, 0)])),
            ("column_1_is_its_first_time_derivative", z3.ForAll([t], z3.Implies(z3.And(inb(t, n), order > 1), new.sel("matrix", t, 1) == g1.t), patterns=[new.sel("matrix", t, 1)])),
            ("column_2_is_its_second_time_derivative", z3.ForAll([t], z3.Implies(z3.And(inb(t, n), order > 2), new.sel("matrix", t, 2) == g2.t), patterns=[new.sel("matrix", t, 2)])),
            ("nothing_outside_the_matrix_is_written", z3.ForAll([t, kk], z3.Implies(z3.Not(z3.And(inb(t, n), inb(kk, order))), new.sel("matrix", t, kk) == old.sel("matrix", t, kk)), patterns=[new.sel("matrix", t, kk)])),
        ]

    params = [("matrix", "arr2"), ("center", "real"), ("width", "real"), ("axis", "arr1"), ("order", "int")]
    return wp.FnSpec(fn, params, requires, ("matrix",), ensures, {}, {"np.exp": ext_np_exp}, axioms=axioms)


def all_indices_spec():
    import importlib

    fn = importlib.import_module(MOD)._calculate_coherent_artifact_matrix
    callee = on_index_spec()
    i, t, k = ints("i", "t", "k")

    def requires(env):
        ng = env["global_axis_size"]
        return [ng >= 0, env.shape("matrix", 0) == ng, env.shape("matrix", 1) == env.shape("model_axis"), env.shape("matrix", 2) == env["order"], env.shape("centers") == ng, env.shape("widths") == ng, env["order"] >= 1, env["order"] <= 3]

    def slices(old, now, upto):
        n, order, ng = old.shape("model_axis"), old["order"], old["global_axis_size"]
        g, g1, g2, _, _ = columns(old.sel("centers", i), old.sel("widths", i), old.sel("model_axis", t), now.sel("matrix", i, t, 0))
        want = z3.If(k == 0, g.t, z3.If(k == 1, g1.t, g2.t))
        done = z3.And(inb(i, upto), inb(t, n), inb(k, order))
        return z3.ForAll([i, t, k], z3.If(done, now.sel("matrix", i, t, k) == want, z3.Implies(z3.Not(z3.And(inb(i, ng), inb(t, n), inb(k, order))), now.sel("matrix", i, t, k) == old.sel("matrix", i, t, k))), patterns=[now.sel("matrix", i, t, k)])

    def ensures(old, new, res):
        return [("slice_i_holds_the_gaussian_and_its_derivatives_for_centre_i_and_width_i", slices(old, new, old["global_axis_size"]))]

    def inv0(old, now, j):
        return [slices(old, now, j)]

    params = [("matrix", "arr3"), ("centers", "arr1"), ("widths", "arr1"), ("global_axis_size", "int"), ("model_axis", "arr1"), ("order", "int")]
    ext = {"_calculate_coherent_artifact_matrix_on_index": wp.call_contract(callee)}
    return wp.FnSpec(fn, params, requires, ("matrix",), ensures, {0: inv0}, ext)


# ----------------------------------------------------------------------------- damped oscillation without IRF
DO = "glotaran.builtin.megacomplexes.damped_oscillation.damped_oscillation_megacomplex"
COS, SIN = UF["cos"], UF["sin"]


def _even_odd(x):
    """x as (sign, |x|) when x is a monomial with a negative coefficient (cos is even, sin is odd: cos(-y) = cos(y),
    sin(-y) = -sin(y) - Mathlib `Real.cos_neg`, `Real.sin_neg`, re-checked in lemmas/FunctionAxioms.lean)."""
    c, f = wp._split(wp._real(x))
    if f and c < 0:
        return -1, wp._build(-c, f)
    return 1, wp._real(x)


def cos_(x):
    return COS(_even_odd(x)[1])


def sin_(x):
    sg, y = _even_odd(x)
    return SIN(y) if sg > 0 else wp.rmul(-1, SIN(y))


def cexp(z):
    """exp of a complex number given as a pair of reals: exp(a + ib) = exp(a) cos(b) + i exp(a) sin(b)."""
    if not isinstance(z, wp.Cx):
        return exp(z)
    if wp._is_zero(z.re):
        return wp.Cx(cos_(z.im), sin_(z.im))  # exp(0) = 1
    e = exp(z.re)
    return wp.Cx(wp.rmul(e, cos_(z.im)), wp.rmul(e, sin_(z.im)))


def ext_np_exp_complex(ex, st, args, kwargs, node):
    (a,) = args
    if isinstance(a, (wp.Arr, wp.View, wp.ColView, wp.LazyArr)) and a.ndim == 1:
        heap_now = dict(st.heap)
        return wp.LazyArr(a.shape, lambda i: cexp(a.sel(heap_now, i)))
    return cexp(a)


def ext_len(ex, st, args, kwargs, node):
    (a,) = args
    if not isinstance(a, (wp.Arr, wp.View, wp.ColView, wp.LazyArr)):
        raise wp.Unsupported("len() of something that is not an array")
    return a.shape[0]


def oscillation_spec():
    import importlib

    fn = importlib.import_module(DO).calculate_damped_oscillation_matrix_no_irf
    t, c = ints("t", "c")

    def requires(env):
        n = env.shape("frequencies")
        return [env.shape("rates") == n, env.shape("matrix", 0) == env.shape("axis"), env.shape("matrix", 1) == 2 * n]

    def cell(old, now, upto):
        """columns k < upto hold exp(-rate_k t) cos(freq_k t), columns n + k hold -exp(-rate_k t) sin(freq_k t) - the
        real and imaginary part of exp(-rate_k t - i freq_k t); every other cell is as it was."""
        n, nt = old.shape("frequencies"), old.shape("axis")
        RV = wp.RV
        k = z3.If(c < n, c, c - n)
        x = old.sel("axis", t)
        damp = exp((-(RV(old.sel("rates", k)) * RV(x))).t)
        phase = (RV(old.sel("frequencies", k)) * RV(x)).t
        want = z3.If(c < n, wp.rmul(damp, COS(phase)), wp.rmul(-1, wp.rmul(damp, SIN(phase))))
        done = z3.And(inb(t, nt), inb(c, 2 * n), k < upto)
        return z3.ForAll([t, c], z3.If(done, now.sel("matrix", t, c) == want, now.sel("matrix", t, c) == old.sel("matrix", t, c)), patterns=[now.sel("matrix", t, c)])

    def ensures(old, new, res):
        return [("column_k_is_the_real_and_column_n_plus_k_the_imaginary_part_of_exp_minus_rate_k_t_minus_i_frequency_k_t", cell(old, new, old.shape("frequencies")))]

    def inv0(old, now, i):
        # the running column counter of the code is the number of oscillations done
        counters = [v for nm, v in now._vars.items() if nm in ("idx",) and z3.is_expr(v)]
        return [cell(old, now, i)] + [v == i for v in counters] + [now["number_of_oscillations"] == old.shape("frequencies")]

    params = [("matrix", "arr2"), ("frequencies", "arr1"), ("rates", "arr1"), ("axis", "arr1")]
    return wp.FnSpec(fn, params, requires, ("matrix",), ensures, {0: inv0}, {"np.exp": ext_np_exp_complex, "len": ext_len})


class CoherentArtifactAllSizes(Contract):
    prop = "C07"
    name = "CoherentArtifactAllSizes"
    target = f"{MOD}:_calculate_coherent_artifact_matrix_on_index"
    functions = (f"{MOD}:_calculate_coherent_artifact_matrix",)
    strength = "U"
    trusted = (
        *__import__('contracts.unbounded', fromlist=['WP_ASSUMPTIONS']).WP_ASSUMPTIONS,
        "numba compiles the kernels with Python semantics; nb.prange = range (C10 PrangeRaces); numpy contracts: elementwise arithmetic of 1-d arrays and scalars, np.exp elementwise, `a[:, c]` column view / column store, `a[i]` view",
        "exp uninterpreted; floats as reals",
    )
    drops = ("PyVC-U re-reads the kernels' source and drops the @nb.jit decorators; accepted subset in pyvc/wp.py",)

    def cases(self, tier):
        return iter(())

    def static_obligations(self, tier):
        ob = polynomial_lemma()
        out = [{"name": ob.name, "ok": ob.status == "proved", "undecided": ob.status == "unknown", "function": self.target, "backend": ob.backend, "strength": "U", "detail": "exact real arithmetic, all c, w, x"}]
        import numpy as np

        from contracts.unbounded import crosscheck

        def a1(rng, k):
            nt, order = rng.integers(0, 4), int(rng.integers(1, 4))
            return {"matrix": np.zeros((nt, order)), "center": rng.uniform(-1, 1), "width": rng.uniform(0.2, 1), "axis": rng.uniform(-2, 2, nt), "order": order}

        def a2(rng, k):
            ng, nt, order = rng.integers(0, 3), rng.integers(0, 4), int(rng.integers(1, 4))
            return {"matrix": np.zeros((ng, nt, order)), "centers": rng.uniform(-1, 1, ng), "widths": rng.uniform(0.2, 1, ng), "global_axis_size": int(ng), "model_axis": rng.uniform(-2, 2, nt), "order": order}

        return out + records(on_index_spec(), self.name, prefix="on_index.") + records(all_indices_spec(), self.name, prefix="all_indices.") + crosscheck(on_index_spec(), a1) + crosscheck(all_indices_spec(), a2)


class OscillationKernelAllSizes(Contract):
    """`calculate_damped_oscillation_matrix_no_irf` for every number of oscillations and time points: blocked layout
    (cos block, then sin block, oscillation k in columns k and n + k), each pair the real and imaginary part of
    exp(-rate_k t - i frequency_k t)."""

    prop = "C07"
    name = "OscillationKernelAllSizes"
    target = f"{DO}:calculate_damped_oscillation_matrix_no_irf"
    strength = "U"
    trusted = (
        *__import__('contracts.unbounded', fromlist=['WP_ASSUMPTIONS']).WP_ASSUMPTIONS,
        "numba compiles the kernel with Python semantics; numpy contracts: elementwise arithmetic of 1-d arrays with real and complex scalars, np.exp elementwise on complex128 = (exp a cos b, exp a sin b) (lemmas/FunctionAxioms.lean ax_cexp_re/im), .real/.imag, `a[:, c] = v` column store, zip over 1-d arrays",
        "exp, cos, sin uninterpreted (cos even, sin odd applied as a normal form: ax_cos_neg, ax_sin_neg); floats as reals; complex128 as a pair of reals",
    )
    drops = ("PyVC-U re-reads the kernel's source and drops the @nb.jit decorator; `for x, y in zip(a, b)` is read as `for k in range(min(len a, len b)): x, y = a[k], b[k]`",)

    def cases(self, tier):
        return iter(())

    def static_obligations(self, tier):
        import numpy as np

        from contracts.unbounded import crosscheck

        def args(rng, k):
            n, nt = int(rng.integers(0, 4)), int(rng.integers(0, 4))
            return {"matrix": rng.uniform(-1, 1, (nt, 2 * n)), "frequencies": rng.uniform(0.1, 3, n), "rates": rng.uniform(-0.5, 2, n), "axis": rng.uniform(-1, 3, nt)}

        return records(oscillation_spec(), self.name, prefix="no_irf.") + crosscheck(oscillation_spec(), args)


def _with_selftest(fn):
    def wrapped(self, tier):
        from contracts.unbounded import engine_selftest

        return fn(self, tier) + engine_selftest()

    return wrapped


CoherentArtifactAllSizes.static_obligations = _with_selftest(CoherentArtifactAllSizes.static_obligations)
