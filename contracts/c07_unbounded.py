"""C07 (all sizes): the coherent-artifact kernels for every number of time points and global indices.

`_calculate_coherent_artifact_matrix_on_index`: column 0 is the IRF Gaussian exp(-(t - c)^2 / (2 w^2)), column 1 its first
and column 2 its second time derivative,
    g'(t) = g(t) (c - t) / w^2,        g''(t) = g(t) ((c - t)^2 - w^2) / w^4,
for as many columns as `order` asks for.  The kernel writes the second derivative with the polynomial expanded; that
(c - t)^2 - w^2 = c^2 - w^2 - 2 c t + t^2 is a separate obligation decided by z3 in exact real arithmetic and then used as
an axiom instance per time point.  `_calculate_coherent_artifact_matrix` is verified against that contract: slice i of the
3-d matrix is the on-index matrix for centre_i and width_i, other slices untouched.
"""
from __future__ import annotations

import z3

from contracts.unbounded import exp, inb, ints, records
from pyvc import wp
from pyvc.contract import Contract

MOD = "glotaran.builtin.megacomplexes.coherent_artifact.coherent_artifact_megacomplex"


def ext_np_exp(ex, st, args, kwargs, node):
    (a,) = args
    if isinstance(a, (wp.Arr, wp.View, wp.ColView, wp.LazyArr)) and a.ndim == 1:
        heap_now = dict(st.heap)
        return wp.LazyArr(a.shape, lambda i: exp(a.sel(heap_now, i)))
    return exp(a)


def columns(c, w, x, g0=None):
    """(g, g', g'') at time x for centre c and width w, from the definition; plus the expanded polynomial of the kernel.
    `g0`: the value the Gaussian column holds at x - the derivative columns are stated relative to it (g' = g (c-x)/w^2 ...),
    the Gaussian column itself being pinned to exp(-(x-c)^2/(2 w^2)) by its own obligation."""
    RV = wp.RV
    c, w, x = RV(c), RV(w), RV(x)
    d = x - c
    g = RV(exp(((-1 * (d * d)) / (2 * (w * w))).t))
    if g0 is not None:
        g_exact, g = g, RV(g0)
    g1 = g * (c - x) / (w * w)
    poly = (c - x) * (c - x) - w * w
    expanded = c * c - w * w - 2 * c * x + x * x
    g2 = g * poly / (w * w * w * w)
    return (g_exact if g0 is not None else g), g1, g2, poly, expanded


def polynomial_lemma(timeout_s=10.0):
    """(c - x)^2 - w^2 = c^2 - w^2 - 2 c x + x^2 for all reals (exact products)."""
    c, w, x = z3.Reals("c w x")
    ob = wp.Obligation("lemma_second_derivative_polynomial", [], (c - x) * (c - x) - w * w == c * c - w * w - 2 * c * x + x * x)
    return wp.discharge(ob, timeout_s)


def on_index_spec():
    import importlib

    fn = importlib.import_module(MOD)._calculate_coherent_artifact_matrix_on_index
    t, kk = ints("t", "kk")

    def requires(env):
        return [env.shape("matrix", 0) == env.shape("axis"), env.shape("matrix", 1) == env["order"], env["order"] >= 1, env["order"] <= 3]

    def axioms(env):
        _, _, _, poly, expanded = columns(env["center"], env["width"], env.sel("axis", t))
        return [z3.ForAll([t], poly.t == expanded.t, patterns=[env.sel("axis", t)])]

    def ensures(old, new, res):
        n, order = old.shape("axis"), old["order"]
        g, g1, g2, _, _ = columns(old["center"], old["width"], old.sel("axis", t), new.sel("matrix", t, 0))
        return [
            ("column_0_is_the_irf_gaussian", z3.ForAll([t], z3.Implies(inb(t, n), new.sel("matrix", t, 0) == g.t), patterns=[new.sel("matrix", t, 0)])),
            ("column_1_is_its_first_time_derivative", z3.ForAll([t], z3.Implies(z3.And(inb(t, n), order > 1), new.sel("matrix", t, 1) == g1.t), patterns=[new.sel("matrix", t, 1)])),
            ("column_2_is_its_second_time_derivative", z3.ForAll([t], z3.Implies(z3.And(inb(t, n), order > 2), new.sel("matrix", t, 2) == g2.t), patterns=[new.sel("matrix", t, 2)])),
            ("nothing_outside_the_matrix_is_written", z3.ForAll([t, kk], z3.Implies(z3.Not(z3.And(inb(t, n), inb(kk, order))), new.sel("matrix", t, kk) == old.sel("matrix", t, kk)), patterns=[new.sel("matrix", t, kk)])),
        ]

    params = [("matrix", "arr2"), ("center", "real"), ("width", "real"), ("axis", "arr1"), ("order", "int")]
    return wp.FnSpec(fn, params, requires, ("matrix",), ensures, {}, {"np.exp": ext_np_exp}, axioms=axioms)


def all_indices_spec():
    import importlib

    fn = importlib.import_module(MOD)._calculate_coherent_artifact_matrix
    callee = on_index_spec()
    i, t, k = ints("i", "t", "k")

    def requires(env):
        ng = env["global_axis_size"]
        return [ng >= 0, env.shape("matrix", 0) == ng, env.shape("matrix", 1) == env.shape("model_axis"), env.shape("matrix", 2) == env["order"], env.shape("centers") == ng, env.shape("widths") == ng, env["order"] >= 1, env["order"] <= 3]

    def slices(old, now, upto):
        n, order, ng = old.shape("model_axis"), old["order"], old["global_axis_size"]
        g, g1, g2, _, _ = columns(old.sel("centers", i), old.sel("widths", i), old.sel("model_axis", t), now.sel("matrix", i, t, 0))
        want = z3.If(k == 0, g.t, z3.If(k == 1, g1.t, g2.t))
        done = z3.And(inb(i, upto), inb(t, n), inb(k, order))
        return z3.ForAll([i, t, k], z3.If(done, now.sel("matrix", i, t, k) == want, z3.Implies(z3.Not(z3.And(inb(i, ng), inb(t, n), inb(k, order))), now.sel("matrix", i, t, k) == old.sel("matrix", i, t, k))), patterns=[now.sel("matrix", i, t, k)])

    def ensures(old, new, res):
        return [("slice_i_holds_the_gaussian_and_its_derivatives_for_centre_i_and_width_i", slices(old, new, old["global_axis_size"]))]

    def inv0(old, now, j):
        return [slices(old, now, j)]

    params = [("matrix", "arr3"), ("centers", "arr1"), ("widths", "arr1"), ("global_axis_size", "int"), ("model_axis", "arr1"), ("order", "int")]
    ext = {"_calculate_coherent_artifact_matrix_on_index": wp.call_contract(callee)}
    return wp.FnSpec(fn, params, requires, ("matrix",), ensures, {0: inv0}, ext)


class CoherentArtifactAllSizes(Contract):
    prop = "C07"
    name = "CoherentArtifactAllSizes"
    target = f"{MOD}:_calculate_coherent_artifact_matrix_on_index"
    functions = (f"{MOD}:_calculate_coherent_artifact_matrix",)
    strength = "U"
    trusted = (
        *__import__('contracts.unbounded', fromlist=['WP_ASSUMPTIONS']).WP_ASSUMPTIONS,
        "numba compiles the kernels with Python semantics; nb.prange = range (C10 PrangeRaces); numpy contracts: elementwise arithmetic of 1-d arrays and scalars, np.exp elementwise, `a[:, c]` column view / column store, `a[i]` view",
        "exp uninterpreted; floats as reals",
    )
    drops = ("PyVC-U re-reads the kernels' source and drops the @nb.jit decorators; accepted subset in pyvc/wp.py",)

    def cases(self, tier):
        return iter(())

    def static_obligations(self, tier):
        ob = polynomial_lemma()
        out = [{"name": ob.name, "ok": ob.status == "proved", "undecided": ob.status == "unknown", "function": self.target, "backend": ob.backend, "strength": "U", "detail": "exact real arithmetic, all c, w, x"}]
        import numpy as np

        from contracts.unbounded import crosscheck

        def a1(rng, k):
            nt, order = rng.integers(0, 4), int(rng.integers(1, 4))
            return {"matrix": np.zeros((nt, order)), "center": rng.uniform(-1, 1), "width": rng.uniform(0.2, 1), "axis": rng.uniform(-2, 2, nt), "order": order}

        def a2(rng, k):
            ng, nt, order = rng.integers(0, 3), rng.integers(0, 4), int(rng.integers(1, 4))
            return {"matrix": np.zeros((ng, nt, order)), "centers": rng.uniform(-1, 1, ng), "widths": rng.uniform(0.2, 1, ng), "global_axis_size": int(ng), "model_axis": rng.uniform(-2, 2, nt), "order": order}

        return out + records(on_index_spec(), self.name, prefix="on_index.") + records(all_indices_spec(), self.name, prefix="all_indices.") + crosscheck(on_index_spec(), a1) + crosscheck(all_indices_spec(), a2)


def _with_selftest(fn):
    def wrapped(self, tier):
        from contracts.unbounded import engine_selftest

        return fn(self, tier) + engine_selftest()

    return wrapped


CoherentArtifactAllSizes.static_obligations = _with_selftest(CoherentArtifactAllSizes.static_obligations)
