"""C19 - plugin registry: first registration wins, every plugin stays reachable.

Data structure against an abstract view: the registry handed to the real functions is a lazily
symbolic map (GhostRegistry): for every key of a finite universe its presence and the plugin stored
under it are decided by fresh symbolic Booleans when the code first looks - i.e. the pre-state is an
arbitrary registry over that universe.  Every write is logged; post-conditions are stated over the
whole map (expected writes == actual writes, so nothing else changes).
"""
from __future__ import annotations

import itertools
import warnings
from collections.abc import MutableMapping

from pyvc.contract import Contract, L, Raised

BR = "glotaran.plugin_system.base_registry"


class PlugA:
    def __init__(self, format_name="a"):
        self.format = format_name


class PlugB:
    def __init__(self, format_name="b"):
        self.format = format_name


def full(p):
    return f"{p.__module__}.{p.__name__}" if isinstance(p, type) else f"{type(p).__module__}.{type(p).__name__}"


class GhostRegistry(MutableMapping):
    def __init__(self, S, universe, pool):
        self.S, self.universe, self.pool = S, list(universe), list(pool)
        self.present, self.value = {}, {}
        self.pre_present, self.pre_value = {}, {}
        self.writes, self.deletes = [], []

    def _decide_present(self, key):
        if key not in self.present:
            if key not in self.universe:
                raise KeyError(f"key {key!r} outside the registry universe")
            i = self.universe.index(key)
            b = bool(self.S.bool(f"has_{i}")) if self.S.symbolic else bool(self.S.bool(f"has_{i}"))
            self.present[key] = b
            self.pre_present[key] = b
        return self.present[key]

    def __contains__(self, key):
        if key not in self.universe and key not in self.present:
            return False
        return self._decide_present(key)

    def __getitem__(self, key):
        if key not in self:
            raise KeyError(key)
        if key not in self.value:
            i = self.universe.index(key)
            idx = 0
            for j in range(1, len(self.pool)):
                if bool(self.S.bool(f"pick_{i}_{j}")):
                    idx = j
                    break
            self.value[key] = self.pool[idx]
            self.pre_value[key] = self.pool[idx]
        return self.value[key]

    def __setitem__(self, key, value):
        self.writes.append((key, value))
        self.present[key] = True
        self.value[key] = value

    def __delitem__(self, key):
        self.deletes.append(key)
        self.present[key] = False

    def __iter__(self):
        for k in self.universe:
            if k in self:
                yield k
        for k in self.present:
            if k not in self.universe and self.present[k]:
                yield k

    def __len__(self):
        return sum(1 for _ in self)


def _pool(P):
    same_class_other_instance = type(P)("other") if not isinstance(P, type) else P
    return [P, same_class_other_instance, PlugB("b") if not isinstance(P, type) else PlugB]


class AddPlugin(Contract):
    prop = "C19"
    name = "AddPlugin"
    target = f"{BR}:add_plugin_to_registry"
    functions = (f"{BR}:full_plugin_name", f"{BR}:PluginOverwriteWarning")
    modules = ()
    strength = "U"
    agreement_runs = 0
    trusted = ("strings are concrete representatives ('fmt' without dot, 'a.b' with dot, real module-qualified class names): the code only tests '.' membership, concatenates and hashes them (parametricity, stated)",)

    def cases(self, tier):
        for key in ("fmt", "a.b"):
            for kind in ("instance", "class"):
                for ident in ("", "fmt"):
                    yield {"key": key, "plugin": kind, "identifier": ident}

    def build(self, S, case):
        P = PlugA("fmt") if case["plugin"] == "instance" else PlugA
        sfx = f"_{case['identifier']}" if case["identifier"] else ""
        universe = [case["key"], full(P), full(P) + sfx, "other", full(PlugB)]
        universe = list(dict.fromkeys(universe))
        reg = GhostRegistry(S, universe, _pool(P))
        return {"P": P, "reg": reg, "sfx": sfx}

    def call(self, S, case, inp):
        from glotaran.plugin_system.base_registry import add_plugin_to_registry

        with warnings.catch_warnings(record=True) as w:
            warnings.simplefilter("always")
            add_plugin_to_registry(case["key"], inp["P"], inp["reg"], "set_x_plugin", case["identifier"])
        return list(w)

    def observe(self, out):
        return out if isinstance(out, Raised) else len(out)

    def ensures(self, S, case, inp, out):
        from glotaran.plugin_system.base_registry import PluginOverwriteWarning

        reg, P, key = inp["reg"], inp["P"], case["key"]
        if "." in key:
            yield "dotted_short_name_rejected_with_ValueError", isinstance(out, Raised) and isinstance(out.exc, ValueError)
            yield "registry_unchanged_on_error", reg.writes == [] and reg.deletes == []
            return
        if isinstance(out, Raised):
            yield "no_exception", False
            return
        present_k = reg.pre_present.get(key)
        yield "presence_of_short_name_was_consulted", present_k is not None
        fullname = full(P)
        final = {}
        for k, v in reg.writes:
            final[k] = v
        expected = {fullname + inp["sfx"]: P}
        if present_k:
            expected[fullname] = P  # the newcomer stays reachable under its full name
        else:
            expected[key] = P
        yield "writes_are_exactly_the_expected_entries_rest_of_the_map_unchanged", final.keys() == expected.keys() and all(final[k] is expected[k] for k in expected) and reg.deletes == []
        if present_k:
            yield "first_registration_wins_short_name_not_replaced", key not in final
        else:
            yield "new_short_name_resolves_to_the_plugin", final.get(key) is P
        yield "plugin_reachable_under_full_name_with_identifier", final.get(fullname + inp["sfx"]) is P
        conflict = bool(present_k) and full(reg.pre_value[key]) != fullname if present_k else False
        ws = [x for x in out if issubclass(x.category, PluginOverwriteWarning)]
        yield "warning_iff_conflicting_registration", len(ws) == (1 if conflict else 0) and len(out) == len(ws)
        if conflict and ws:
            yield "warning_names_the_access_name", repr(key) in str(ws[0].message) and "set_x_plugin" in str(ws[0].message)


class AddInstantiated(Contract):
    prop = "C19"
    name = "AddInstantiated"
    target = f"{BR}:add_instantiated_plugin_to_registry"
    strength = "U"
    agreement_runs = 0

    def cases(self, tier):
        yield {"keys": "one"}
        yield {"keys": ["one"]}
        yield {"keys": ["one", "two"]}

    def build(self, S, case):
        keys = [case["keys"]] if isinstance(case["keys"], str) else list(case["keys"])
        fn = full(PlugA)
        universe = list(dict.fromkeys(keys + [fn] + [f"{fn}_{k}" for k in keys] + [full(PlugB)]))
        reg = GhostRegistry(S, universe, [PlugA("pre"), PlugB("pre")])
        return {"reg": reg, "keys": keys}

    def call(self, S, case, inp):
        from glotaran.plugin_system.base_registry import add_instantiated_plugin_to_registry

        with warnings.catch_warnings(record=True) as w:
            warnings.simplefilter("always")
            add_instantiated_plugin_to_registry(case["keys"], PlugA, inp["reg"], "set_x_plugin")
        return list(w)

    def observe(self, out):
        return out if isinstance(out, Raised) else len(out)

    def ensures(self, S, case, inp, out):
        if isinstance(out, Raised):
            yield "no_exception", False
            return
        reg, keys = inp["reg"], inp["keys"]
        fn = full(PlugA)
        final = {}
        for k, v in reg.writes:
            final[k] = v
        for k in keys:
            inst = final.get(f"{fn}_{k}")
            yield f"instance_for_format_reachable_under_full_name[{k}]", isinstance(inst, PlugA) and inst.format == k
            if reg.pre_present.get(k):
                yield f"existing_short_name_kept[{k}]", k not in final
            else:
                yield f"new_short_name_points_to_its_instance[{k}]", final.get(k) is inst
        allowed = set(keys) | {fn} | {f"{fn}_{k}" for k in keys}
        yield "no_other_entry_written", set(final) <= allowed and reg.deletes == []


class SetPlugin(Contract):
    prop = "C19"
    name = "SetPlugin"
    target = f"{BR}:set_plugin"
    functions = (f"{BR}:is_registered_plugin",)
    strength = "U"
    agreement_runs = 0

    def cases(self, tier):
        for key in ("fmt", "a.b"):
            for target in (full(PlugA), "nodot", full(PlugB) + "_x"):
                yield {"key": key, "full": target}

    def build(self, S, case):
        universe = list(dict.fromkeys([case["key"], case["full"], "other", full(PlugB)]))
        reg = GhostRegistry(S, universe, [PlugA("a"), PlugB("b"), PlugA])
        return {"reg": reg}

    def call(self, S, case, inp):
        from glotaran.plugin_system.base_registry import set_plugin

        set_plugin(case["key"], case["full"], inp["reg"])
        return None

    def ensures(self, S, case, inp, out):
        reg, key, fn = inp["reg"], case["key"], case["full"]
        if "." in key:
            yield "dotted_short_name_rejected", isinstance(out, Raised) and isinstance(out.exc, ValueError) and reg.writes == []
            return
        target_ok = "." in fn and reg.pre_present.get(fn) is True
        if not target_ok:
            yield "unknown_full_name_rejected_with_ValueError", isinstance(out, Raised) and isinstance(out.exc, ValueError) and reg.writes == [] and reg.deletes == []
            if isinstance(out, Raised) and "." in fn:
                known = [k for k in reg.universe if reg.present.get(k) and "." in k]
                yield "error_names_the_known_full_names", all(repr(k) in str(out.exc) or k in str(out.exc) for k in known)
            return
        if isinstance(out, Raised):
            yield "no_exception", False
            return
        yield "short_name_repointed_to_the_named_plugin_only", reg.writes == [(key, reg.pre_value[fn])] and reg.deletes == []


class Lookup(Contract):
    prop = "C19"
    name = "Lookup"
    target = f"{BR}:get_plugin_from_registry"
    functions = (f"{BR}:registered_plugins", f"{BR}:is_registered_plugin")
    strength = "U"
    agreement_runs = 0

    def cases(self, tier):
        yield {"key": "fmt"}
        yield {"key": full(PlugA)}

    def build(self, S, case):
        universe = list(dict.fromkeys([case["key"], "zeta", "alpha", full(PlugB), full(PlugA) + "_x"]))
        reg = GhostRegistry(S, universe, [PlugA("a"), PlugB("b")])
        return {"reg": reg}

    def call(self, S, case, inp):
        from glotaran.plugin_system.base_registry import get_plugin_from_registry, is_registered_plugin, registered_plugins

        reg = inp["reg"]
        short = registered_plugins(reg)
        fulln = registered_plugins(reg, full_names=True)
        known = is_registered_plugin(case["key"], reg)
        try:
            got = get_plugin_from_registry(case["key"], reg, f"unknown {case['key']!r}, known: {short}")
        except ValueError as e:
            got = e
        return {"short": short, "full": fulln, "known": known, "got": got}

    def observe(self, out):
        return out if isinstance(out, Raised) else (out["short"], out["full"], out["known"])

    def ensures(self, S, case, inp, out):
        if isinstance(out, Raised):
            yield "no_exception", False
            return
        reg = inp["reg"]
        present = [k for k in reg.universe if reg.present.get(k)]
        yield "registered_short_names_sorted_without_dots", out["short"] == sorted(k for k in present if "." not in k)
        yield "registered_full_names_sorted_all_keys", out["full"] == sorted(present)
        yield "is_registered_iff_present", out["known"] == bool(reg.present.get(case["key"]))
        if reg.present.get(case["key"]):
            yield "lookup_returns_the_stored_plugin", out["got"] is reg.value[case["key"]]
        else:
            yield "unknown_name_raises_ValueError_naming_known_ones", isinstance(out["got"], ValueError) and all(k in str(out["got"]) for k in out["short"])
        yield "lookups_do_not_write", reg.writes == [] and reg.deletes == []


class Histories(Contract):
    """Bounded stand-in for the induction lemma (first registration wins / reachability) + dispatch."""

    prop = "C19"
    name = "Histories"
    target = f"{BR}:add_plugin_to_registry"
    strength = "U"

    def cases(self, tier):
        return iter(())

    def bounded_checks(self, tier, seed):
        from glotaran.plugin_system.base_registry import add_plugin_to_registry, get_plugin_from_registry, set_plugin

        depth = 4 if tier == "quick" else 5
        plugins = {"A1": PlugA("s"), "A2": PlugA("t"), "B1": PlugB("s")}
        idents = {"A1": "s", "A2": "t", "B1": "s"}
        ops = [("add", k, p) for k in ("s", "t") for p in plugins] + [("set", k, full(plugins[p]) + "_" + idents[p]) for k in ("s", "t") for p in ("A1", "B1")]
        bad = None
        n = 0
        for seq in itertools.product(ops, repeat=depth):
            reg, pinned, registered = {}, {}, {}
            n += 1
            for op in seq:
                with warnings.catch_warnings():
                    warnings.simplefilter("ignore")
                    if op[0] == "add":
                        _, k, p = op
                        add_plugin_to_registry(k, plugins[p], reg, "set_x", idents[p])
                        pinned.setdefault(k, plugins[p])
                        registered[full(plugins[p]) + "_" + idents[p]] = plugins[p]
                    else:
                        _, k, fn = op
                        try:
                            set_plugin(k, fn, reg)
                            if fn not in registered:
                                bad = (seq, f"set_plugin({k!r}, {fn!r}) accepted a full name that is not registered")
                            else:
                                pinned[k] = registered[fn]
                        except ValueError:
                            if fn in registered:
                                bad = (seq, "set_plugin rejected a registered full name")
                for k, p in pinned.items():
                    if get_plugin_from_registry(k, reg, "x") is not p:
                        bad = (seq, f"short name {k} no longer resolves to the first registered / pinned plugin")
                for fn, p in registered.items():
                    if reg.get(fn) is not p:
                        bad = (seq, f"plugin not reachable under full name {fn}")
                if bad:
                    break
            if bad:
                break
        return [
            {
                "name": "bounded_histories_first_registration_wins_and_full_names_reachable",
                "ok": bad is None,
                "case": f"all {n} sequences of length {depth} over {len(ops)} operations",
                "function": BR,
                "witness": None if bad is None else {"sequence": [str(o) for o in bad[0]], "why": bad[1]},
                "detail": "exhaustive histories on real dicts (bounded stand-in for the induction lemma over the per-operation contracts)",
            }
        ]

    def static_obligations(self, tier):
        """Dispatch: load_*/save_* hand the given or inferred format to the registry and call the resolved plugin."""
        import inspect
        import os
        import tempfile

        from glotaran.plugin_system import base_registry, data_io_registration, project_io_registration
        from glotaran.plugin_system.io_plugin_utils import infer_file_format

        res = []
        with tempfile.TemporaryDirectory() as d:
            p = os.path.join(d, "f.XyZ")
            open(p, "w").close()
            ok = infer_file_format(p) == "XyZ" and infer_file_format(os.path.join(d, "g.yml"), needs_to_exist=False) == "yaml"
            try:
                infer_file_format(os.path.join(d, "missing.csv"))
                ok = False
            except ValueError:
                pass
            try:
                infer_file_format(os.path.join(d, "noext"), needs_to_exist=False)
                ok = False
            except ValueError:
                pass
            ok = ok and infer_file_format(os.path.join(d, "folder"), needs_to_exist=False, allow_folder=True) == "yaml"
            res.append({"name": "infer_file_format_is_the_extension", "ok": ok, "detail": "", "function": "io_plugin_utils.infer_file_format"})
            # truth table from the documentation: "File extension without the leading dot" (yml -> yaml) whenever the path has
            # one - whether it names a file, a folder or nothing yet; no extension: "yaml" for folders when allowed, ValueError
            # otherwise; ValueError when a file is required and missing
            bad = []
            for kind in ("missing", "file", "directory"):
                for name, ext in (("plain", None), ("a.XyZ", "XyZ"), ("b.yml", "yaml"), ("c.d.XyZ", "XyZ"), ("e.CSV", "CSV"), ("run1.store", "store")):
                    for needs in (True, False):
                        for folder in (True, False):
                            q = os.path.join(d, f"tt_{kind}_{needs}_{folder}", name)
                            os.makedirs(os.path.dirname(q), exist_ok=True)
                            if kind == "file":
                                open(q, "w").close()
                            elif kind == "directory":
                                os.makedirs(q, exist_ok=True)
                            if needs and not folder and kind != "file":
                                want = ValueError
                            elif ext is not None:
                                want = ext
                            else:
                                want = "yaml" if folder else ValueError
                            try:
                                got = infer_file_format(q, needs_to_exist=needs, allow_folder=folder)
                            except ValueError:
                                got = ValueError
                            except Exception as e:
                                got = repr(e)
                            if got != want:
                                bad.append((kind, name, needs, folder, str(got), str(want)))
            res.append({"name": "infer_file_format_truth_table_file_folder_missing_x_extension_x_flags", "ok": not bad, "detail": f"{bad[:3]}", "witness": {"mismatches (kind, name, needs_to_exist, allow_folder, got, want)": bad[:5]} if bad else None, "function": "io_plugin_utils.infer_file_format"})

            class Rec:
                def __init__(self, name):
                    self.name, self.calls = name, []

                def __getattr__(self, meth):
                    def f(*a, **k):
                        self.calls.append(meth)
                        import types

                        return types.SimpleNamespace(source_path=None, attrs={}) if meth.startswith("load") else []

                    return f

            for mod, regname, getter in ((project_io_registration, "project_io", "get_project_io"), (data_io_registration, "data_io", "get_data_io")):
                registry = getattr(base_registry, "__PluginRegistry").__dict__[regname] if False else getattr(mod, "__PluginRegistry", None)
                reg = getattr(base_registry, [n for n in dir(base_registry) if n.endswith("PluginRegistry")][0])
                reg = getattr(reg, regname)
                for fname, fn in inspect.getmembers(mod, inspect.isfunction):
                    if not (fname.startswith("load_") or fname.startswith("save_")) or fn.__module__ != mod.__name__:
                        continue
                    for explicit in (True, False):
                        inferred, given = Rec("inferred"), Rec("given")
                        saved = dict(reg)
                        reg["XyZ"], reg["other"] = inferred, given
                        try:
                            path = os.path.join(d, f"t_{fname}_{explicit}.XyZ")
                            if fname.startswith("load_"):
                                open(path, "w").close()
                                args = (path,)
                            else:
                                import types

                                args = (types.SimpleNamespace(source_path=None, attrs={}), path)
                            kw = {"format_name": "other"} if explicit else {}
                            try:
                                fn(*args, **kw)
                            except Exception as e:  # plugins here are recorders: nothing may raise
                                res.append({"name": f"dispatch[{fname}]", "ok": False, "detail": f"{type(e).__name__}: {e}", "function": f"{mod.__name__}:{fname}"})
                                continue
                            want, other = (given, inferred) if explicit else (inferred, given)
                            res.append({"name": f"dispatch_to_resolved_plugin[{fname},{'given' if explicit else 'inferred'}]", "ok": want.calls == [fname] and other.calls == [], "detail": f"calls {want.calls} / {other.calls}", "function": f"{mod.__name__}:{fname}"})
                        finally:
                            reg.clear()
                            reg.update(saved)
                    if fname in ("load_result", "save_result"):
                        # an existing result folder whose name has an extension: the inferred format is that extension
                        inferred, other = Rec("inferred"), Rec("yaml")
                        saved = dict(reg)
                        reg["store"], reg["yaml"] = inferred, other
                        try:
                            path = os.path.join(d, f"run_{fname}.store")
                            os.makedirs(path, exist_ok=True)
                            import types

                            args = (path,) if fname.startswith("load_") else (types.SimpleNamespace(source_path=None, attrs={}), path)
                            try:
                                fn(*args, **({} if fname.startswith("load_") else {"allow_overwrite": True}))
                                ok = inferred.calls == [fname] and other.calls == []
                                detail = f"calls {inferred.calls} / {other.calls}"
                            except Exception as e:
                                ok, detail = False, f"{type(e).__name__}: {e}"
                            res.append({"name": f"dispatch_to_resolved_plugin[{fname},inferred,existing_folder_with_extension]", "ok": ok, "detail": detail, "witness": {"path": path, "detail": detail} if not ok else None, "function": f"{mod.__name__}:{fname}"})
                        finally:
                            reg.clear()
                            reg.update(saved)
        res += self._getters_follow_the_registry()
        res += self._registration_wrappers()
        res += self._listings_follow_the_registry()
        return res

    def _listings_follow_the_registry(self):
        """The listing helpers (`supported_file_extensions_data_io`, `data_io_plugin_table`) describe the plugin a short name
        resolves to *now*: evaluated, re-pointed with `set_data_plugin`, evaluated again (bounded history on the real registry)."""
        from glotaran.io.interface import DataIoInterface
        from glotaran.plugin_system import base_registry, data_io_registration as dio

        holder = getattr(base_registry, [n for n in dir(base_registry) if n.endswith("PluginRegistry")][0])
        reg = holder.data_io
        saved = dict(reg)

        class Loader(DataIoInterface):
            def load_dataset(self, file_name):
                return None

        class Saver(DataIoInterface):
            def save_dataset(self, dataset, file_name):
                return None

        bad = None
        try:
            a, b = Loader("pyvczz"), Saver("pyvczz")
            reg["pyvc.Loader_pyvczz"], reg["pyvc.Saver_pyvczz"], reg["pyvczz"] = a, b, a
            seen = []
            for step, (pin, want_load, want_save) in enumerate(((None, True, False), ("pyvc.Saver_pyvczz", False, True), (None, False, True), ("pyvc.Loader_pyvczz", True, False))):
                if pin:
                    dio.set_data_plugin("pyvczz", pin)
                got_load = ".pyvczz" in list(dio.supported_file_extensions_data_io("load_dataset"))
                got_save = ".pyvczz" in list(dio.supported_file_extensions_data_io("save_dataset"))
                table = str(dio.data_io_plugin_table())
                row = next((line for line in table.splitlines() if "`pyvczz`" in line or " pyvczz " in line), "")
                seen.append((got_load, got_save))
                if (got_load, got_save) != (want_load, want_save):
                    bad = bad or f"step {step}: supported extensions say load={got_load}, save={got_save} for 'pyvczz' while the registry resolves it to a plugin with load={want_load}, save={want_save}"
                if row and (("/" in row) or ("*" in row)):
                    cells = [c.strip() for c in row.strip("|").split("|")]
                    marks = [c for c in cells[1:3]]
                    if len(marks) == 2 and [m in ("*", "/") for m in marks] == [True, True] and [m == "*" for m in marks] != [want_load, want_save]:
                        bad = bad or f"step {step}: table row {row.strip()!r} does not describe the plugin the name resolves to (load={want_load}, save={want_save})"
        except Exception as e:
            bad = f"{type(e).__name__}: {e}"
        finally:
            reg.clear()
            reg.update(saved)
        return [{"name": "listings_describe_the_plugin_a_name_resolves_to_now[data_io]", "ok": bad is None, "detail": bad or "4 evaluations around 2 re-pointings", "witness": {"history": "list, set->Saver, list, list, set->Loader, list", "why": bad} if bad else None, "function": "glotaran.plugin_system.data_io_registration:supported_file_extensions_data_io", "strength": "B"}]

    def _registration_wrappers(self):
        """The public registration entry points (`register_megacomplex`, `register_data_io`, `register_project_io`) behave
        like the registry operations they wrap, for the histories the property names - the same class registered under a
        second name, the same class registered twice under one name, a different class under a taken name: every name given
        resolves, the first registration wins, a conflict warns (bounded histories on the real registries, restored afterwards)."""
        import warnings as _w

        from glotaran.plugin_system import base_registry, data_io_registration, megacomplex_registration, project_io_registration
        from glotaran.plugin_system.base_registry import PluginOverwriteWarning

        holder = getattr(base_registry, [n for n in dir(base_registry) if n.endswith("PluginRegistry")][0])
        out = []

        class WA:
            def __init__(self, name="wa"):
                self.format = name

        class WB(WA):
            pass

        def run(regname, register, lookup):
            reg = getattr(holder, regname)
            saved = dict(reg)
            bad = None
            try:
                def reg_call(name, cls):
                    with _w.catch_warnings(record=True) as rec:
                        _w.simplefilter("always")
                        register(name, cls)
                    return [r for r in rec if issubclass(r.category, PluginOverwriteWarning)]

                def holds(name, cls):
                    try:
                        got = lookup(name)
                    except ValueError:
                        return False
                    return got is cls or isinstance(got, cls) and type(got) is cls

                w1 = reg_call("pyvcwa", WA)
                w2 = reg_call("pyvcwb", WA)  # the same class under a second, free name
                w3 = reg_call("pyvcwa", WA)  # the same class again under its own name
                w4 = reg_call("pyvcwa", WB)  # another class under the taken name
                w5 = reg_call("pyvcwb", WB)
                checks = [
                    ("first registration resolves", holds("pyvcwa", WA) and not w1),
                    ("second name of the same class resolves", holds("pyvcwb", WA) and not w2),
                    ("re-registration of the same class under its name changes nothing and does not warn", not w3),
                    ("another class under a taken name warns and does not replace the holder", bool(w4) and bool(w5) and holds("pyvcwa", WA) and holds("pyvcwb", WA)),
                    ("both classes stay reachable under their full names", any(k.endswith("WA") or k.endswith("WA_pyvcwa") for k in reg) and any(k.endswith("WB") or k.endswith("WB_pyvcwa") for k in reg)),
                ]
                bad = [n for n, ok in checks if not ok]
            except Exception as e:
                bad = [f"{type(e).__name__}: {e}"]
            finally:
                reg.clear()
                reg.update(saved)
            return bad

        specs = (
            ("megacomplex", lambda n, c: megacomplex_registration.register_megacomplex(n, c), megacomplex_registration.get_megacomplex),
            ("data_io", lambda n, c: data_io_registration.register_data_io(n)(c), data_io_registration.get_data_io),
            ("project_io", lambda n, c: project_io_registration.register_project_io(n)(c), project_io_registration.get_project_io),
        )
        for regname, register, lookup in specs:
            bad = run(regname, register, lookup)
            out.append({"name": f"registration_entry_point_behaves_like_the_registry_operation[{regname}]", "ok": not bad, "detail": f"failed: {bad}" if bad else "5 registrations, 5 checks", "witness": {"history": "register WA as a; WA as b; WA as a; WB as a; WB as b", "failed": bad} if bad else None, "function": f"glotaran.plugin_system.{regname}_registration", "strength": "B"})
        return out

    def _getters_follow_the_registry(self):
        """Every public lookup helper of the three registration modules (`get_*` taking a format / type name) answers
        from the registry *as it is now*: look up, re-point the short name with the module's `set_*_plugin`, look up again
        (twice), re-point back - bounded history on the real registries (restored afterwards)."""
        import inspect

        from glotaran.plugin_system import base_registry, data_io_registration, megacomplex_registration, project_io_registration

        holder = getattr(base_registry, [n for n in dir(base_registry) if n.endswith("PluginRegistry")][0])
        out = []

        class First:
            def load_dataset(self, *a, **k): ...
            def save_dataset(self, *a, **k): ...
            def load_model(self, *a, **k): ...
            def save_model(self, *a, **k): ...

        class Second(First):
            pass

        def owner(x):
            return getattr(x, "__self__", x)

        for mod, regname, setter in ((data_io_registration, "data_io", "set_data_plugin"), (project_io_registration, "project_io", "set_project_plugin"), (megacomplex_registration, "megacomplex", "set_megacomplex_plugin")):
            reg = getattr(holder, regname)
            saved = dict(reg)
            a, b = (First, Second) if regname == "megacomplex" else (First(), Second())
            try:
                reg["pyvc.First"], reg["pyvc.Second"], reg["zz"] = a, b, a
                for gname, g in inspect.getmembers(mod, callable):
                    if not gname.startswith("get_") or getattr(inspect.unwrap(g), "__module__", None) != mod.__name__ or inspect.isclass(g):
                        continue
                    params = list(inspect.signature(inspect.unwrap(g)).parameters)
                    extra = {"get_project_io_method": ("load_model",)}.get(gname, ())
                    if len(params) != 1 + len(extra):
                        continue
                    seen, bad = [], None
                    try:
                        for step, (pin, want) in enumerate(((None, a), ("pyvc.Second", b), (None, b), ("pyvc.First", a), ("pyvc.Second", b))):
                            if pin:
                                getattr(mod, setter)("zz", pin)
                            got = owner(g("zz", *extra))
                            seen.append(type(got).__name__ if not isinstance(got, type) else got.__name__)
                            if got is not want:
                                bad = bad or f"step {step}: {gname}('zz') answers with {seen[-1]} while the registry resolves 'zz' to {type(want).__name__ if not isinstance(want, type) else want.__name__}"
                    except Exception as e:
                        bad = f"{type(e).__name__}: {e}"
                    out.append({"name": f"lookup_helper_follows_the_registry_after_set_plugin[{regname}.{gname}]", "ok": bad is None, "detail": bad or f"answers {seen}", "witness": {"history": "lookup, set->Second, lookup, lookup, set->First, lookup, set->Second, lookup", "why": bad} if bad else None, "function": f"{mod.__name__}:{gname}", "strength": "B"})
                    reg["zz"] = a
            finally:
                reg.clear()
                reg.update(saved)
        return out
