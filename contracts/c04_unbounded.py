"""C04 (all sizes): `calculate_decay_matrix_no_irf` turns a zeroed matrix into exp(-rate_r * t_t) at cell (t, r), for every
number of rates and times - loop invariants over the AST of the real kernel (PyVC-U, `pyvc/wp.py`)."""
from __future__ import annotations

import z3

from contracts.unbounded import cells_done, exp, ext_exp, inb, ints, records
from pyvc import wp
from pyvc.contract import Contract


def no_irf_spec():
    from glotaran.builtin.megacomplexes.decay.util import calculate_decay_matrix_no_irf as fn

    t, r = ints("t", "r")

    def requires(env):
        # the callers hand over a freshly zeroed matrix (np.zeros in calculate_matrix): with that precondition the contract
        # does not care whether the kernel adds to or assigns the cell - both satisfy the property
        zero = z3.ForAll([t, r], z3.Implies(z3.And(inb(t, env.shape("times")), inb(r, env.shape("rates"))), env.sel("matrix", t, r) == 0), patterns=[env.sel("matrix", t, r)])
        return [env.shape("matrix", 0) == env.shape("times"), env.shape("matrix", 1) == env.shape("rates"), zero]

    def cell(old, now, done):
        nt, nr = old.shape("times"), old.shape("rates")
        add = z3.If(done, exp((-wp.RV(old.sel("rates", r)) * wp.RV(old.sel("times", t))).t), 0)
        return z3.ForAll([t, r], z3.If(z3.And(inb(t, nt), inb(r, nr)), now.sel("matrix", t, r) == old.sel("matrix", t, r) + add, now.sel("matrix", t, r) == old.sel("matrix", t, r)), patterns=[now.sel("matrix", t, r)])

    def ensures(old, new, res):
        return [("cell_t_r_of_a_zeroed_matrix_becomes_exp_minus_rate_r_times_t_and_nothing_else_changes", cell(old, new, z3.BoolVal(True)))]

    # written for "the loop over the rates" / "the loop over the times", whatever their nesting order
    coords = {("rates", 0): r, ("times", 0): t}

    def inv(k):
        return lambda old, now, i: [cell(old, now, cells_done(now, (k, i), coords))] + [inb(now.loopvar(j), old.shape(*now.loop_over(j))) for j in now.active_loops() if j < k]

    invariants = {0: inv(0), 1: inv(1)}
    return wp.FnSpec(fn, [("matrix", "arr2"), ("rates", "arr1"), ("times", "arr1")], requires, ("matrix",), ensures, invariants, {"np.exp": ext_exp})


class DecayKernelAllSizes(Contract):
    prop = "C04"
    name = "DecayKernelAllSizes"
    target = "glotaran.builtin.megacomplexes.decay.util:calculate_decay_matrix_no_irf"
    strength = "U"
    trusted = (*__import__('contracts.unbounded', fromlist=['WP_ASSUMPTIONS']).WP_ASSUMPTIONS, "numba compiles the kernel with Python semantics; nb.prange = range (race freedom: C10 PrangeRaces)", "exp uninterpreted; floats as reals")
    drops = ("PyVC-U re-reads the kernel's source and drops the @nb.jit decorator; accepted subset: assignments, subscripts, `for i in range/prange(e)` with an invariant, if/else, return, calls with a contract",)

    def cases(self, tier):
        return iter(())

    def static_obligations(self, tier):
        import numpy as np

        from contracts.unbounded import crosscheck

        def args(rng, k):
            nt, nr = rng.integers(0, 4), rng.integers(0, 4)
            return {"matrix": np.zeros((nt, nr)), "rates": rng.uniform(0.1, 2, nr), "times": rng.uniform(-1, 3, nt)}

        return records(no_irf_spec(), self.name) + crosscheck(no_irf_spec(), args)


def _with_selftest(fn):
    def wrapped(self, tier):
        from contracts.unbounded import engine_selftest

        return fn(self, tier) + engine_selftest()

    return wrapped


DecayKernelAllSizes.static_obligations = _with_selftest(DecayKernelAllSizes.static_obligations)
