"""Pipeline harness: real Model / Scheme / providers on an *abstract megacomplex*.

The abstract megacomplex is the callee contract of the ``Megacomplex.calculate_matrix``
interface: it returns its declared clp labels and a fresh matrix whose entries are named
symbols (arbitrary real values).  Everything else - Model, DatasetModel, DatasetGroup,
Scheme, Parameters, xarray datasets, all providers - is the real code.

``Ref`` computes the reference objective *from the property statement* with plain loops
and none of the providers.
"""
from __future__ import annotations

import itertools
from dataclasses import dataclass, field

import numpy as np
import xarray as xr

from pyvc.contract import L
from pyvc.sym import SArr, SymReal, is_sym

INF = float("inf")
CURRENT = {"S": None, "matrix_calls": None}

_MODEL_CLS = None


class InjectedFault(Exception):
    """Fault injected by the abstract megacomplex (C10 / C15)."""


def _maybe_fail():
    if CURRENT.get("fail_always"):
        raise InjectedFault("injected fault in calculate_matrix (persistent)")
    n = CURRENT.get("fail_after_matrix_calls")
    if n is not None:
        n -= 1
        CURRENT["fail_after_matrix_calls"] = n
        if n <= 0:
            CURRENT["fail_after_matrix_calls"] = None
            raise InjectedFault("injected fault in calculate_matrix")


def model_class():
    """Real Model class over the abstract megacomplex (created once per process)."""
    global _MODEL_CLS
    if _MODEL_CLS is not None:
        return _MODEL_CLS
    import warnings

    from glotaran.model import Megacomplex, Model, megacomplex

    with warnings.catch_warnings():
        warnings.simplefilter("ignore")

        @megacomplex()
        class PyvcAbstractMegacomplex(Megacomplex):
            type: str = "pyvc-abstract"
            dimension: str = "time"
            clp_labels: list[str]
            index_dependent: bool = False

            def calculate_matrix(self, dataset_model, global_axis, model_axis, **kwargs):
                S = CURRENT["S"]
                _maybe_fail()
                labels = list(self.clp_labels)
                ng, nm = len(global_axis), len(model_axis)
                if CURRENT["matrix_calls"] is not None:
                    CURRENT["matrix_calls"].append((self.label, dataset_model.label))
                if self.index_dependent:
                    a = np.empty((ng, nm, len(labels)), dtype=object)
                    for g in range(ng):
                        for m in range(nm):
                            for j, lab in enumerate(labels):
                                a[g, m, j] = S.named(entry_name(self.label, dataset_model.label, g, m, lab))
                else:
                    a = np.empty((nm, len(labels)), dtype=object)
                    for m in range(nm):
                        for j, lab in enumerate(labels):
                            a[m, j] = S.named(entry_name(self.label, dataset_model.label, None, m, lab))
                if not S.symbolic:
                    return labels, a.astype(float)
                return labels, a.view(SArr)

            def finalize_data(self, dataset_model, dataset, is_full_model=False, as_global=False):
                pass

        @megacomplex()
        class PyvcAbstractGlobalMegacomplex(Megacomplex):
            type: str = "pyvc-abstract-global"
            dimension: str = "spectral"
            clp_labels: list[str]

            def calculate_matrix(self, dataset_model, global_axis, model_axis, **kwargs):
                # called with (model_axis, global_axis) swapped by calculate_dataset_matrix
                S = CURRENT["S"]
                labels = list(self.clp_labels)
                n = len(model_axis)
                a = np.empty((n, len(labels)), dtype=object)
                for g in range(n):
                    for j, lab in enumerate(labels):
                        a[g, j] = S.named(entry_name(self.label, dataset_model.label, None, g, lab))
                if not S.symbolic:
                    return labels, a.astype(float)
                return labels, a.view(SArr)

            def finalize_data(self, dataset_model, dataset, is_full_model=False, as_global=False):
                pass

        _MODEL_CLS = (
            Model.create_class_from_megacomplexes([PyvcAbstractMegacomplex, PyvcAbstractGlobalMegacomplex]),
            PyvcAbstractMegacomplex,
            PyvcAbstractGlobalMegacomplex,
        )
    return _MODEL_CLS


def entry_name(mc, ds, g, m, lab):
    return f"M_{mc}_{ds}_{'x' if g is None else g}_{m}_{lab}"


class Named:
    """Wraps a factory with memoised named symbols (same name -> same symbol within a run)."""

    def __init__(self, S):
        self.S = S
        self.symbolic = S.symbolic
        self.cache = {}

    def named(self, name):
        if name not in self.cache:
            self.cache[name] = self.S.real(name)
        return self.cache[name]

    def __getattr__(self, k):
        return getattr(self.S, k)


# ----------------------------------------------------------------------------- configuration
@dataclass
class DS:
    label: str
    model_axis: tuple
    global_axis: tuple
    megacomplexes: tuple = ("m1",)
    order: str = "mg"  # data stored as (model, global) or (global, model)
    weight: bool = False
    scale: bool = False
    mc_scales: bool = False
    global_megacomplexes: tuple = ()
    group: str = "default"


@dataclass
class Cfg:
    name: str
    datasets: tuple
    megacomplexes: dict = field(default_factory=lambda: {"m1": (("s1", "s2"), False)})  # label -> (clp labels, index dependent)
    global_megacomplexes: dict = field(default_factory=dict)  # label -> clp labels
    groups: dict = field(default_factory=lambda: {"default": (None, "variable_projection")})  # name -> (link_clp, residual)
    constraints: tuple = ()  # (type, target, interval)   interval: None | (lo, hi) | [(lo,hi),...] ; "sym" for symbolic bounds
    relations: tuple = ()  # (source, target, interval)
    penalties: tuple = ()  # (source, source_intervals, target, target_intervals)
    model_weights: tuple = ()  # (datasets, global_interval, model_interval)
    tol: float = 0.0
    method: str = "nearest"

    def __str__(self):
        return self.name


class Built:
    """Everything the contracts need to refer to after building a scheme."""


def _interval(S, spec, name):
    if spec is None:
        return None
    if spec == "sym":
        return (S.named(name + "_lo"), S.named(name + "_hi"))
    if isinstance(spec, list):
        return [tuple(x) for x in spec]
    return tuple(spec)


def build(S0, cfg: Cfg):
    """Build the real Scheme for ``cfg``; data, weights and parameter values are symbols."""
    from glotaran.model.clp_constraint import OnlyConstraint, ZeroConstraint
    from glotaran.model.clp_penalties import EqualAreaPenalty
    from glotaran.model.clp_relation import ClpRelation
    from glotaran.model.weight import Weight
    from glotaran.parameter import Parameter, Parameters
    from glotaran.project import Scheme

    S = Named(S0)
    CURRENT["S"] = S
    Model, AbsMc, AbsGlobalMc = model_class()
    b = Built()
    b.S = S
    b.cfg = cfg
    params = {}

    def par(label):
        v = S.named("p_" + label.replace(".", "_"))
        params[label] = Parameter(label=label, value=v)
        return v

    b.scale, b.mc_scale, b.gmc_scale = {}, {}, {}
    b.data, b.weight = {}, {}
    datasets = {}
    data = {}
    for ds in cfg.datasets:
        d = {"megacomplex": list(ds.megacomplexes), "group": ds.group}
        if ds.scale:
            b.scale[ds.label] = par(f"scale.{ds.label}")
            d["scale"] = f"scale.{ds.label}"
        if ds.mc_scales:
            b.mc_scale[ds.label] = [par(f"mcs.{ds.label}.{k}") for k in range(len(ds.megacomplexes))]
            d["megacomplex_scale"] = [f"mcs.{ds.label}.{k}" for k in range(len(ds.megacomplexes))]
        if ds.global_megacomplexes:
            d["global_megacomplex"] = list(ds.global_megacomplexes)
            if ds.mc_scales:
                b.gmc_scale[ds.label] = [par(f"gmcs.{ds.label}.{k}") for k in range(len(ds.global_megacomplexes))]
                d["global_megacomplex_scale"] = [f"gmcs.{ds.label}.{k}" for k in range(len(ds.global_megacomplexes))]
        datasets[ds.label] = d
        nm, ng = len(ds.model_axis), len(ds.global_axis)
        arr = np.empty((nm, ng), dtype=object if S.symbolic else float)
        for m in range(nm):
            for g in range(ng):
                arr[m, g] = S.named(f"d_{ds.label}_{m}_{g}")
        b.data[ds.label] = arr
        warr = None
        if ds.weight:
            warr = np.empty((nm, ng), dtype=object if S.symbolic else float)
            for m in range(nm):
                for g in range(ng):
                    warr[m, g] = S.named(f"w_{ds.label}_{m}_{g}")
                    S.require(L.gt(warr[m, g], 0), "weights positive")
        b.weight[ds.label] = warr
        coords = {"time": np.asarray(ds.model_axis, dtype=float), "spectral": np.asarray(ds.global_axis, dtype=float)}
        if ds.order == "mg":
            dvars = {"data": (("time", "spectral"), arr.copy())}
            if warr is not None:
                dvars["weight"] = (("time", "spectral"), warr.copy())
        else:
            dvars = {"data": (("spectral", "time"), arr.T.copy())}
            if warr is not None:
                dvars["weight"] = (("spectral", "time"), warr.T.copy())
        data[ds.label] = xr.Dataset(dvars, coords=coords)

    mcs = {lab: AbsMc(label=lab, clp_labels=list(labels), index_dependent=dep) for lab, (labels, dep) in cfg.megacomplexes.items()}
    for lab, labels in cfg.global_megacomplexes.items():
        mcs[lab] = AbsGlobalMc(label=lab, clp_labels=list(labels))

    b.constraints, b.relations, b.penalties, b.model_weights = [], [], [], []
    cons = []
    for k, (typ, target, iv) in enumerate(cfg.constraints):
        interval = _interval(S, iv, f"ci{k}")
        cls = ZeroConstraint if typ == "zero" else OnlyConstraint
        cons.append(cls(target=target, interval=interval))
        b.constraints.append((typ, target, interval))
    rels = []
    for k, (source, target, iv) in enumerate(cfg.relations):
        interval = _interval(S, iv, f"ri{k}")
        p = par(f"rel.{k}")
        rels.append(ClpRelation(source=source, target=target, parameter=f"rel.{k}", interval=interval))
        b.relations.append((source, target, interval, p))
    pens = []
    for k, (source, sivs, target, tivs) in enumerate(cfg.penalties):
        p = par(f"pen.{k}")
        w = S.named(f"penw_{k}")
        pens.append(
            EqualAreaPenalty(
                source=source,
                source_intervals=[tuple(i) for i in sivs],
                target=target,
                target_intervals=[tuple(i) for i in tivs],
                parameter=f"pen.{k}",
                weight=w,
            )
        )
        b.penalties.append((source, [tuple(i) for i in sivs], target, [tuple(i) for i in tivs], p, w))
    wts = []
    for k, (dsl, giv, miv) in enumerate(cfg.model_weights):
        v = S.named(f"mw_{k}")
        S.require(L.gt(v, 0), "weights positive")
        wts.append(Weight(datasets=list(dsl), global_interval=giv, model_interval=miv, value=v))
        b.model_weights.append((list(dsl), giv, miv, v))

    groups = {name: {"link_clp": link, "residual_function": rf} for name, (link, rf) in cfg.groups.items()}
    model = Model(
        megacomplex=mcs,
        dataset=datasets,
        dataset_groups=groups,
        clp_constraints=cons,
        clp_relations=rels,
        clp_penalties=pens,
        weights=wts,
    )
    if not params:
        par("unused.1")
    parameters = Parameters(params)
    scheme = Scheme(
        model=model,
        parameters=parameters,
        data=data,
        clp_link_tolerance=cfg.tol,
        clp_link_method=cfg.method,
        add_svd=False,
        maximum_number_function_evaluations=1,
    )
    b.model, b.parameters, b.scheme, b.xrdata = model, parameters, scheme, data
    b.param_syms = {k: v.value for k, v in params.items()}
    return b


# ----------------------------------------------------------------------------- solve log
class SolveLog:
    """Ghost state: every (matrix, data) handed to the residual function."""

    def __init__(self, S, symbolic):
        self.S = S
        self.symbolic = symbolic
        self.entries = []  # dicts: matrix, data, clp, residual, fn
        self.memo = {}

    def make(self, name, real_fn):
        def residual_function(matrix, data):
            k = len(self.entries)
            M = np.asarray(matrix, dtype=object) if self.symbolic else np.asarray(matrix)
            d = np.asarray(data, dtype=object) if self.symbolic else np.asarray(data)
            if self.symbolic:
                # C01 contract of the residual functions: clp arbitrary (fresh), residual = data - matrix @ clp.
                # The function is deterministic: the same (matrix, data) yields the same clp symbols.
                key = (name, M.shape, tuple(_key(v) for v in M.reshape(-1)), tuple(_key(v) for v in d.reshape(-1)))
                k0 = self.memo.setdefault(key, k)
                n = M.shape[1]
                clp = np.empty(n, dtype=object)
                for j in range(n):
                    clp[j] = self.S.named(f"c!{k0}_{j}")
                res = np.empty(M.shape[0], dtype=object)
                for i in range(M.shape[0]):
                    acc = d[i]
                    for j in range(n):
                        acc = acc - M[i, j] * clp[j]
                    res[i] = acc
                clp, res = clp.view(SArr), res.view(SArr)
            else:
                clp, res = real_fn(matrix, data)
            self.entries.append({"matrix": M.copy(), "data": d.copy(), "clp": clp, "residual": res, "fn": name, "matrix_obj": matrix})
            return clp, res

        return residual_function


def _key(v):
    import z3

    if type(v) is SymReal:
        return z3.simplify(v.t).sexpr()
    return repr(float(v))


class residual_stubs:
    """Context manager: SUPPORTED_RESIUDAL_FUNCTIONS entries wrapped by the recording stub."""

    def __init__(self, S, symbolic):
        self.log = SolveLog(S, symbolic)

    def __enter__(self):
        from glotaran.optimization import estimation_provider as ep

        self.ep = ep
        self.saved = dict(ep.SUPPORTED_RESIUDAL_FUNCTIONS)
        for k, fn in self.saved.items():
            ep.SUPPORTED_RESIUDAL_FUNCTIONS[k] = self.log.make(k, fn)
        return self.log

    def __exit__(self, *a):
        self.ep.SUPPORTED_RESIUDAL_FUNCTIONS.clear()
        self.ep.SUPPORTED_RESIUDAL_FUNCTIONS.update(self.saved)


# ----------------------------------------------------------------------------- reference (from the property text)
def applies(interval, x):
    """Closed, order-insensitive membership; list = union; None = everywhere."""
    if interval is None:
        return True
    ivs = interval if isinstance(interval, list) else [interval]
    return L.or_(*[L.and_(L.le(L.min(lo, hi), x), L.le(x, L.max(lo, hi))) for lo, hi in ivs])


def ref_align(cfg: Cfg, datasets):
    """Reference alignment of the global axes of a linked group (property C09)."""
    acc = None
    images = {}
    for ds in datasets:
        ax = list(ds.global_axis)
        if acc is None:
            img = list(ax)
        else:
            img = []
            for x in ax:
                cands = [t for t in acc if abs(t - x) <= cfg.tol and (cfg.method == "nearest" or (cfg.method == "forward" and t >= x) or (cfg.method == "backward" and t <= x))]
                if cands:
                    best = min(abs(t - x) for t in cands)
                    near = [t for t in cands if abs(t - x) == best]
                    if len(near) > 1:
                        raise ValueError("tie in reference alignment: configuration excluded")
                    img.append(near[0])
                else:
                    img.append(x)
            if len(set(img)) != len(img):
                raise ValueError("ambiguous alignment: configuration excluded")
        images[ds.label] = img
        acc = sorted(set((acc or []) + img))
    return acc, images


class Ref:
    """Reference objective, written from the property statement (no provider code)."""

    def __init__(self, b: Built):
        self.b = b
        self.cfg = b.cfg
        self.S = b.S

    # -- unreduced dataset matrix at own index g: ordered labels + columns, megacomplex scaled
    def dataset_columns(self, ds: DS, g):
        cfg, b = self.cfg, self.b
        labels, cols = [], {}
        for k, mc in enumerate(ds.megacomplexes):
            mlabels, dep = cfg.megacomplexes[mc]
            for lab in mlabels:
                col = []
                for m in range(len(ds.model_axis)):
                    e = self.S.named(entry_name(mc, ds.label, g if dep else None, m, lab))
                    if ds.mc_scales:
                        e = e * b.mc_scale[ds.label][k]
                    col.append(e)
                if lab in cols:
                    cols[lab] = [x + y for x, y in zip(cols[lab], col)]
                else:
                    labels.append(lab)
                    cols[lab] = col
        return labels, cols

    def global_columns(self, ds: DS):
        cfg, b = self.cfg, self.b
        labels, cols = [], {}
        for k, mc in enumerate(ds.global_megacomplexes):
            for lab in cfg.global_megacomplexes[mc]:
                col = []
                for g in range(len(ds.global_axis)):
                    e = self.S.named(entry_name(mc, ds.label, None, g, lab))
                    if ds.mc_scales:
                        e = e * b.gmc_scale[ds.label][k]
                    col.append(e)
                if lab in cols:
                    cols[lab] = [x + y for x, y in zip(cols[lab], col)]
                else:
                    labels.append(lab)
                    cols[lab] = col
        return labels, cols

    def reduce(self, labels, cols, value):
        """Relations then constraints at global-axis value ``value`` -> (labels, cols, info).

        info maps every full label to ('free',) | ('zero',) | ('rel', source, p); conditions may
        be symbolic (interval bounds) in which case they must have been decided on the path:
        they are evaluated through bool() only when concrete - here we return symbolic guards.
        """
        b = self.b
        info = {lab: ("free",) for lab in labels}
        cols = {k: list(v) for k, v in cols.items()}
        guards = []
        cur = list(labels)
        for source, target, interval, p in b.relations:
            if target in cur and source in labels:
                cond = applies(interval, value)
                yes = _decide(cond, guards)
                if yes:
                    info[target] = ("rel", source, p)
        # substitute clp_t = p * clp_s
        for t, inf in info.items():
            if inf[0] == "rel":
                s, p = inf[1], inf[2]
                cols[s] = [x + p * y for x, y in zip(cols[s], cols[t])]
        cur = [lab for lab in cur if info[lab][0] != "rel"]
        removed = []
        for typ, target, interval in b.constraints:
            if target in cur:
                cond = applies(interval, value)
                if typ == "only":
                    cond = L.not_(cond)
                yes = _decide(cond, guards)
                if yes:
                    removed.append(target)
        for t in removed:
            info[t] = ("zero",)
        cur = [lab for lab in cur if lab not in removed]
        return cur, {lab: cols[lab] for lab in cur}, info, guards

    def dataset_weight(self, ds: DS):
        """Weight array [m][g] of a dataset: the dataset's own weight wins over model weights."""
        b = self.b
        if b.weight[ds.label] is not None:
            return b.weight[ds.label]
        applicable = [w for w in b.model_weights if ds.label in w[0]]
        if not applicable:
            return None
        nm, ng = len(ds.model_axis), len(ds.global_axis)
        w = np.empty((nm, ng), dtype=object)
        for m in range(nm):
            for g in range(ng):
                v = 1.0
                for _, giv, miv, val in applicable:
                    ok = True
                    if giv is not None:
                        ok = ok and _inside_concrete(giv, ds.global_axis[g])
                    if miv is not None:
                        ok = ok and _inside_concrete(miv, ds.model_axis[m])
                    if ok:
                        v = v * val
                w[m, g] = v
        return w

    def group_datasets(self, gname):
        return [ds for ds in self.cfg.datasets if ds.group == gname]

    def is_linked(self, gname):
        link, _ = self.cfg.groups[gname]
        dss = self.group_datasets(gname)
        if link is None:
            # documented auto rule: no global model, one model dimension, one global dimension
            return not any(ds.global_megacomplexes for ds in dss)
        return bool(link)

    def solves(self, gname):
        """Reference list of solves of a group: dicts(labels, cols(by label), data, info, meta)."""
        dss = self.group_datasets(gname)
        out = []
        if not self.is_linked(gname):
            for ds in dss:
                W = self.dataset_weight(ds)
                nm, ng = len(ds.model_axis), len(ds.global_axis)
                scale = self.b.scale.get(ds.label, 1.0)
                if ds.global_megacomplexes:
                    labels, cols = self.dataset_columns(ds, None) if not self._dep(ds) else (None, None)
                    glabels, gcols = self.global_columns(ds)
                    # full model: data flattened column-major over (global, model); matrix = kron(global, model)
                    rows = []
                    datav = []
                    for g in range(ng):
                        if self._dep(ds):
                            labels, cols = self.dataset_columns(ds, g)
                        for m in range(nm):
                            w = W[m, g] if W is not None else 1.0
                            row = {}
                            for gl in glabels:
                                for l in labels:
                                    row[(gl, l)] = gcols[gl][g] * cols[l][m] * w
                            rows.append(row)
                            datav.append(self.b.data[ds.label][m, g] * w)
                    out.append({"kind": "full", "ds": ds, "labels": [(gl, l) for gl in glabels for l in labels], "rows": rows, "data": datav, "glabels": glabels, "mlabels": labels})
                    continue
                for g in range(ng):
                    labels, cols = self.dataset_columns(ds, g)
                    cols = {k: [scale * x for x in v] for k, v in cols.items()}
                    rl, rc, info, guards = self.reduce(labels, cols, ds.global_axis[g])
                    if W is not None:
                        rc = {k: [W[m, g] * v[m] for m in range(nm)] for k, v in rc.items()}
                    datav = [self.b.data[ds.label][m, g] * (W[m, g] if W is not None else 1.0) for m in range(nm)]
                    out.append({"kind": "index", "ds": ds, "g": g, "value": ds.global_axis[g], "labels": rl, "cols": rc, "data": datav, "info": info, "full_labels": labels, "guards": guards, "blocks": [(ds, g, 0, nm)]})
            return out
        acc, images = ref_align(self.cfg, dss)
        for a in acc:
            members = [(ds, images[ds.label].index(a)) for ds in dss if a in images[ds.label]]
            labels, cols = [], {}
            nrows = sum(len(ds.model_axis) for ds, _ in members)
            row0 = 0
            blocks = []
            for ds, g in members:
                l, c = self.dataset_columns(ds, g)
                scale = self.b.scale.get(ds.label, 1.0)
                nm = len(ds.model_axis)
                for lab in l:
                    if lab not in cols:
                        labels.append(lab)
                        cols[lab] = [0.0] * nrows
                    for m in range(nm):
                        cols[lab][row0 + m] = scale * c[lab][m]
                blocks.append((ds, g, row0, nm))
                row0 += nm
            rl, rc, info, guards = self.reduce(labels, cols, a)
            Ws = [self.dataset_weight(ds) for ds, _ in members]
            datav = []
            wv = []
            anyw = any(w is not None for w in Ws)
            for (ds, g), W in zip(members, Ws):
                for m in range(len(ds.model_axis)):
                    w = W[m, g] if W is not None else 1.0
                    wv.append(w)
                    datav.append(self.b.data[ds.label][m, g] * w)
            if anyw:
                rc = {k: [wv[i] * v[i] for i in range(nrows)] for k, v in rc.items()}
            out.append({"kind": "index", "ds": None, "value": a, "labels": rl, "cols": rc, "data": datav, "info": info, "full_labels": labels, "guards": guards, "blocks": blocks})
        return out

    def _dep(self, ds):
        return any(self.cfg.megacomplexes[mc][1] for mc in ds.megacomplexes)


def _inside_concrete(iv, x):
    lo, hi = iv
    return min(lo, hi) <= x <= max(lo, hi)


def _decide(cond, guards):
    """Conditions on concrete intervals are Python bools.  Symbolic ones were decided by the
    real code on this path; the reference must not fork, so it reads the decision off the
    path: we record the condition and let the caller assert consistency."""
    if isinstance(cond, (bool, np.bool_)):
        return bool(cond)
    from pyvc import sym

    ctx = sym.CUR
    dec = getattr(ctx, "decide", None)
    if dec is None:
        raise RuntimeError("symbolic reduction guard outside a deciding context")
    r = dec(cond)
    guards.append((cond, r))
    return r
