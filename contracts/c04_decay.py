"""C04 - decay matrices are the solution of the compartmental rate equations.

ODE characterisation instead of a matrix exponential:  c(t) = sum_l A[l,:] exp(-r_l t) solves
c' = K c, c(0) = j  iff  sum_l A[l,:] = j  and  K A[l,:]^T = -r_l A[l,:]^T  for every l.
Both are polynomial / rational identities in the rate constants - no transcendental function.
"""
from __future__ import annotations

import itertools

import numpy as np

from pyvc.contract import Contract, L, Raised
from pyvc.sym import SArr, SymReal, is_sym

KM = "glotaran.builtin.megacomplexes.decay.k_matrix"
MODS = (
    KM,
    "glotaran.builtin.megacomplexes.decay.util",
    "glotaran.builtin.megacomplexes.decay.initial_concentration",
    "glotaran.builtin.megacomplexes.decay.decay_megacomplex",
    "glotaran.builtin.megacomplexes.decay.decay_parallel_megacomplex",
    "glotaran.builtin.megacomplexes.decay.decay_sequential_megacomplex",
    "glotaran.parameter.parameter",
)
TRUSTED_EIG = (
    "scipy.linalg.eig(M, left=True, right=False) replaced by its contract: real eigenvalues w and left eigenvectors vl with vl[:,l]^T M = w[l] vl[:,l]^T (real, distinct eigenvalues are the property's precondition); deterministic",
    "scipy.linalg.solve(V, j) replaced by its contract: x with V x = j",
    "that sum_l A_l = j and K A_l^T = -r_l A_l^T imply sum_l A[l,c] exp(-r_l t) = (exp(K t) j)_c is the Lean theorem PyVC.decay_concentration (lemmas/DecayODE.lean, every number of compartments, no condition on the eigenvalues; re-checked every run)",
)


def comp_names(n):
    return [f"s{i+1}" for i in range(n)]


def structures(n, tier):
    """K-matrix structures: sets of (to, from) index pairs."""
    entries = [(i, j) for i in range(n) for j in range(n)]
    named = {
        "chain_loss_last": [(i + 1, i) for i in range(n - 1)] + [(n - 1, n - 1)],
        "chain_no_loss": [(i + 1, i) for i in range(n - 1)],
        "parallel": [(i, i) for i in range(n)],
        "chain_back_to_first": [(i + 1, i) for i in range(n - 1)] + ([(0, n - 1)] if n > 1 else []),
    }
    if n >= 2:
        named["reversible_first_pair_loss"] = [(1, 0), (0, 1)] + [(i + 1, i) for i in range(1, n - 1)] + [(n - 1, n - 1)]
        named["branching"] = [(i, 0) for i in range(1, n)] + [(i, i) for i in range(1, n)]
        named["chain_all_loss"] = [(i + 1, i) for i in range(n - 1)] + [(i, i) for i in range(n)]
        named["chain_reversed_declaration"] = [(i, i + 1) for i in range(n - 1)] + [(0, 0)]
    out = dict(named)
    if n <= 2 or (n == 3 and tier == "thorough"):
        for k in range(1, len(entries) + 1):
            for sub in itertools.combinations(entries, k):
                out["set_" + "_".join(f"{a}{b}" for a, b in sub)] = list(sub)
    elif n == 3:
        rng = np.random.default_rng(3)
        for _ in range(24):
            sub = [e for e in entries if rng.random() < 0.45]
            if sub:
                out["set_" + "_".join(f"{a}{b}" for a, b in sub)] = sub
    # every compartment must be involved in the K-matrix
    return {k: v for k, v in out.items() if v and {a for a, b in v} | {b for a, b in v} == set(range(n))}


def full_spec(n, struct, k):
    """K from the documentation: off-diagonal transfer to<-from, diagonal -(outflow + loss)."""
    K = [[0.0 for _ in range(n)] for _ in range(n)]
    for to, fr in struct:
        v = k[(to, fr)]
        if to == fr:
            K[to][fr] = K[to][fr] - v
        else:
            K[to][fr] = K[to][fr] + v
            K[fr][fr] = K[fr][fr] - v
    return K


class EigStub:
    def __init__(self, S):
        self.S = S
        self.memo = {}
        self.calls = []

    def eig(self, M, left=False, right=True, **kw):
        import z3

        M = np.asarray(M, dtype=object)
        n = M.shape[0]
        key = (left, right, tuple(z3.simplify(v.t).sexpr() if type(v) is SymReal else repr(float(v)) for v in M.reshape(-1)))
        self.calls.append((left, right))
        if key in self.memo:
            return self.memo[key]
        k = len(self.memo)
        w = np.empty(n, dtype=object)
        V = np.empty((n, n), dtype=object)
        for l in range(n):
            w[l] = self.S.fresh(f"eigval{k}")
            for i in range(n):
                V[i, l] = self.S.fresh(f"eigvec{k}")
        for l in range(n):
            for l2 in range(l + 1, n):
                self.S.require(L.not_(L.eq(w[l], w[l2])), "distinct eigenvalues")
            for c in range(n):
                if left and not right:
                    # vl[:,l]^T M = w[l] vl[:,l]^T
                    lhs = L.sum([V[i, l] * M[i, c] for i in range(n)])
                else:
                    lhs = L.sum([M[c, i] * V[i, l] for i in range(n)])
                self.S.require(L.eq(lhs, w[l] * V[c, l]), "eigen equation")
        res = (_Cplx(w), _Cplx(V.view(SArr)))
        self.memo[key] = res
        return res

    def solve(self, A, b, **kw):
        import z3

        A = np.asarray(A, dtype=object)
        b = np.asarray(b, dtype=object).reshape(-1)
        n = len(b)
        key = ("solve", tuple(z3.simplify(v.t).sexpr() if type(v) is SymReal else repr(float(v)) for v in list(A.reshape(-1)) + list(b)))
        if key in self.memo:
            return self.memo[key]
        x = np.empty(n, dtype=object)
        for i in range(n):
            x[i] = self.S.fresh("gamma")
        for i in range(n):
            self.S.require(L.eq(L.sum([A[i, j] * x[j] for j in range(n)]), b[i]), "solve: V x = j")
        self.memo[key] = x.view(SArr)
        return self.memo[key]


class _Cplx:
    """Result of eig: the code takes .real of eigenvalues / eigenvectors."""

    def __init__(self, a):
        self.a = np.asarray(a, dtype=object).view(SArr)

    @property
    def real(self):
        return self.a


class AMatrixSolvesODE(Contract):
    prop = "C04"
    name = "AMatrixSolvesODE"
    target = f"{KM}:KMatrix.a_matrix"
    functions = (
        f"{KM}:KMatrix.full",
        f"{KM}:KMatrix.reduced",
        f"{KM}:KMatrix.rates",
        f"{KM}:KMatrix.eigen",
        f"{KM}:KMatrix.is_sequential",
        f"{KM}:KMatrix.a_matrix_general",
        f"{KM}:KMatrix.a_matrix_sequential",
        f"{KM}:calculate_gamma",
    )
    modules = MODS
    trusted = TRUSTED_EIG
    strength = "S"
    agreement_runs = 0
    max_paths = {"quick": 300, "thorough": 3000}
    not_decided = ("accuracy of scipy.linalg.eig for rates spread over six decades (floating point; T)",)

    def cases(self, tier):
        top = 3
        for n in range(1, top + 1):
            for name in structures(n, tier):
                for order in ("declared", "reversed") if n > 1 else ("declared",):
                    yield {"n": n, "structure": name, "dict_order": order}
        # longer chains (closed form)
        for n in (4, 5) if tier == "quick" else (4, 5, 6):
            yield {"n": n, "structure": "chain_loss_last", "dict_order": "declared", "j": "e1"}
            yield {"n": n, "structure": "chain_loss_last", "dict_order": "reversed", "j": "e1"}

    def build(self, S, case):
        from glotaran.builtin.megacomplexes.decay.k_matrix import KMatrix

        n = case["n"]
        struct = structures(n, "thorough" if case["structure"].startswith("set_") else "quick").get(case["structure"]) or structures(n, "thorough")[case["structure"]]
        k = {}
        for to, fr in struct:
            k[(to, fr)] = S.real(f"k_{to}_{fr}")
            S.require(L.gt(k[(to, fr)], 0), "rate constants positive")
        names = comp_names(n)
        items = list(struct)
        if case["dict_order"] == "reversed":
            items = items[::-1]
        km = KMatrix(label="k", matrix={(names[to], names[fr]): k[(to, fr)] for to, fr in items})
        if case.get("j") == "e1":
            j = np.array([1.0] + [0.0] * (n - 1), dtype=object)
            if S.symbolic:
                from pyvc.sym import sym_const

                j = np.array([sym_const(v) for v in j], dtype=object).view(SArr)
            else:
                j = j.astype(float)
        else:
            j = S.real_array("j", n)
            for i in range(n):
                S.require(L.ge(j[i], 0), "initial concentrations non-negative")
        return {"km": km, "names": names, "j": j, "k": k, "struct": struct, "n": n}

    def stubs_for(self, S, case, inp):
        if not S.symbolic:
            return {}
        st = EigStub(S)
        inp["eig"] = st
        return {f"{KM}:eig": st.eig, f"{KM}:solve": st.solve}

    def call(self, S, case, inp):
        km, names, j = inp["km"], inp["names"], inp["j"]
        seq = km.is_sequential(names, j)
        A = km.a_matrix(names, j)
        r = km.rates(names, j)
        return {"A": np.asarray(A, dtype=object if S.symbolic else float), "r": np.asarray(r, dtype=object if S.symbolic else float), "seq": bool(seq), "full": np.asarray(km.full(names), dtype=object if S.symbolic else float)}

    def observe(self, out):
        return out if isinstance(out, Raised) else None

    def ensures(self, S, case, inp, out):
        n = inp["n"]
        if isinstance(out, Raised):
            yield "no_exception", False
            return
        A, r, j = out["A"], out["r"], inp["j"]
        K = full_spec(n, inp["struct"], inp["k"])
        yield "full_matrix_is_documented_k_matrix", L.and_(*[L.eq(out["full"][a][b], K[a][b]) for a in range(n) for b in range(n)])
        yield "shapes", tuple(A.shape) == (n, n) and len(r) == n
        if tuple(A.shape) != (n, n) or len(r) != n:
            return
        if not S.symbolic:
            # native replay: compare with the matrix exponential at a few times
            from scipy.linalg import expm

            Kf = np.array(K, dtype=float)
            ok = True
            for t in (0.0, 0.3, 1.7):
                c = sum(np.asarray(A[l], dtype=float) * np.exp(-float(r[l]) * t) for l in range(n))
                ok = ok and bool(np.allclose(c, expm(Kf * t) @ np.asarray(j, dtype=float), rtol=1e-6, atol=1e-8))
            yield "concentrations_equal_expm_K_t_j", ok
            if not ok:
                yield "initial_condition_sum_of_A_rows_is_j", False
            return
        yield "initial_condition_sum_of_A_rows_is_j", L.and_(*[L.eq(L.sum([A[l][c] for l in range(n)]), j[c]) for c in range(n)])
        for l in range(n):
            yield f"rate_equation_K_A_l_equals_minus_rate_A_l[{l}]", L.and_(
                *[L.eq(L.sum([K[a][b] * A[l][b] for b in range(n)]), -r[l] * A[l][a]) for a in range(n)]
            )
        if out["seq"]:
            yield "sequential_only_if_chain_from_first_compartment", L.and_(L.eq(j[0], 1.0), *[L.eq(j[i], 0.0) for i in range(1, n)])
            yield "sequential_rates_are_minus_diagonal", L.and_(*[L.eq(r[l], -K[l][l]) for l in range(n)])
        else:
            calls = inp["eig"].calls
            yield "general_path_uses_left_eigenvectors_of_K_transposed", all(c == (True, False) for c in calls) and len(calls) >= 1
        # conservation when K has no loss channel
        if not any(to == fr for to, fr in inp["struct"]):
            yield "columns_of_K_sum_to_zero_without_loss", L.and_(*[L.eq(L.sum([out["full"][a][b] for a in range(n)]), 0.0) for b in range(n)])
            # d/dt sum_c c_c(t) = -sum_l r_l exp(-r_l t) sum_c A[l][c]: every decaying component carries no net population
            yield "total_population_conserved_without_loss", L.and_(*[L.eq(r[l] * L.sum([A[l][c] for c in range(n)]), 0.0) for l in range(n)])


class KMatrixFull(Contract):
    """full / reduced / combine / involved_compartments for every declaration order."""

    prop = "C04"
    name = "KMatrixFull"
    target = f"{KM}:KMatrix.full"
    functions = (f"{KM}:KMatrix.reduced", f"{KM}:KMatrix.combine", f"{KM}:KMatrix.involved_compartments")
    modules = MODS
    strength = "S"
    agreement_runs = 2

    def cases(self, tier):
        for n in (2, 3) if tier == "quick" else (2, 3, 4):
            for name in ("chain_loss_last", "branching", "reversible_first_pair_loss", "chain_all_loss"):
                perms = list(itertools.permutations(range(n)))
                for perm in perms if (tier == "thorough" or n <= 3) else perms[:6]:
                    yield {"n": n, "structure": name, "perm": perm}

    def build(self, S, case):
        from glotaran.builtin.megacomplexes.decay.k_matrix import KMatrix

        n = case["n"]
        struct = structures(n, "quick")[case["structure"]]
        k = {e: S.real(f"k_{e[0]}_{e[1]}") for e in struct}
        names = comp_names(n)
        half = len(struct) // 2
        a = KMatrix(label="a", matrix={(names[t], names[f]): k[(t, f)] for t, f in struct[: half + 1]})
        # the second matrix re-declares the last entry of the first with another value: right-biased union
        k2 = S.real("k_override")
        b_entries = {(names[t], names[f]): k[(t, f)] for t, f in struct[half + 1 :]}
        ot, of = struct[half]
        b_entries[(names[ot], names[of])] = k2
        b = KMatrix(label="b", matrix=b_entries)
        k_eff = dict(k)
        k_eff[(ot, of)] = k2
        order = [names[i] for i in case["perm"]]
        return {"a": a, "b": b, "order": order, "k": k_eff, "struct": struct, "perm": case["perm"], "n": n, "names": names}

    def call(self, S, case, inp):
        c = inp["a"].combine(inp["b"])
        return {"label": c.label, "keys": list(c.matrix.keys()), "full": c.full(inp["order"]), "reduced": c.reduced(inp["order"]), "involved": c.involved_compartments(), "a_keys": list(inp["a"].matrix.keys())}

    def observe(self, out):
        return out if isinstance(out, Raised) else (out["full"], out["reduced"], out["involved"])

    def ensures(self, S, case, inp, out):
        if isinstance(out, Raised):
            yield "no_exception", False
            return
        n, perm = inp["n"], inp["perm"]
        K = full_spec(n, inp["struct"], inp["k"])
        yield "combine_is_right_biased_union", set(out["keys"]) == {(inp["names"][t], inp["names"][f]) for t, f in inp["struct"]} and out["label"] == "a+b"
        yield "combine_leaves_operands_unchanged", out["a_keys"] == list(inp["a"].matrix.keys())
        yield "full_in_requested_compartment_order", L.and_(*[L.eq(out["full"][a][b], K[perm[a]][perm[b]]) for a in range(n) for b in range(n)])
        red = [[(inp["k"][(perm[a], perm[b])] if (perm[a], perm[b]) in inp["k"] else 0.0) for b in range(n)] for a in range(n)]
        yield "reduced_holds_the_declared_entries", L.and_(*[L.eq(out["reduced"][a][b], red[a][b]) for a in range(n) for b in range(n)])
        yield "involved_compartments_complete_and_unique", sorted(out["involved"]) == sorted(inp["names"]) and len(set(out["involved"])) == len(out["involved"])


class InitialConcentrationNormalized(Contract):
    prop = "C04"
    name = "InitialConcentrationNormalized"
    target = "glotaran.builtin.megacomplexes.decay.initial_concentration:InitialConcentration.normalized"
    modules = MODS
    strength = "S"
    agreement_runs = 2

    def cases(self, tier):
        for n in (1, 2, 3, 4):
            for excl in itertools.chain.from_iterable(itertools.combinations(range(n), k) for k in range(0, n)):
                yield {"n": n, "excluded": excl}

    def build(self, S, case):
        from glotaran.builtin.megacomplexes.decay.initial_concentration import InitialConcentration
        from glotaran.parameter import Parameter

        n = case["n"]
        names = comp_names(n)
        vals = [S.real(f"j_{i}") for i in range(n)]
        # the property speaks of every non-negative j; normalising needs a non-zero total of the part that is normalised
        # (all of it zero is 0/0 in the code as in the definition: outside the precondition, DESIGN §6 observation (s))
        for v in vals:
            S.require(L.ge(v, 0), "initial concentrations non-negative")
        S.require(L.gt(L.sum([vals[i] for i in range(n) if i not in case["excluded"]]), 0), "normalised part has a positive total")
        pars = [Parameter(label=f"j.{i+1}", value=v) for i, v in enumerate(vals)]
        ic = InitialConcentration(label="ic", compartments=names, parameters=pars, exclude_from_normalize=[names[i] for i in case["excluded"]])
        return {"ic": ic, "vals": vals, "pars": pars}

    def call(self, S, case, inp):
        return inp["ic"].normalized()

    def ensures(self, S, case, inp, out):
        if isinstance(out, Raised):
            yield "no_exception", False
            return
        n = case["n"]
        vals, excl = inp["vals"], set(case["excluded"])
        inc = [i for i in range(n) if i not in excl]
        yield "length", len(out) == n
        yield "normalised_part_sums_to_one", L.eq(L.sum([out[i] for i in inc]), 1.0)
        yield "excluded_entries_untouched", L.and_(*[L.eq(out[i], vals[i]) for i in excl])
        yield "proportions_kept", L.and_(*[L.eq(out[a] * vals[c], out[c] * vals[a]) for a in inc for c in inc if a < c])
        yield "parameters_not_modified", L.and_(*[L.eq(p.value, v) for p, v in zip(inp["pars"], vals)])


class DecayMegacomplexMatrix(Contract):
    """calculate_matrix of decay / decay-sequential / decay-parallel without IRF: (compartments, E·A)."""

    prop = "C04"
    name = "DecayMegacomplexMatrix"
    target = "glotaran.builtin.megacomplexes.decay.util:calculate_matrix"
    functions = (
        "glotaran.builtin.megacomplexes.decay.util:calculate_decay_matrix_no_irf",
        "glotaran.builtin.megacomplexes.decay.util:decay_matrix_implementation_index_independent",
        "glotaran.builtin.megacomplexes.decay.decay_megacomplex:DecayMegacomplex.get_compartments",
        "glotaran.builtin.megacomplexes.decay.decay_megacomplex:DecayMegacomplex.get_initial_concentration",
        "glotaran.builtin.megacomplexes.decay.decay_megacomplex:DecayMegacomplex.get_k_matrix",
        "glotaran.builtin.megacomplexes.decay.decay_megacomplex:DecayMegacomplex.get_a_matrix",
        "glotaran.builtin.megacomplexes.decay.decay_parallel_megacomplex:DecayParallelMegacomplex.get_k_matrix",
        "glotaran.builtin.megacomplexes.decay.decay_parallel_megacomplex:DecayParallelMegacomplex.get_initial_concentration",
        "glotaran.builtin.megacomplexes.decay.decay_sequential_megacomplex:DecaySequentialMegacomplex.get_k_matrix",
        "glotaran.builtin.megacomplexes.decay.decay_sequential_megacomplex:DecaySequentialMegacomplex.get_initial_concentration",
    )
    modules = MODS
    trusted = TRUSTED_EIG + ("exp uninterpreted with ground axiom instances",)
    drops = ("calculate_decay_matrix_no_irf (@nb.jit, parallel) is executed through its .py_func; nb.prange is a plain range there",)
    strength = "S"
    agreement_runs = 0

    def cases(self, tier):
        for kind in ("decay-sequential", "decay-parallel", "decay-sequential-unsorted", "decay-parallel-unsorted", "decay-chain", "decay-chain-initial-order", "decay-two-kmatrices", "decay-two-kmatrices-reversed", "decay-kmatrices-override"):
            for n in (1, 2, 3) if tier == "quick" else (1, 2, 3, 4):
                if kind.startswith("decay-two-kmatrices") and n < 2:
                    continue
                yield {"kind": kind, "n": n, "nt": 2}

    def build(self, S, case):
        from glotaran.builtin.megacomplexes.decay.decay_megacomplex import DecayDatasetModel, DecayMegacomplex
        from glotaran.builtin.megacomplexes.decay.decay_parallel_megacomplex import DecayParallelMegacomplex
        from glotaran.builtin.megacomplexes.decay.decay_sequential_megacomplex import DecaySequentialMegacomplex
        from glotaran.builtin.megacomplexes.decay.initial_concentration import InitialConcentration
        from glotaran.builtin.megacomplexes.decay.k_matrix import KMatrix
        from glotaran.parameter import Parameter

        n, kind = case["n"], case["kind"]
        names = comp_names(n)
        if kind.endswith("-unsorted"):
            # compartments declared in an order that is not the lexicographic one (S2 -> S1 -> T1): the declaration order is the chain
            names = list(reversed(names))
            kind = kind[: -len("-unsorted")]
        ks = [S.real(f"k_{i}") for i in range(n)]
        for i in range(n):
            S.require(L.gt(ks[i], 0), "rate constants positive")
            for i2 in range(i):
                S.require(L.not_(L.eq(ks[i], ks[i2])), "distinct rates")
        rates = [Parameter(label=f"k.{i+1}", value=v) for i, v in enumerate(ks)]
        t = np.array([0.0, 1.5])[: case["nt"]]
        if case.get("axis_dtype"):
            # native sweep: axes as loaded from files (integer time / wavelength coordinates)
            t = np.array([0, 1, 3]).astype(case["axis_dtype"])
        if kind == "decay-sequential":
            mc = DecaySequentialMegacomplex(label="mc", compartments=names, rates=rates)
            dm = DecayDatasetModel(label="ds", megacomplex=[mc])
            struct = [(i + 1, i) for i in range(n - 1)] + [(n - 1, n - 1)]
            k = {e: ks[e[1]] for e in struct}
            j = [1.0] + [0.0] * (n - 1)
            comps = names
        elif kind == "decay-parallel":
            mc = DecayParallelMegacomplex(label="mc", compartments=names, rates=rates)
            dm = DecayDatasetModel(label="ds", megacomplex=[mc])
            struct = [(i, i) for i in range(n)]
            k = {e: ks[e[0]] for e in struct}
            from fractions import Fraction

            j = [Fraction(1, n)] * n
            comps = names
        else:
            struct = [(i + 1, i) for i in range(n - 1)] + [(n - 1, n - 1)]
            k = {e: ks[e[1]] for e in struct}
            entries = {(names[t_], names[f]): rates[f] for t_, f in struct}
            if kind in ("decay-two-kmatrices", "decay-two-kmatrices-reversed"):
                items = list(entries.items())
                kms = [KMatrix(label="k1", matrix=dict(items[:1])), KMatrix(label="k2", matrix=dict(items[1:]))]
                if kind.endswith("reversed"):
                    # the K-matrix listed first involves the *later* compartments of the initial concentration
                    kms = [KMatrix(label="k1", matrix=dict(items[1:])), KMatrix(label="k2", matrix=dict(items[:1]))]
            elif kind == "decay-kmatrices-override":
                # entries declared in several K-matrices: the later one wins (KMatrix.combine, right biased)
                stale = {key: Parameter(label=f"stale.{i+1}", value=S.real(f"stale_{i}")) for i, key in enumerate(entries)}
                first = dict(list(stale.items()))
                second = dict(list(entries.items())[:1]) | dict(list(stale.items())[1:])
                third = dict(list(entries.items())[1:])
                kms = [KMatrix(label="k1", matrix=first), KMatrix(label="k2", matrix=second)] + ([KMatrix(label="k3", matrix=third)] if third else [])
            else:
                kms = [KMatrix(label="k1", matrix=entries)]
            mc = DecayMegacomplex(label="mc", k_matrix=kms)
            jv = [S.real(f"j_{i}") for i in range(n)]
            for v in jv:
                S.require(L.ge(v, 0), "initial concentrations non-negative")
            S.require(L.gt(L.sum(jv), 0), "normalised part has a positive total")
            # compartment order is the one of the initial concentration, not of the K-matrix
            order = list(range(n)) if kind != "decay-chain-initial-order" else list(reversed(range(n)))
            ic = InitialConcentration(label="ic", compartments=[names[i] for i in order] + ["unused"], parameters=[Parameter(label=f"j.{i+1}", value=jv[i]) for i in order] + [Parameter(label="j.u", value=S.real("j_u"))], exclude_from_normalize=["unused"])
            dm = DecayDatasetModel(label="ds", megacomplex=[mc], initial_concentration=ic)
            tot = L.sum(jv)
            j = [jv[i] / tot for i in order]
            comps = [names[i] for i in order]
            # K in the order of `comps`
            pos = {c: i for i, c in enumerate(order)}
            struct = [(pos[t_], pos[f]) for t_, f in struct]
            k = {(pos[t_], pos[f]): v for (t_, f), v in k.items()}
        return {"mc": mc, "dm": dm, "t": t, "struct": struct, "k": k, "j": j, "comps": comps, "n": n, "ks": ks}

    def stubs_for(self, S, case, inp):
        import glotaran.builtin.megacomplexes.decay.util as util

        stubs = {}
        if S.symbolic:
            st = EigStub(S)
            inp["eig"] = st
            stubs[f"{KM}:eig"] = st.eig
            stubs[f"{KM}:solve"] = st.solve
            fn = util.calculate_decay_matrix_no_irf
            stubs["glotaran.builtin.megacomplexes.decay.util:calculate_decay_matrix_no_irf"] = getattr(fn, "py_func", fn)
        return stubs

    def call(self, S, case, inp):
        mc, dm, t = inp["mc"], inp["dm"], inp["t"]
        labels, M = mc.calculate_matrix(dm, np.array([0.0]).astype(case.get("axis_dtype", "float64")), t)
        A = mc.get_a_matrix(dm)
        r = mc.get_k_matrix().rates(mc.get_compartments(dm), mc.get_initial_concentration(dm))
        return {"labels": list(labels), "M": np.asarray(M, dtype=object if S.symbolic else float), "A": np.asarray(A, dtype=object if S.symbolic else float), "r": np.asarray(r, dtype=object if S.symbolic else float)}

    def observe(self, out):
        return out if isinstance(out, Raised) else None

    def ensures(self, S, case, inp, out):
        if isinstance(out, Raised):
            yield "no_exception", False
            return
        n, t = inp["n"], inp["t"]
        A, r, M, j = out["A"], out["r"], out["M"], inp["j"]
        K = full_spec(n, inp["struct"], inp["k"])
        yield "labels_are_compartments_in_initial_concentration_order", out["labels"] == inp["comps"]
        yield "shape", tuple(M.shape) == (len(t), n)
        if tuple(M.shape) != (len(t), n):
            return
        if not S.symbolic:
            from scipy.linalg import expm

            Kf = np.array([[float(x) for x in row] for row in K])
            jf = np.array([float(x) for x in j])
            yield "columns_are_expm_K_t_j", bool(all(np.allclose(M[ti], expm(Kf * float(t[ti])) @ jf, rtol=1e-6, atol=1e-9) for ti in range(len(t))))
            return
        yield "initial_condition_sum_of_A_rows_is_j", L.and_(*[L.eq(L.sum([A[l][c] for l in range(n)]), j[c]) for c in range(n)])
        for l in range(n):
            yield f"rate_equation_K_A_l_equals_minus_rate_A_l[{l}]", L.and_(*[L.eq(L.sum([K[a][b] * A[l][b] for b in range(n)]), -r[l] * A[l][a]) for a in range(n)])
        cells = []
        for ti in range(len(t)):
            for c in range(n):
                want = L.sum([L.fn("exp", -r[l] * float(t[ti])) * A[l][c] for l in range(n)])
                cells.append(L.eq(M[ti][c], want))
        yield "column_of_compartment_is_sum_A_exp_minus_rate_t", L.and_(*cells)


def _decay_matrix_sweep(self, tier, seed):
    from contracts.common import native_sweep

    cases = [{"kind": kind, "n": n, "nt": 2} for kind in ("decay-sequential", "decay-parallel", "decay-chain") for n in ((4, 6) if tier == "quick" else (4, 5, 6, 8))]
    cases += [{"kind": kind, "n": 3, "nt": 3, "axis_dtype": dt} for kind in ("decay-sequential", "decay-parallel", "decay-chain") for dt in ("int64", "int32")]
    # products declared before their precursors (the K-matrix is upper triangular in the order of the initial concentration) and
    # several K-matrices: the eigen path with LAPACK's own ordering of the eigenvalues, compared with expm natively
    cases += [{"kind": kind, "n": n, "nt": 2} for kind in ("decay-chain-initial-order", "decay-two-kmatrices-reversed") for n in (2, 3, 5)]

    def env(case, rng):
        ks = sorted({round(rng.uniform(0.05, 3.0), 3) for _ in range(case["n"] * 3)})
        rng.shuffle(ks)
        e = {f"k_{i}": ks[i] for i in range(case["n"])}
        e.update({f"j_{i}": round(rng.uniform(0.1, 2.0), 3) for i in range(case["n"])})
        e["j_u"] = 0.5
        return e

    return native_sweep(self, cases, envs=env, seed=seed)


DecayMegacomplexMatrix.bounded_checks = _decay_matrix_sweep


class DecayAssociatedData(Contract):
    """retrieve_decay_associated_data: DAS = SAS·A^T, lifetimes = 1/rates, reported A / K matrices."""

    prop = "C04"
    name = "DecayAssociatedData"
    target = "glotaran.builtin.megacomplexes.decay.util:retrieve_decay_associated_data"
    modules = MODS
    trusted = TRUSTED_EIG + ("xarray executed for real on object arrays (coordinates concrete)",)
    strength = "S"
    agreement_runs = 0

    def cases(self, tier):
        for kind in ("decay-sequential", "decay-parallel"):
            for n in (1, 2, 3):
                yield {"kind": kind, "n": n}

    def build(self, S, case):
        import xarray as xr

        from glotaran.builtin.megacomplexes.decay.decay_megacomplex import DecayDatasetModel
        from glotaran.builtin.megacomplexes.decay.decay_parallel_megacomplex import DecayParallelMegacomplex
        from glotaran.builtin.megacomplexes.decay.decay_sequential_megacomplex import DecaySequentialMegacomplex
        from glotaran.parameter import Parameter

        n = case["n"]
        names = comp_names(n)
        ks = [S.real(f"k_{i}") for i in range(n)]
        for i in range(n):
            S.require(L.gt(ks[i], 0), "rate constants positive")
            for i2 in range(i):
                S.require(L.not_(L.eq(ks[i], ks[i2])), "distinct rates")
        rates = [Parameter(label=f"k.{i+1}", value=v) for i, v in enumerate(ks)]
        cls = DecaySequentialMegacomplex if case["kind"] == "decay-sequential" else DecayParallelMegacomplex
        mc = cls(label="mc", compartments=names, rates=rates)
        dm = DecayDatasetModel(label="ds", megacomplex=[mc])
        ng = 2
        sas = S.real_array("sas", ng, n)
        # the dataset lists the species in another order than the megacomplex: selection must be by label
        order = list(reversed(range(n)))
        ds = xr.Dataset(
            {"species_associated_spectra": (("spectral", "species"), np.array(sas, dtype=object if S.symbolic else float)[:, order])},
            coords={"spectral": [500.0, 600.0], "species": [names[i] for i in order]},
        )
        return {"mc": mc, "dm": dm, "ds": ds, "sas": sas, "ks": ks, "n": n, "names": names}

    def stubs_for(self, S, case, inp):
        if not S.symbolic:
            return {}
        st = EigStub(S)
        return {f"{KM}:eig": st.eig, f"{KM}:solve": st.solve}

    def call(self, S, case, inp):
        from glotaran.builtin.megacomplexes.decay.util import retrieve_decay_associated_data

        mc, dm, ds = inp["mc"], inp["dm"], inp["ds"]
        retrieve_decay_associated_data(mc, dm, ds, "spectral", "spectra")
        A = mc.get_a_matrix(dm)
        r = mc.get_k_matrix().rates(mc.get_compartments(dm), mc.get_initial_concentration(dm))
        K = mc.get_k_matrix().full(mc.get_compartments(dm))
        return {"ds": ds, "A": np.asarray(A, dtype=object if S.symbolic else float), "r": np.asarray(r, dtype=object if S.symbolic else float), "K": np.asarray(K, dtype=object if S.symbolic else float)}

    def observe(self, out):
        return out if isinstance(out, Raised) else None

    def ensures(self, S, case, inp, out):
        if isinstance(out, Raised):
            yield "no_exception", False
            return
        ds, A, r, K, n = out["ds"], out["A"], out["r"], out["K"], inp["n"]
        das = ds["decay_associated_spectra_mc"]
        yield "das_dims", tuple(das.dims) == ("spectral", "component_mc") and tuple(das.shape) == (2, n)
        yield "das_is_sas_times_a_matrix_transposed_by_species_label", L.and_(
            *[L.eq(das.values[g, l], L.sum([inp["sas"][g, c] * A[l][c] for c in range(n)])) for g in range(2) for l in range(n)]
        )
        yield "rates_and_lifetimes_reported_per_component", L.and_(
            *[L.eq(ds.coords["rate_mc"].values[l], r[l]) for l in range(n)], *[L.eq(ds.coords["lifetime_mc"].values[l] * r[l], 1.0) for l in range(n)]
        )
        am = ds["a_matrix_mc"]
        yield "a_matrix_reported_on_component_and_species", tuple(am.dims) == ("component_mc", "species_mc") and [str(x) for x in am.coords["species_mc"].values] == inp["names"] and L.and_(
            *[L.eq(am.values[l, c], A[l][c]) for l in range(n) for c in range(n)]
        )
        km = ds["k_matrix_mc"]
        yield "k_matrix_reported_is_the_full_k_matrix", L.and_(*[L.eq(km.values[a, b], K[a][b]) for a in range(n) for b in range(n)])


class SolutionLemma(Contract):
    """The mathematics between the discharged obligations and the property, proved in Lean 4 + Mathlib for
    every number of compartments and re-checked by `lean` on every run (`lemmas/DecayODE.lean`):
    K a_l = -r_l a_l for every row a_l of the A-matrix and sum_l a_l = j imply
    (exp(t K) j)_c = sum_l A[l,c] exp(-r_l t), the solution of c' = K c, c(0) = j (through: an eigenvector of
    M is an eigenvector of exp M with eigenvalue exp mu, by the power series)."""

    prop = "C04"
    name = "SolutionLemma"
    lemma_files = (__import__("pathlib").Path(__file__).resolve().parent.parent / "lemmas" / "DecayODE.lean",)
    target = None
    strength = "U"
    trusted = ("Lean 4.33 kernel and Mathlib (NormedSpace.exp on matrices, Real.exp, Matrix.mulVec); axioms propext, Classical.choice, Quot.sound",)

    def cases(self, tier):
        return iter(())

    def static_obligations(self, tier):
        from pathlib import Path

        from pyvc.lean import check_lemmas

        return check_lemmas(
            Path(__file__).resolve().parent.parent / "lemmas" / "DecayODE.lean",
            {"PyVC.decay_concentration": "lemma_rate_equation_and_initial_condition_give_the_matrix_exponential_for_all_n"},
        )


class SequentialClosedFormLemma(Contract):
    """`bateman_rate_equation`, `bateman_initial_condition` (Lean 4 + Mathlib, re-checked every run): the closed form
    A[i][j] = prod_{m<j} k_m / prod_{m<=j, m!=i} (k_m - k_i) (i <= j) that `a_matrix_sequential` evaluates satisfies the
    rate equations of the chain and the initial condition e_1 for EVERY number of compartments and pairwise distinct
    rates - the identities discharged on the real code for chains of up to 5 (6) compartments."""

    prop = "C04"
    name = "SequentialClosedFormLemma"
    lemma_files = (__import__("pathlib").Path(__file__).resolve().parent.parent / "lemmas" / "Bateman.lean",)
    target = None
    strength = "U"
    trusted = ("Lean 4.33 kernel and Mathlib (Finset products, Lagrange interpolation); axioms propext, Classical.choice, Quot.sound",)

    def cases(self, tier):
        return iter(())

    def static_obligations(self, tier):
        from pyvc.lean import check_lemmas

        return check_lemmas(
            self.lemma_files[0],
            {
                "PyVC.bateman_rate_equation": "lemma_sequential_closed_form_satisfies_the_rate_equations_for_all_n",
                "PyVC.bateman_initial_condition": "lemma_sequential_closed_form_starts_in_the_first_compartment_for_all_n",
            },
        )


from contracts.common import FunctionAxiomsBase  # noqa: E402


class FunctionAxioms(FunctionAxiomsBase):
    abstract = False
    prop = "C04"
