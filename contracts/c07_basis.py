"""C07 - oscillation, artifact and spectral basis functions obey their definitions."""
from __future__ import annotations

import itertools

import numpy as np

from pyvc import shim
from pyvc.contract import Contract, L, Raised
from pyvc.sym import SArr, SymComplex, SymReal, is_sym

DO = "glotaran.builtin.megacomplexes.damped_oscillation.damped_oscillation_megacomplex"
PF = "glotaran.builtin.megacomplexes.pfid.pfid_megacomplex"
CA = "glotaran.builtin.megacomplexes.coherent_artifact.coherent_artifact_megacomplex"
SH = "glotaran.builtin.megacomplexes.spectral.shape"
SM = "glotaran.builtin.megacomplexes.spectral.spectral_megacomplex"
IRF = "glotaran.builtin.megacomplexes.decay.irf"
MODS = (DO, PF, CA, SH, SM, IRF, "glotaran.builtin.megacomplexes.decay.util", "glotaran.parameter.parameter")
DROPS = ("numba @jit kernels are executed through their .py_func (compilation and parallel schedule dropped)",)
TRUSTED = (
    "exp, cos, sin, log uninterpreted; the complex error function is a pair of uninterpreted functions of (re, im): formulas are compared structurally with the documented closed forms",
    "mathematical fact (stated, not machine-checked): the complex closed form is proportional to the convolution of the causal / anti-causal oscillation with the Gaussian IRF (the real-rate case is the Lean theorem convolution_closed_form of C05; the complex error function is not in Mathlib)",
    "that columns 2 and 3 of the coherent artifact are the first and second time derivative of column 1 are the Lean theorems g_hasDerivAt / g'_hasDerivAt (lemmas/GaussianDerivatives.lean, w ≠ 0, all c, t; re-checked every run)",
)


def _params(S, prefix, n):
    from glotaran.parameter import Parameter

    vals = [S.real(f"{prefix}_{i}") for i in range(n)]
    return [Parameter(label=f"{prefix}.{i+1}", value=v) for i, v in enumerate(vals)], vals


def _irf(S, kind, ng, n_gauss=1):
    from glotaran.builtin.megacomplexes.decay.irf import IrfMultiGaussian

    cp, cv = _params(S, "c", n_gauss)
    wp, wv = _params(S, "w", n_gauss)
    for w in wv:
        S.require(L.gt(w, 0), "irf widths positive")
    kw = {}
    sv, shv = [1.0] * n_gauss, [0.0] * ng
    if n_gauss > 1:
        sp, sv = _params(S, "s", n_gauss)
        kw["scale"] = sp
    if kind == "shift":
        shp, shv = _params(S, "sh", ng)
        kw["shift"] = shp
    return IrfMultiGaussian(label="irf", center=cp, width=wp, **kw), cv, wv, sv, shv


class _DM:
    def __init__(self, irf, **kw):
        self.irf = irf
        self.label = "ds"
        self.spectral_axis_inverted = kw.get("inverted", False)
        self.spectral_axis_scale = kw.get("scale", 1)


class _C:
    """Concrete complex number with the .re / .im interface of SymComplex (native evaluation of the closed form)."""

    def __init__(self, z):
        self.z = complex(z)
        self.re, self.im = self.z.real, self.z.imag

    def __add__(self, o):
        return _C(self.z + o.z)


def osc_closed_form(tau, k_re, k_im, sigma, sign, scale):
    """scale · exp((-τ + kσ²/2)k)(1 + erf((τ - kσ²)/(±√2σ)))  with k = k_re + i k_im."""
    from pyvc.sym import is_sym as _is_sym

    if not any(_is_sym(x) for x in (tau, k_re, k_im, sigma, scale)):
        from scipy.special import erf as _cerf

        kc = complex(float(k_re), float(k_im))
        dkc = kc * float(sigma) ** 2
        return _C(np.exp((-float(tau) + 0.5 * dkc) * kc) * (1 + _cerf((float(tau) - dkc) / (sign * np.sqrt(2) * float(sigma)))) * float(scale))
    k = SymComplex(k_re, k_im)
    d = sigma * sigma
    dk = k * d
    a = ((-1 * tau + 0.5 * dk) * k).exp() if isinstance(((-1 * tau + 0.5 * dk) * k), SymComplex) else L.fn("exp", (-1 * tau + 0.5 * dk) * k)
    arg = (tau - dk) / (sign * np.sqrt(2) * sigma)
    from pyvc import sym

    b = 1 + sym._fn("erf", arg)
    return a * b * scale


class DampedOscillation(Contract):
    prop = "C07"
    name = "DampedOscillation"
    target = f"{DO}:DampedOscillationMegacomplex.calculate_matrix"
    functions = (
        f"{DO}:calculate_damped_oscillation_matrix_no_irf",
        f"{DO}:calculate_damped_oscillation_matrix_gaussian_irf_on_index",
        f"{DO}:calculate_damped_oscillation_matrix_gaussian_irf",
    )
    modules = MODS
    trusted = TRUSTED
    drops = DROPS
    strength = "S"
    agreement_runs = 0
    max_paths = {"quick": 4000, "thorough": 40000}
    not_decided = ("frequency folding above the Nyquist frequency of the time axis is excluded by precondition (np.mod is outside the engine)",)

    def cases(self, tier):
        for irf in ("none", "plain", "shift"):
            for n in (1, 2) if tier == "quick" else (1, 2, 3):
                for ng in ((1,) if irf == "none" else (1, 2)):
                    if ng == 2 and (irf == "shift" or n > 1) and tier == "quick":
                        continue
                    yield {"irf": irf, "n": n, "gaussians": ng, "rates": "nonneg"}
        # damping rates of either sign: negative rates use the mirrored (anti-causal) closed form on tau < 5 sigma
        yield {"irf": "plain", "n": 1, "gaussians": 1, "rates": "neg"}
        yield {"irf": "shift", "n": 1, "gaussians": 1, "rates": "neg"}
        yield {"irf": "plain", "n": 2, "gaussians": 1, "rates": "mixed"}

    def build(self, S, case):
        from glotaran.builtin.megacomplexes.damped_oscillation.damped_oscillation_megacomplex import DampedOscillationMegacomplex

        n = case["n"]
        fp, fv = _params(S, "f", n)
        rp, rv = _params(S, "g", n)
        t = np.array([-0.5, 0.25])
        gaxis = np.array([500.0, 600.0])
        if case.get("axis_dtype"):
            # native sweep: axes as loaded from files (integer time / wavelength coordinates)
            t = np.array([-1, 0, 1]).astype(case["axis_dtype"])
            gaxis = np.array([500, 600]).astype(case["axis_dtype"])
        fmax = 1 / (2 * 0.03 * float(t[1] - t[0]))
        for f in fv:
            S.require(L.lt(f * 0.03 * 2 * np.pi, fmax), "below the Nyquist frequency of the time axis (no folding)")
        signs = []
        for j, r in enumerate(rv):
            neg = case["rates"] == "neg" or (case["rates"] == "mixed" and j == 1)
            signs.append(-1.0 if neg else 1.0)
            if neg:
                S.require(L.lt(r, 0), "negative damping rate")
            else:
                S.require(L.ge(r, 0), "damping rate non-negative (an undamped oscillation, rate exactly 0, is causal)")
        labels = [f"osc{i}" for i in range(n)]
        mc = DampedOscillationMegacomplex(label="doas", labels=labels, frequencies=fp, rates=rp)
        if case["irf"] == "none":
            irf, cv, wv, sv, shv = None, None, None, None, None
        else:
            irf, cv, wv, sv, shv = _irf(S, case["irf"], len(gaxis), case["gaussians"])
        return {"mc": mc, "dm": _DM(irf), "t": t, "g": gaxis, "fv": fv, "rv": rv, "cv": cv, "wv": wv, "sv": sv, "shv": shv, "labels": labels, "signs": signs}

    def stubs_for(self, S, case, inp):
        if not S.symbolic:
            return {}
        import glotaran.builtin.megacomplexes.damped_oscillation.damped_oscillation_megacomplex as m

        fn = m.calculate_damped_oscillation_matrix_no_irf
        return {f"{DO}:calculate_damped_oscillation_matrix_no_irf": getattr(fn, "py_func", fn)}

    def call(self, S, case, inp):
        labels, M = inp["mc"].calculate_matrix(inp["dm"], inp["g"], inp["t"])
        return {"labels": list(labels), "M": np.asarray(M, dtype=object if S.symbolic else float)}

    def observe(self, out):
        return out if isinstance(out, Raised) else None

    def ensures(self, S, case, inp, out):
        if isinstance(out, Raised):
            yield "no_exception", False
            return
        n, t = case["n"], inp["t"]
        labels, M = out["labels"], out["M"]
        yield "labels_are_cos_then_sin_of_every_oscillation", sorted(labels) == sorted([f"{l}_cos" for l in inp["labels"]] + [f"{l}_sin" for l in inp["labels"]]) and len(set(labels)) == 2 * n
        if sorted(labels) != sorted([f"{l}_cos" for l in inp["labels"]] + [f"{l}_sin" for l in inp["labels"]]):
            return
        dep = case["irf"] == "shift"
        yield "index_dependent_iff_irf_is", (M.ndim == 3) == dep
        cells = []
        for j, lab in enumerate(inp["labels"]):
            ic, isn = labels.index(f"{lab}_cos"), labels.index(f"{lab}_sin")
            gam, om = inp["rv"][j], inp["fv"][j] * 0.03 * 2 * np.pi
            for gi in range(len(inp["g"]) if dep else 1):
                for ti in range(len(t)):
                    got_c = M[gi, ti, ic] if dep else M[ti, ic]
                    got_s = M[gi, ti, isn] if dep else M[ti, isn]
                    if case["irf"] == "none":
                        e = L.fn("exp", -gam * float(t[ti]))
                        want_c = e * L.fn("cos", -om * float(t[ti]))
                        want_s = e * L.fn("sin", -om * float(t[ti]))
                    else:
                        tot = L.sum(inp["sv"])
                        acc = None
                        for g in range(case["gaussians"]):
                            # the same effective IRF position as the decay model of the dataset: centre - shift_i
                            tau = float(t[ti]) - (inp["cv"][g] - inp["shv"][gi if dep else 0])
                            # rates >= 0: the causal form on tau > -5 sigma, zero before; rates < 0: mirrored form on tau < 5 sigma
                            sgn = inp["signs"][j]
                            inside = _decide(tau > -5 * inp["wv"][g], S) if sgn > 0 else _decide(tau < 5 * inp["wv"][g], S)
                            if inside:
                                term = osc_closed_form(tau, gam, om, inp["wv"][g], sgn, inp["sv"][g])
                                acc = term if acc is None else acc + term
                        if acc is None:
                            want_c = want_s = 0.0
                        else:
                            want_c, want_s = acc.re / tot, acc.im / tot
                    cells.append(L.eq(got_c, want_c))
                    cells.append(L.eq(got_s, want_s))
        if case["irf"] == "none":
            yield "columns_are_cos_and_sin_quadratures_of_exp_minus_gamma_t_minus_i_omega_t", L.and_(*cells)
        else:
            yield "columns_are_the_closed_form_with_one_constant_and_no_additive_term", L.and_(*cells)


def _decide(cond, S):
    from pyvc import sym

    if isinstance(cond, (bool, np.bool_)):
        return bool(cond)
    return sym.CUR.decide(cond)


def _oscillation_sweep(self, tier, seed):
    from contracts.common import native_sweep

    cases = [{"irf": irf, "n": n, "gaussians": (1 if irf == "none" else 3), "rates": "nonneg"} for irf in ("none", "plain", "shift") for n in (4, 6)]
    cases += [{"irf": irf, "n": 2, "gaussians": (1 if irf == "none" else 3), "rates": "nonneg", "axis_dtype": "int64"} for irf in ("none", "plain", "shift")]

    def env(case, rng):
        e = {f"f_{i}": round(rng.uniform(0.5, 20.0), 3) for i in range(case["n"])}
        e.update({f"g_{i}": round(rng.uniform(0.0, 2.0), 3) for i in range(case["n"])})
        for nm in ("w", "s"):
            e.update({f"{nm}_{i}": round(rng.uniform(0.1, 0.6), 3) for i in range(3)})
        return e

    return native_sweep(self, cases, envs=env, tries=3, seed=seed)


DampedOscillation.bounded_checks = _oscillation_sweep


class Pfid(Contract):
    prop = "C07"
    name = "Pfid"
    target = f"{PF}:PFIDMegacomplex.calculate_matrix"
    functions = (f"{PF}:calculate_pfid_matrix_gaussian_irf_on_index", f"{PF}:calculate_pfid_matrix_gaussian_irf")
    modules = MODS
    trusted = TRUSTED
    strength = "S"
    agreement_runs = 0
    max_paths = {"quick": 4000, "thorough": 40000}

    def cases(self, tier):
        for irf in ("plain", "shift"):
            for n in (1, 2):
                for axis in ("plain", "inverted", "scaled"):
                    if tier == "quick" and n == 2 and axis != "plain":
                        continue
                    yield {"irf": irf, "n": n, "axis": axis}
            # several PFIDs of which only the first has a negative rate: its columns are unaffected by the others
            yield {"irf": irf, "n": 2, "axis": "plain", "rates": "mixed"}

    def build(self, S, case):
        from glotaran.builtin.megacomplexes.pfid.pfid_megacomplex import PFIDMegacomplex

        n = case["n"]
        fp, fv = _params(S, "f", n)
        rp, rv = _params(S, "g", n)
        for j, r in enumerate(rv):
            if case.get("rates") == "mixed" and j > 0:
                S.require(L.ge(r, 0), "a rate that is not negative")
            else:
                S.require(L.lt(r, 0), "PFID decay rates negative (anti-causal)")
        for f in fv:
            S.require(L.not_(L.eq(f, 0.0)), "frequencies non-zero")
        t = np.array([-1.0, 0.5])
        gaxis = np.array([1500.0, 1600.0])
        irf, cv, wv, sv, shv = _irf(S, case["irf"], len(gaxis), 1)
        labels = [f"p{i}" for i in range(n)]
        mc = PFIDMegacomplex(label="pfid", labels=labels, frequencies=fp, rates=rp)
        dm = _DM(irf, inverted=case["axis"] == "inverted", scale=1e7 if case["axis"] == "inverted" else (2.0 if case["axis"] == "scaled" else 1))
        return {"mc": mc, "dm": dm, "t": t, "g": gaxis, "fv": fv, "rv": rv, "cv": cv, "wv": wv, "sv": sv, "shv": shv, "labels": labels}

    def call(self, S, case, inp):
        labels, M = inp["mc"].calculate_matrix(inp["dm"], inp["g"], inp["t"])
        return {"labels": list(labels), "M": np.asarray(M, dtype=object if S.symbolic else float)}

    def observe(self, out):
        return out if isinstance(out, Raised) else None

    def ensures(self, S, case, inp, out):
        if isinstance(out, Raised):
            yield "no_exception", False
            return
        labels, M, t = out["labels"], out["M"], inp["t"]
        want_labels = [f"{l}_cos" for l in inp["labels"]] + [f"{l}_sin" for l in inp["labels"]]
        yield "labels_are_cos_then_sin_of_every_oscillation", sorted(labels) == sorted(want_labels)
        if sorted(labels) != sorted(want_labels):
            return
        cells = []
        dep = case["irf"] == "shift"
        for j, lab in enumerate(inp["labels"]):
            if case.get("rates") == "mixed" and j > 0:
                continue  # (nothing is claimed about a PFID whose rate is not negative)
            ic, isn = labels.index(f"{lab}_cos"), labels.index(f"{lab}_sin")
            nu = inp["fv"][j]
            if case["axis"] == "inverted":
                nu = 1e7 / nu
            elif case["axis"] == "scaled":
                nu = nu * 2.0
            for gi in range(len(inp["g"])):
                om = (float(inp["g"][gi]) - nu) * 0.03 * 2 * np.pi
                for ti in range(len(t)):
                    tau = float(t[ti]) - (inp["cv"][0] - inp["shv"][gi if dep else 0])
                    inside = _decide(tau < 5 * inp["wv"][0], S)
                    if inside:
                        term = osc_closed_form(tau, inp["rv"][j], om, inp["wv"][0], -1.0, inp["sv"][0])
                        want_c, want_s = -term.re / inp["sv"][0], -term.im / inp["sv"][0]
                    else:
                        want_c = want_s = 0.0
                    cells.append(L.eq(M[gi, ti, ic], want_c))
                    cells.append(L.eq(M[gi, ti, isn], want_s))
        yield "columns_are_the_anti_causal_closed_form_relative_to_the_probe_wavenumber", L.and_(*cells)


class CoherentArtifact(Contract):
    prop = "C07"
    name = "CoherentArtifact"
    target = f"{CA}:CoherentArtifactMegacomplex.calculate_matrix"
    functions = (f"{CA}:_calculate_coherent_artifact_matrix_on_index", f"{CA}:_calculate_coherent_artifact_matrix", f"{CA}:CoherentArtifactMegacomplex.get_irf_parameter", f"{CA}:CoherentArtifactMegacomplex.compartments")
    modules = MODS
    trusted = TRUSTED
    drops = DROPS
    strength = "S"
    agreement_runs = 0

    def cases(self, tier):
        for order in (0, 1, 2, 3, 4):
            for irf in ("plain", "shift", "none", "dispersion"):
                for own in (False, True):
                    if order in (0, 4) and (irf != "plain" or own):
                        continue
                    yield {"order": order, "irf": irf, "own_width": own}

    def build(self, S, case):
        from glotaran.builtin.megacomplexes.coherent_artifact.coherent_artifact_megacomplex import CoherentArtifactMegacomplex
        from glotaran.parameter import Parameter

        gaxis = np.array([500.0, 600.0])
        t = S.real_array("t", 2)
        disp = None
        if case["irf"] == "none":
            irf, cv, wv, sv, shv = None, None, None, None, None
        elif case["irf"] == "dispersion":
            # a spectral IRF whose centre *and* width depend on the global index: the artifact sits at the centre of index i and,
            # without a width of its own, has the IRF width of index i - the same effective IRF as the decay model of the dataset
            from glotaran.builtin.megacomplexes.decay.irf import IrfSpectralMultiGaussian

            cp, cv = _params(S, "c", 1)
            wp, wv = _params(S, "w", 1)
            ccp, ccv = _params(S, "cd", 1)
            wcp, wcv = _params(S, "wd", 1)
            irf = IrfSpectralMultiGaussian(label="irf", center=cp, width=wp, dispersion_center=Parameter(label="dc", value=550.0), center_dispersion_coefficients=ccp, width_dispersion_coefficients=wcp)
            sv, shv = [1.0], [0.0] * len(gaxis)
            disp = [(float(g) - 550.0) / 100 for g in gaxis]
            for d in disp:
                S.require(L.gt(wv[0] + wcv[0] * d, 0), "effective widths positive")
            disp = [(ccv[0] * d, wcv[0] * d) for d in disp]
        else:
            irf, cv, wv, sv, shv = _irf(S, case["irf"], len(gaxis), 1)
        ow = None
        kw = {}
        if case["own_width"]:
            ow = S.real("ow")
            S.require(L.gt(ow, 0), "own width positive")
            kw["width"] = Parameter(label="ca.w", value=ow)
        mc = CoherentArtifactMegacomplex(label="ca", order=case["order"], **kw)
        return {"mc": mc, "dm": _DM(irf), "t": t, "g": gaxis, "cv": cv, "wv": wv, "shv": shv, "ow": ow, "disp": disp}

    def stubs_for(self, S, case, inp):
        if not S.symbolic:
            return {}
        import glotaran.builtin.megacomplexes.coherent_artifact.coherent_artifact_megacomplex as m

        a, b = m._calculate_coherent_artifact_matrix, m._calculate_coherent_artifact_matrix_on_index
        return {f"{CA}:_calculate_coherent_artifact_matrix": getattr(a, "py_func", a), f"{CA}:_calculate_coherent_artifact_matrix_on_index": getattr(b, "py_func", b)}

    def call(self, S, case, inp):
        labels, M = inp["mc"].calculate_matrix(inp["dm"], inp["g"], inp["t"])
        return {"labels": list(labels), "M": np.asarray(M, dtype=object if S.symbolic else float)}

    def observe(self, out):
        return out if isinstance(out, Raised) else None

    def ensures(self, S, case, inp, out):
        from glotaran.model import ModelError

        order = case["order"]
        if order not in (1, 2, 3) or case["irf"] == "none":
            yield "invalid_configuration_rejected_with_ModelError", isinstance(out, Raised) and isinstance(out.exc, ModelError)
            return
        if isinstance(out, Raised):
            yield "no_exception", False
            return
        labels, M, t = out["labels"], out["M"], inp["t"]
        yield "labels_one_per_order", labels == [f"coherent_artifact_{i}_ca" for i in range(1, order + 1)]
        dep = case["irf"] in ("shift", "dispersion")
        cells = []
        for gi in range(len(inp["g"]) if dep else 1):
            c = inp["cv"][0] - inp["shv"][gi if dep else 0]
            w = inp["ow"] if case["own_width"] else inp["wv"][0]
            if inp["disp"] is not None:
                c = c + inp["disp"][gi][0]
                w = w if case["own_width"] else w + inp["disp"][gi][1]
            for ti in range(len(t)):
                g0 = L.fn("exp", -1 * (t[ti] - c) ** 2 / (2 * w**2))
                want = [g0, g0 * (c - t[ti]) / w**2, g0 * ((t[ti] - c) ** 2 - w**2) / w**4]
                for o in range(order):
                    got = M[gi, ti, o] if dep else M[ti, o]
                    cells.append(L.eq(got, want[o]))
        yield "columns_are_gaussian_and_its_first_and_second_derivative_shapes_at_irf_centre_minus_shift", L.and_(*cells)


class SpectralShapes(Contract):
    prop = "C07"
    name = "SpectralShapes"
    target = f"{SH}:SpectralShapeSkewedGaussian.calculate"
    functions = (f"{SH}:SpectralShapeGaussian.calculate", f"{SH}:SpectralShapeOne.calculate", f"{SH}:SpectralShapeZero.calculate", f"{SM}:SpectralMegacomplex.calculate_matrix")
    modules = MODS
    trusted = TRUSTED + ("np.log(2) is kept as the exact symbol log(2) (contract opt-in of the numpy shim) so that exp(-log 2) = 1/2 follows from the axioms",)
    strength = "S"
    agreement_runs = 0
    max_paths = {"quick": 4000, "thorough": 40000}
    not_decided = ("continuity as skewness tends to 0 is a limit statement: only the fallback branch (|b| <= 1e-8 gives exactly the Gaussian) is decided",)

    def cases(self, tier):
        for kind in ("gaussian", "skewed"):
            for amp in (False, True):
                yield {"kind": kind, "amplitude": amp, "points": "special"}
                yield {"kind": kind, "amplitude": amp, "points": "generic"}
        for axis in ("plain", "inverted", "scaled"):
            for order in ((0, 1), (1, 0)):
                yield {"kind": "megacomplex", "axis": axis, "order": order}

    def build(self, S, case):
        from glotaran.builtin.megacomplexes.spectral.shape import SpectralShapeGaussian, SpectralShapeOne, SpectralShapeSkewedGaussian, SpectralShapeZero
        from glotaran.builtin.megacomplexes.spectral.spectral_megacomplex import SpectralMegacomplex
        from glotaran.parameter import Parameter

        x0, dlt = S.real("x0"), S.real("width")
        S.require(L.gt(dlt, 0), "width positive")
        kw = {}
        A = None
        if case.get("amplitude"):
            A = S.real("amp")
            kw["amplitude"] = Parameter(label="a", value=A)
        inp = {"x0": x0, "dlt": dlt, "A": A}
        if case["kind"] == "megacomplex":
            x1, d1 = S.real("x1"), S.real("w1")
            S.require(L.gt(d1, 0), "width positive")
            shapes = {
                "sA": SpectralShapeGaussian(label="shA", location=Parameter(label="l.a", value=x0), width=Parameter(label="w.a", value=dlt)),
                "sB": SpectralShapeGaussian(label="shB", location=Parameter(label="l.b", value=x1), width=Parameter(label="w.b", value=d1), amplitude=Parameter(label="a.b", value=S.real("ampB"))),
                "sOne": SpectralShapeOne(label="one"),
                "sZero": SpectralShapeZero(label="zero"),
            }
            keys = list(shapes)
            if case["order"] == (1, 0):
                keys = keys[::-1]
            mc = SpectralMegacomplex(label="sp", shape={k: shapes[k] for k in keys})
            axis = S.real_array("x", 2)
            for a in axis:
                S.require(L.not_(L.eq(a, 0.0)), "axis values non-zero")
            inp.update({"mc": mc, "axis": axis, "x1": x1, "d1": d1, "ampB": shapes["sB"].amplitude.value, "keys": keys})
            inp["dm"] = _DM(None, inverted=case["axis"] == "inverted", scale=1e7 if case["axis"] == "inverted" else (0.5 if case["axis"] == "scaled" else 1))
            return inp
        if case["points"] == "special":
            axis = [x0, x0 + dlt / 2, x0 - dlt / 2]
        else:
            axis = [S.real("xa"), S.real("xb")]
        inp["axis"] = axis
        if case["kind"] == "gaussian":
            inp["shape"] = SpectralShapeGaussian(label="g", location=Parameter(label="l", value=x0), width=Parameter(label="w", value=dlt), **kw)
        else:
            b = S.real("b")
            inp["b"] = b
            inp["shape"] = SpectralShapeSkewedGaussian(label="g", location=Parameter(label="l", value=x0), width=Parameter(label="w", value=dlt), skewness=Parameter(label="b", value=b), **kw)
        return inp

    def call(self, S, case, inp):
        shim.SYMBOLIC_LOG_CONSTANTS[0] = bool(S.symbolic)
        try:
            if case["kind"] == "megacomplex":
                ax = np.array(inp["axis"], dtype=object if S.symbolic else float)
                labels, M = inp["mc"].calculate_matrix(inp["dm"], np.array([0.0]), ax.view(SArr) if S.symbolic else ax)
                return {"labels": list(labels), "M": np.asarray(M, dtype=object if S.symbolic else float)}
            ax = np.array(inp["axis"], dtype=object if S.symbolic else float)
            return np.asarray(inp["shape"].calculate(ax.view(SArr) if S.symbolic else ax), dtype=object if S.symbolic else float)
        finally:
            shim.SYMBOLIC_LOG_CONSTANTS[0] = False

    def observe(self, out):
        return out if isinstance(out, Raised) else None

    def _ln2(self, S):
        return L.fn("log", 2.0) if not S.symbolic else L.fn("log", __import__("pyvc.sym", fromlist=["sym_const"]).sym_const(2))

    def ensures(self, S, case, inp, out):
        if isinstance(out, Raised):
            yield "no_exception", False
            return
        x0, dlt, A = inp["x0"], inp["dlt"], inp["A"]
        amp = A if A is not None else 1.0
        ln2 = self._ln2(S)

        def gauss(x, loc, w, a):
            return a * L.fn("exp", -ln2 * ((2 * (x - loc) / w) * (2 * (x - loc) / w)))

        if case["kind"] == "megacomplex":
            labels, M = out["labels"], out["M"]
            yield "one_column_per_compartment", sorted(labels) == sorted(inp["keys"]) and labels == inp["keys"]
            cells = []
            for xi, x in enumerate(inp["axis"]):
                xe = (1e7 / x) if case["axis"] == "inverted" else (x * 0.5 if case["axis"] == "scaled" else x)
                want = {"sA": gauss(xe, x0, dlt, 1.0), "sB": gauss(xe, inp["x1"], inp["d1"], inp["ampB"]), "sOne": 1.0, "sZero": 0.0}
                for lab in labels:
                    cells.append(L.eq(M[xi, labels.index(lab)], want[lab]))
            yield "column_of_a_compartment_is_its_shape_on_the_transformed_axis", L.and_(*cells)
            return
        axis = inp["axis"]
        if case["kind"] == "gaussian" or (case["kind"] == "skewed" and _decide(abs(inp["b"]) <= 1e-8, S) if case["kind"] == "skewed" else False):
            if case["points"] == "special":
                yield "amplitude_at_the_location", L.eq(out[0], amp)
                yield "half_maximum_at_plus_and_minus_half_fwhm", L.and_(L.eq(out[1] * 2, amp), L.eq(out[2] * 2, amp))
            else:
                yield "gaussian_formula", L.and_(*[L.eq(out[i], gauss(axis[i], x0, dlt, amp)) for i in range(len(axis))])
            return
        b = inp["b"]
        cells = []
        for i, x in enumerate(axis):
            theta = 1 + (2 * b * (x - x0) / dlt)
            if _decide(theta > 0, S):
                lt = L.fn("log", theta) / b
                cells.append(L.eq(out[i], amp * L.fn("exp", -ln2 * (lt * lt))))
            else:
                cells.append(L.eq(out[i], 0.0))
        yield "skewed_gaussian_formula_and_zero_where_log_argument_not_positive", L.and_(*cells)
        if case["points"] == "special":
            yield "amplitude_at_the_location", L.eq(out[0], amp)


class ArtifactDerivativeLemma(Contract):
    """`g_hasDerivAt`, `g'_hasDerivAt` (Lean 4 + Mathlib, re-checked by `lean` on every run): for w ≠ 0 the functions
    g(t)(c - t)/w² and g(t)((c - t)² - w²)/w⁴ discharged on the coherent-artifact kernels are the first and second time
    derivative of the IRF Gaussian g(t) = exp(-(t - c)²/(2w²))."""

    prop = "C07"
    name = "ArtifactDerivativeLemma"
    lemma_files = (__import__("pathlib").Path(__file__).resolve().parent.parent / "lemmas" / "GaussianDerivatives.lean",)
    target = None
    strength = "U"
    trusted = ("Lean 4.33 kernel and Mathlib (HasDerivAt, Real.exp); axioms propext, Classical.choice, Quot.sound",)

    def cases(self, tier):
        return iter(())

    def static_obligations(self, tier):
        from pyvc.lean import check_lemmas

        return check_lemmas(
            self.lemma_files[0],
            {
                "PyVC.g_hasDerivAt": "lemma_second_column_is_the_first_time_derivative_of_the_gaussian",
                "PyVC.g'_hasDerivAt": "lemma_third_column_is_the_second_time_derivative_of_the_gaussian",
            },
        )


class SpectralShapeLemmas(Contract):
    """`skewed_gaussian_limit` (Lean 4 + Mathlib, re-checked every run): for every A, x, x0, Δ the skewed-Gaussian formula
    A·exp(-log 2·(log(1 + 2b(x - x0)/Δ)/b)²) tends to the Gaussian A·exp(-log 2·(2(x - x0)/Δ)²) as b → 0, b ≠ 0 - the
    exact fall-back the code takes for |b| <= 1e-8 is the limit, i.e. the shape is "continuous as skewness tends to 0".
    `gaussian_half_maximum`: the value at x0 ± Δ/2 is A/2 (the z3 side assumes exp(-log 2) = 1/2 as a ground axiom)."""

    prop = "C07"
    name = "SpectralShapeLemmas"
    lemma_files = (__import__("pathlib").Path(__file__).resolve().parent.parent / "lemmas" / "SkewedGaussianLimit.lean",)
    target = None
    strength = "U"
    trusted = ("Lean 4.33 kernel and Mathlib (Real.log, Real.exp, derivative as limit of the slope); axioms propext, Classical.choice, Quot.sound",)

    def cases(self, tier):
        return iter(())

    def static_obligations(self, tier):
        from pyvc.lean import check_lemmas

        return check_lemmas(
            self.lemma_files[0],
            {
                "PyVC.skewed_gaussian_limit": "lemma_skewed_gaussian_tends_to_the_gaussian_as_skewness_tends_to_zero",
                "PyVC.gaussian_half_maximum": "lemma_half_maximum_at_plus_minus_half_fwhm",
            },
        )


from contracts.common import FunctionAxiomsBase  # noqa: E402


class FunctionAxioms(FunctionAxiomsBase):
    abstract = False
    prop = "C07"
