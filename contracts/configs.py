"""Configuration grid for the pipeline contracts (C02, C03, C09 tables, C10, C13, C14)."""
from __future__ import annotations

import itertools

from contracts.harness import DS, Cfg

INF = float("inf")
VP = "variable_projection"
NNLS = "non_negative_least_squares"

M1 = {"m1": (("s1", "s2"), False)}
M1D = {"m1": (("s1", "s2"), True)}
M2 = {"m1": (("s1", "s2"), False), "m2": (("s2", "s3"), False)}
M2D = {"m1": (("s1", "s2"), False), "m2": (("s3", "s2"), True)}
M3 = {"m1": (("s1", "s2"), False), "m2": (("s3",), False), "m3": (("s1", "s3"), True)}


def quick():
    c = []
    T2, T3 = (0.0, 1.0, 3.0), (0.0, 1.0, 2.5, 4.0)
    # single dataset
    c.append(Cfg("one_unlinked", (DS("ds1", T3, (0.0, 1.0)),), groups={"default": (False, VP)}))
    c.append(Cfg("one_auto_scale", (DS("ds1", T2, (0.0, 1.0, 2.0), scale=True),)))
    c.append(Cfg("one_dep_weight_gm", (DS("ds1", T2, (1.0, 2.0), weight=True, order="gm"),), megacomplexes=M1D, groups={"default": (False, VP)}))
    c.append(Cfg("one_linked_weight_scale", (DS("ds1", T2, (1.0, 2.0), weight=True, scale=True),), groups={"default": (True, VP)}))
    # two datasets
    for link in (True, False, None):
        c.append(Cfg(f"two_same_axes_link{link}", (DS("ds1", T2, (0.0, 1.0), scale=True), DS("ds2", T3, (0.0, 1.0))), groups={"default": (link, VP)}))
    c.append(Cfg("two_overlap_linked_scales", (DS("ds1", T2, (0.0, 1.0), scale=True), DS("ds2", T2, (1.0, 2.0), scale=True)), groups={"default": (True, VP)}))
    # global axes as they come: a descending (wavenumber) axis in a linked group - results go back under the dataset's own coordinates
    c.append(Cfg("two_linked_second_descending", (DS("ds1", T2, (0.0, 1.0, 2.0), scale=True), DS("ds2", T3, (2.0, 1.0, 0.0))), groups={"default": (True, VP)}))
    c.append(Cfg("two_linked_first_descending_dep", (DS("ds1", T2, (2.0, 1.0)), DS("ds2", T2, (1.0, 2.0, 3.0), weight=True)), megacomplexes=M1D, groups={"default": (True, VP)}))
    c.append(Cfg("two_disjoint_linked", (DS("a", T2, (0.0, 2.0)), DS("b", T2, (1.0, 3.0), scale=True)), groups={"default": (True, VP)}))
    c.append(Cfg("two_overlap_weights_one", (DS("ds1", T2, (0.0, 1.0), weight=True), DS("ds2", T3, (1.0, 2.0))), groups={"default": (True, VP)}))
    c.append(Cfg("two_labels_prefix", (DS("ds1", T2, (0.0, 1.0), scale=True), DS("ds10", T2, (1.0, 2.0), scale=True)), groups={"default": (True, VP)}))
    c.append(Cfg("two_labels_substr", (DS("ab", T2, (0.0, 1.0)), DS("a", T3, (1.0, 2.0), weight=True)), groups={"default": (True, VP)}))
    c.append(Cfg("labels_concatenations_coincide", (DS("ab", T2, (0.0,), scale=True), DS("c", T3, (0.0,)), DS("a", T3, (1.0,)), DS("bc", T2, (1.0,), scale=True)), groups={"default": (True, VP)}))
    # three datasets, partially overlapping, distinct scales (positions in the group differ per index)
    c.append(
        Cfg(
            "three_partial_scales",
            (DS("dsa", T2, (1.0, 2.0), scale=True), DS("dsb", T2, (2.0, 3.0), scale=True), DS("dsc", T2, (2.0, 3.0), scale=True)),
            groups={"default": (True, VP)},
        )
    )
    c.append(
        Cfg(
            "three_mixed_megacomplexes",
            (DS("d1", T2, (0.0, 1.0), megacomplexes=("m1",)), DS("d2", T2, (1.0, 2.0), megacomplexes=("m2",), weight=True), DS("d3", T3, (0.0, 2.0), megacomplexes=("m1", "m2"), mc_scales=True)),
            megacomplexes=M2,
            groups={"default": (True, VP)},
        )
    )
    # linked datasets listing the same megacomplexes in another order: same clp labels, other column order
    MO = {"ma": (("s1", "s2"), False), "mb": (("s3",), False)}
    c.append(
        Cfg(
            "linked_same_labels_other_order",
            (DS("ds1", T2, (0.0, 1.0), megacomplexes=("ma", "mb"), scale=True), DS("ds2", T3, (1.0, 2.0), megacomplexes=("mb", "ma"), mc_scales=True)),
            megacomplexes=MO,
            groups={"default": (True, VP)},
        )
    )
    # tolerance / methods
    c.append(Cfg("two_tol_nearest", (DS("ds1", T2, (0.0, 1.0, 2.0)), DS("ds2", T2, (0.25, 1.5, 2.1), scale=True)), groups={"default": (True, VP)}, tol=0.3))
    c.append(Cfg("two_tol_forward", (DS("ds1", T2, (0.0, 1.0, 2.0)), DS("ds2", T2, (-0.25, 0.75, 2.1))), groups={"default": (True, VP)}, tol=0.3, method="forward"))
    c.append(Cfg("two_tol_backward", (DS("ds1", T2, (0.0, 1.0, 2.0)), DS("ds2", T2, (0.25, 0.75, 2.1))), groups={"default": (True, VP)}, tol=0.3, method="backward"))
    # index-dependent matrices in a linked group whose second dataset is linked forward / within a tolerance larger than half its
    # own spacing: the slice of the 3-d matrix and the reported coordinate are those of the dataset's *own* index, not of the
    # own point nearest to the aligned value
    c.append(Cfg("two_tol_forward_dep", (DS("ds1", T2, (0.0, 1.0, 2.0)), DS("ds2", T3, (-0.8, 0.3, 1.4, 2.6), scale=True)), megacomplexes=M1D, groups={"default": (True, VP)}, tol=0.9, method="forward"))
    c.append(Cfg("two_tol_dense_second", (DS("ds1", T2, (1.0, 2.0, 3.0)), DS("ds2", T2, (1.4, 1.5, 3.0), weight=True)), megacomplexes=M1D, groups={"default": (True, VP)}, tol=0.45))
    # linked within a tolerance: interval items are evaluated at the *aligned* value (1.0), not at the raw value of a member (1.04)
    c.append(Cfg("linked_tol_interval_at_aligned_value", (DS("ds1", T2, (0.0, 1.0, 2.0)), DS("ds2", T3, (0.04, 1.04, 2.04), scale=True)), megacomplexes={"m1": (("s1", "s2", "s3"), False)}, constraints=(("zero", "s2", (0.9, 1.02)),), relations=(("s1", "s3", (1.9, 2.02)),), groups={"default": (True, VP)}, tol=0.1))
    # a square dataset stored as (global, model) in a linked group, weighted
    c.append(Cfg("two_linked_gm_square", (DS("ds1", T3, (0.0, 1.0, 2.0)), DS("ds2", T2, (1.0, 2.0, 3.0), order="gm", weight=True)), groups={"default": (True, VP)}))
    # dataset groups declared interleaved: d1 -> default, d2 -> g2, d3 -> default
    c.append(Cfg("groups_interleaved", (DS("ds1", T2, (0.0, 1.0), scale=True), DS("ds2", T2, (0.0, 1.0), group="g2"), DS("ds3", T3, (1.0, 2.0))), groups={"default": (False, VP), "g2": (False, VP)}))
    c.append(Cfg("groups_interleaved_linked", (DS("ds1", T2, (0.0, 1.0)), DS("ds2", T2, (0.0, 1.0), group="g2", weight=True), DS("ds3", T3, (1.0, 2.0), scale=True)), groups={"default": (True, VP), "g2": (None, NNLS)}))
    # unlinked, index dependent: a relation removes its target at the first global index only, a zero constraint on the same target
    # acts elsewhere on the axis (the labels at the first index are not the labels at every index)
    c.append(Cfg("relation_first_index_zero_later_dep", (DS("ds1", T3, (1.0, 2.0, 3.0, 4.0)),), megacomplexes={"m1": (("s1", "s2", "s3"), True)}, relations=(("s1", "s2", (1.0, 1.0)),), constraints=(("zero", "s2", (3.0, 4.0)),), groups={"default": (False, VP)}))
    # several megacomplexes
    c.append(Cfg("mc_shared_labels_scales", (DS("ds1", T3, (0.0, 1.0), megacomplexes=("m1", "m2"), mc_scales=True, scale=True),), megacomplexes=M2, groups={"default": (False, VP)}))
    # a linked group whose first dataset has an index-dependent matrix and whose second has not, sharing several aligned indices
    c.append(Cfg("linked_dep_before_indep", (DS("ds1", T2, (0.0, 1.0, 2.0), megacomplexes=("m2",)), DS("ds2", T3, (1.0, 2.0, 3.0), megacomplexes=("m1",))), megacomplexes=M2D, groups={"default": (True, VP)}))
    c.append(Cfg("mc_mixed_dep", (DS("ds1", T2, (0.0, 1.0), megacomplexes=("m1", "m2"), mc_scales=True),), megacomplexes=M2D, groups={"default": (False, VP)}))
    c.append(Cfg("mc_three", (DS("ds1", T2, (0.0, 1.0), megacomplexes=("m1", "m2", "m3"), mc_scales=True),), megacomplexes=M3, groups={"default": (True, VP)}))
    # constraints / relations
    c.append(Cfg("zero_interval", (DS("ds1", T2, (0.0, 1.0, 2.0), scale=True),), megacomplexes=M1D, constraints=(("zero", "s1", (0.5, 1.5)),), groups={"default": (False, VP)}))
    c.append(Cfg("only_interval_linked", (DS("ds1", T2, (0.0, 1.0, 2.0)), DS("ds2", T2, (1.0, 2.0, 3.0))), megacomplexes=M1D, constraints=(("only", "s2", (1.0, 2.0)),), groups={"default": (True, VP)}))
    c.append(Cfg("relation", (DS("ds1", T3, (0.0, 1.0, 2.0), weight=True),), megacomplexes=M1D, relations=(("s1", "s2", (1.0, INF)),), groups={"default": (False, VP)}))
    c.append(Cfg("relation_zero_linked", (DS("ds1", T2, (0.0, 1.0)), DS("ds2", T2, (1.0, 2.0), scale=True)), megacomplexes={"m1": (("s1", "s2", "s3"), True)}, relations=(("s1", "s2", None),), constraints=(("zero", "s3", [(-1.0, 0.5), (1.5, 5.0)]),), groups={"default": (True, VP)}))
    c.append(Cfg("relation_source_zero", (DS("ds1", T2, (0.0, 1.0, 2.0)),), megacomplexes={"m1": (("s1", "s2", "s3"), False)}, relations=(("s1", "s2", (0.5, 5.0)),), constraints=(("zero", "s1", (1.5, 2.5)),), groups={"default": (False, VP)}))
    c.append(Cfg("relation_source_zero_linked", (DS("ds1", T2, (0.0, 1.0, 2.0)), DS("ds2", T2, (2.0, 3.0))), megacomplexes={"m1": (("s1", "s2", "s3"), True)}, relations=(("s1", "s2", None),), constraints=(("only", "s1", (0.0, 1.0)),), groups={"default": (True, VP)}))
    c.append(Cfg("two_relations_same_target", (DS("ds1", T3, (0.0, 1.0, 2.0, 3.0)),), megacomplexes=M1D, relations=(("s1", "s2", (-1.0, 0.5)), ("s1", "s2", (2.5, 5.0))), groups={"default": (False, VP)}))
    c.append(Cfg("two_relations_same_target_linked", (DS("ds1", T3, (0.0, 1.0, 2.0)), DS("ds2", T2, (2.0, 3.0), scale=True)), megacomplexes=M1, relations=(("s1", "s2", (-1.0, 0.5)), ("s1", "s2", (2.5, 5.0))), groups={"default": (True, VP)}))
    c.append(Cfg("zero_symbolic_interval", (DS("ds1", T3, (0.0, 1.0)),), megacomplexes=M1D, constraints=(("zero", "s1", "sym"),), groups={"default": (False, VP)}))
    c.append(Cfg("relation_symbolic_interval_linked", (DS("ds1", T3, (0.0, 1.0)),), megacomplexes=M1D, relations=(("s1", "s2", "sym"),), groups={"default": (True, VP)}))
    # penalties
    c.append(Cfg("penalty_unlinked", (DS("ds1", T3, (0.0, 1.0, 2.0)),), megacomplexes=M1D, penalties=(("s1", [(0.0, 1.0)], "s2", [(1.0, INF)]),), groups={"default": (False, VP)}))
    c.append(Cfg("penalty_linked_two", (DS("ds1", T2, (0.0, 1.0)), DS("ds2", T2, (1.0, 2.0), scale=True)), penalties=(("s1", [(-INF, INF)], "s2", [(2.0, 0.0)]),), groups={"default": (True, VP)}))
    c.append(Cfg("penalty_unlinked_two_datasets", (DS("ds1", T2, (0.0, 1.0)), DS("ds2", T2, (1.0, 2.0))), penalties=(("s1", [(0.0, 2.0)], "s2", [(0.0, 2.0)]),), groups={"default": (False, VP)}))
    # penalties together with constraints / relations that remove a clp label at some indices (reduced versus full labels)
    M13 = {"m1": (("s1", "s2", "s3"), False)}
    c.append(Cfg("penalty_unlinked_zero_constraint", (DS("ds1", T3, (0.0, 1.0, 2.0)),), megacomplexes=M13, constraints=(("zero", "s1", (0.5, 1.5)),), penalties=(("s2", [(0.0, 2.0)], "s3", [(0.0, 2.0)]),), groups={"default": (False, VP)}))
    c.append(Cfg("penalty_unlinked_relation_target", (DS("ds1", T3, (0.0, 1.0, 2.0)),), megacomplexes=M13, relations=(("s1", "s2", (0.5, 5.0)),), penalties=(("s2", [(0.0, 2.0)], "s3", [(0.0, 2.0)]),), groups={"default": (False, VP)}))
    c.append(Cfg("penalty_linked_zero_constraint", (DS("ds1", T3, (0.0, 1.0)), DS("ds2", T2, (1.0, 2.0), scale=True)), megacomplexes=M13, constraints=(("zero", "s1", (0.5, 1.5)),), penalties=(("s2", [(0.0, 2.0)], "s3", [(0.0, 2.0)]),), groups={"default": (True, VP)}))
    # a relation and a constraint on the same target at overlapping indices; a relation whose source no dataset has
    c.append(Cfg("relation_and_zero_same_target_linked", (DS("ds1", T3, (0.0, 1.0)), DS("ds2", T2, (1.0, 2.0), scale=True)), megacomplexes=M13, relations=(("s1", "s2", None),), constraints=(("zero", "s2", (0.5, 1.5)),), groups={"default": (True, VP)}))
    c.append(Cfg("relation_and_zero_same_target", (DS("ds1", T3, (0.0, 1.0, 2.0)),), megacomplexes=M13, relations=(("s1", "s2", None),), constraints=(("zero", "s2", (0.5, 1.5)),), groups={"default": (False, VP)}))
    # linked datasets with *different* label sets and partly overlapping axes; a zero constraint / a relation without interval
    # on a clp that exists at some aligned indices only (what is removed at one index is not what is removed at another)
    c.append(Cfg("linked_label_sets_differ_zero_everywhere", (DS("ds1", T3, (0.0, 1.0, 2.0), megacomplexes=("ma",)), DS("ds2", T2, (2.0, 3.0, 4.0), megacomplexes=("mb",), scale=True)), megacomplexes={"ma": (("s1",), False), "mb": (("s1", "s2"), False)}, constraints=(("zero", "s2", None),), groups={"default": (True, VP)}))
    c.append(Cfg("linked_label_sets_differ_relation_everywhere", (DS("ds1", T3, (0.0, 1.0, 2.0), megacomplexes=("ma",)), DS("ds2", T2, (2.0, 3.0, 4.0), megacomplexes=("mb",))), megacomplexes={"ma": (("s1",), False), "mb": (("s1", "s2", "s3"), False)}, relations=(("s3", "s2", None),), groups={"default": (True, VP)}))
    # three linked datasets with pairwise different label sets; one aligned index is shared by the second and third only, whose
    # labels come in another order than over the whole group (first seen: s1 s2 s3; there: s2 s3 s1)
    c.append(Cfg("three_linked_label_orders", (DS("d1", T2, (0.0, 1.0), megacomplexes=("ma",)), DS("d2", T3, (1.0, 2.0), megacomplexes=("mb",), scale=True), DS("d3", T2, (2.0, 3.0), megacomplexes=("mc",))), megacomplexes={"ma": (("s1", "s2"), False), "mb": (("s2", "s3"), False), "mc": (("s1", "s3"), False)}, groups={"default": (True, VP)}))
    c.append(Cfg("relation_source_absent_linked", (DS("ds1", T3, (0.0, 1.0)), DS("ds2", T2, (1.0, 2.0))), megacomplexes=M13, relations=(("sx", "s2", None),), groups={"default": (True, VP)}))
    # model weights
    # model weights on datasets stored as (global, model), one of them square (as many global as model points)
    c.append(Cfg("model_weight_gm_square", (DS("ds1", T3, (0.0, 1.0, 2.0), order="gm"), DS("ds2", T2, (0.0, 1.0, 2.0), order="gm")), model_weights=((("ds1",), (1.0, 2.0), (0.0, 1.0)), (("ds1", "ds2"), None, (1.0, INF))), groups={"default": (False, VP)}))
    c.append(Cfg("model_weight", (DS("ds1", T3, (0.0, 1.0, 2.0)), DS("ds2", T2, (0.0, 1.0))), model_weights=((("ds1",), (1.0, 2.0), (0.0, 1.0)), (("ds1", "ds2"), None, (1.0, INF))), groups={"default": (False, VP)}))
    c.append(Cfg("model_weight_and_dataset_weight", (DS("ds1", T2, (0.0, 1.0), weight=True),), model_weights=((("ds1",), None, None),), groups={"default": (True, VP)}))
    c.append(Cfg("model_weight_linked", (DS("ds1", T3, (0.0, 1.0)), DS("ds2", T2, (1.0, 2.0), scale=True)), model_weights=((("ds1",), None, (1.0, 2.5)), (("ds1", "ds2"), (1.0, 2.0), None)), groups={"default": (True, VP)}))  # bounds on axis points: the reference applies a weight exactly on the closed interval (nearest-point slack is C08's ModelWeight)
    c.append(Cfg("linked_one_stored_global_by_model", (DS("ds1", T2, (0.0, 1.0), weight=True, order="gm"), DS("ds2", T3, (1.0, 2.0), scale=True)), megacomplexes=M1D, groups={"default": (True, VP)}))
    # NNLS, several groups
    c.append(Cfg("nnls", (DS("ds1", T3, (0.0, 1.0), scale=True),), groups={"default": (False, NNLS)}))
    c.append(
        Cfg(
            "two_groups",
            (DS("ds1", T2, (0.0, 1.0), scale=True), DS("ds2", T2, (0.0, 1.0), group="g2", weight=True), DS("ds3", T2, (1.0, 2.0), group="g2")),
            groups={"default": (None, VP), "g2": (True, NNLS)},
        )
    )
    # full models
    c.append(Cfg("full_model", (DS("ds1", T2, (0.0, 1.0, 2.0), global_megacomplexes=("gm1",)),), global_megacomplexes={"gm1": ("g1", "g2")}))
    c.append(Cfg("full_model_dep_weight", (DS("ds1", T3, (0.0, 1.0, 2.0, 3.0), global_megacomplexes=("gm1",), weight=True, mc_scales=True, order="gm"),), megacomplexes=M1D, global_megacomplexes={"gm1": ("g1",)}))
    c.append(Cfg("full_model_and_plain", (DS("ds1", T2, (0.0, 1.0), global_megacomplexes=("gm1", "gm2")), DS("ds2", T3, (0.0, 1.0), scale=True)), global_megacomplexes={"gm1": ("g1",), "gm2": ("g1", "g2")}))
    c.append(Cfg("full_model_same_labels", (DS("ds1", T2, (0.0, 1.0, 2.0), global_megacomplexes=("gm1",), mc_scales=True),), global_megacomplexes={"gm1": ("s2", "s1")}))
    c.append(Cfg("full_model_same_labels_dep", (DS("ds1", T3, (0.0, 1.0), global_megacomplexes=("gm1", "gm2"), weight=True),), megacomplexes=M1D, global_megacomplexes={"gm1": ("s1",), "gm2": ("s2", "s1")}))
    return c


def thorough():
    c = quick()
    T2, T3 = (0.0, 1.0, 3.0), (0.0, 0.5, 2.0, 4.0)
    axes = [(0.0, 1.0), (1.0, 2.0), (0.0, 2.0), (0.0, 1.0, 2.0), (2.0,), (1.0, 3.0)]
    k = 0
    for a1, a2 in itertools.product(axes, repeat=2):
        for link, (w1, w2), (s1, s2), mcs in itertools.product((True, False), ((False, False), (True, False), (False, True)), ((False, True), (True, True)), (M1, M1D)):
            k += 1
            c.append(Cfg(f"g2_{k}", (DS("ds1", T2, a1, weight=w1, scale=s1), DS("ds2", T3, a2, weight=w2, scale=s2, order="gm")), megacomplexes=mcs, groups={"default": (link, VP)}))
    k = 0
    for a1, a2, a3 in itertools.product(axes[:4], repeat=3):
        for order in itertools.permutations(range(3)):
            if order not in ((0, 1, 2), (2, 0, 1)):
                continue
            k += 1
            dss = [DS("x", T2, a1, scale=True), DS("xy", T2, a2, scale=True, weight=True), DS("y", T3, a3, scale=True, megacomplexes=("m1", "m2"), mc_scales=True)]
            dss = tuple(dss[i] for i in order)
            c.append(Cfg(f"g3_{k}", dss, megacomplexes=M2D, groups={"default": (True, VP)}, constraints=(("zero", "s3", (0.5, 1.5)),), relations=(("s1", "s2", (1.0, INF)),)))
    # four datasets, two groups
    c.append(
        Cfg(
            "four_two_groups",
            (DS("a", T2, (0.0, 1.0), scale=True), DS("b", T2, (1.0, 2.0), scale=True), DS("c", T2, (0.0, 2.0), group="g2", scale=True), DS("d", T3, (2.0, 3.0), group="g2", weight=True)),
            groups={"default": (True, VP), "g2": (True, VP)},
            penalties=(("s1", [(0.0, 3.0)], "s2", [(0.0, 3.0)]),),
        )
    )
    return c


def dof_lower_bound(cfg):
    """data points - free parameters - (upper bound of) clps: configurations with dof <= 0 are outside the
    precondition of C03/C13 (reduced chi-square divides by the degrees of freedom)."""
    n_data = sum(len(ds.model_axis) * len(ds.global_axis) for ds in cfg.datasets)
    n_free = sum(int(ds.scale) + (len(ds.megacomplexes) + len(ds.global_megacomplexes)) * int(ds.mc_scales) for ds in cfg.datasets) + len(cfg.relations) + len(cfg.penalties)
    n_clps = 0
    for ds in cfg.datasets:
        labels = {l for m in ds.megacomplexes for l in cfg.megacomplexes[m][0]}
        if ds.global_megacomplexes:
            glabels = {l for m in ds.global_megacomplexes for l in cfg.global_megacomplexes[m]}
            n_clps += len(labels) * len(glabels)
        else:
            n_clps += len(labels) * len(ds.global_axis)
    return n_data - max(n_free, 1) - n_clps


def configs(tier):
    out = quick() if tier == "quick" else thorough()
    # the generated grid is filtered by the (conservative) bound; hand-written configurations are kept and the
    # contracts check the exact precondition (pipeline.dof_precondition_violated)
    return [c for c in out if not c.name.startswith(("g2_", "g3_")) or dof_lower_bound(c) >= 1]
