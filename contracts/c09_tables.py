"""C09 - the alignment tables of DataProviderLinked on enumerated concrete axes with symbolic data.

The xarray based align_data / align_dataset_indices / align_groups / align_weights run for real; the
coordinates are concrete (pandas hashes them) and enumerated from a small grid with offsets, the data
and weight values are symbolic.  The reference alignment is harness.ref_align (property statement).
"""
from __future__ import annotations

import itertools

import numpy as np

from contracts import harness
from contracts.harness import DS, Cfg
from contracts.pipeline import PIPE_MODS, flat
from pyvc.contract import Contract, L, Raised
from pyvc.sym import SymReal

VP = "variable_projection"


def _axis_sets():
    grid = (0.0, 1.0, 2.0, 3.0)
    out = []
    for k in (1, 2, 3):
        out += list(itertools.combinations(grid, k))
    return out


def _configs(tier):
    sets = _axis_sets()
    cfgs = []
    n = 0
    step = 23 if tier == "quick" else 3
    for a1, a2 in itertools.product(sets, repeat=2):
        for off in (0.0, 0.25, 0.5):
            for tol, method in itertools.product((0.0, 0.3, 0.5, 1.0), ("nearest", "backward", "forward")):
                n += 1
                if n % step:
                    continue
                b2 = tuple(x + off for x in a2)
                cfgs.append(("2ds", (a1, b2), tol, method, (False, n % 2 == 0)))
    # three datasets, every order of a fixed triple family
    triples = [((1.0, 2.0, 3.0), (1.4, 2.4, 3.4), (1.3, 2.8, 4.0)), ((0.0, 1.0), (1.0, 2.0), (0.5, 2.5)), ((0.0, 2.0), (0.25, 1.0), (0.0, 1.0, 2.0))]
    for tr in triples:
        for order in itertools.permutations(range(3)):
            for tol, method in itertools.product((0.0, 0.3, 0.5), ("nearest", "backward", "forward")):
                n += 1
                if tier == "quick" and n % 3:
                    continue
                cfgs.append(("3ds", tuple(tr[i] for i in order), tol, method, (True, False, True)))
    return cfgs


class LinkedTables(Contract):
    prop = "C09"
    name = "LinkedTables"
    target = "glotaran.optimization.data_provider:DataProviderLinked.__init__"
    functions = (
        "glotaran.optimization.data_provider:DataProviderLinked.create_aligned_global_axes",
        "glotaran.optimization.data_provider:DataProviderLinked.align_data",
        "glotaran.optimization.data_provider:DataProviderLinked.align_dataset_indices",
        "glotaran.optimization.data_provider:DataProviderLinked.align_groups",
        "glotaran.optimization.data_provider:DataProviderLinked.align_weights",
        "glotaran.optimization.data_provider:DataProviderLinked.align_index",
    )
    modules = PIPE_MODS
    trusted = ("xarray outer join / concat / dropna executed for real on concrete coordinates (enumerated), values symbolic",)
    strength = "S"
    agreement_runs = 0

    def cases(self, tier):
        for i, (kind, axes, tol, method, weights) in enumerate(_configs(tier)):
            yield {"kind": kind, "axes": axes, "tol": tol, "method": method, "weights": weights}

    def _cfg(self, case):
        labels = ["da", "db", "dc"]
        dss = tuple(DS(labels[i], (0.0, 1.0), tuple(ax), weight=bool(case["weights"][i])) for i, ax in enumerate(case["axes"]))
        return Cfg("tables", dss, groups={"default": (True, VP)}, tol=case["tol"], method=case["method"])

    def build(self, S, case):
        return harness.build(S, self._cfg(case))

    def call(self, S, case, b):
        from glotaran.optimization.data_provider import AlignDatasetError, DataProviderLinked

        harness.CURRENT["S"] = b.S
        group = next(iter(b.model.get_dataset_groups().values()))
        group.set_parameters(b.parameters)
        try:
            dp = DataProviderLinked(b.scheme, group)
        except AlignDatasetError as e:
            return {"error": e}
        n = len(dp.aligned_global_axis)
        return {
            "error": None,
            "axis": [float(x) for x in dp.aligned_global_axis],
            "data": [flat(dp.get_aligned_data(i)) for i in range(n)],
            "indices": [[int(x) for x in dp.get_aligned_dataset_indices(i)] for i in range(n)],
            "group_labels": [str(dp.get_aligned_group_label(i)) for i in range(n)],
            "defs": {str(k): list(v) for k, v in dp.group_definitions.items()},
            "weights": [None if dp.get_aligned_weight(i) is None else flat(dp.get_aligned_weight(i)) for i in range(n)],
        }

    def observe(self, out):
        return out if isinstance(out, Raised) else None

    def ensures(self, S, case, b, out):
        if isinstance(out, Raised):
            yield "no_exception", False
            return
        cfg = b.cfg
        try:
            acc, images = harness.ref_align(cfg, list(cfg.datasets))
            ref_error = None
        except ValueError as e:
            ref_error = str(e)
        if ref_error and "tie" in ref_error:
            yield "tie_configuration_not_judged", True
            return
        if ref_error:
            yield "ambiguous_alignment_is_refused_with_AlignDatasetError", out["error"] is not None
            return
        yield "unambiguous_alignment_is_accepted", out["error"] is None
        if out["error"] is not None:
            return
        yield "aligned_axis_strictly_increasing_and_equal_to_the_images", out["axis"] == acc
        if out["axis"] != acc:
            return
        ref = harness.Ref(b)
        for i, a in enumerate(acc):
            members = [(ds, images[ds.label].index(a)) for ds in cfg.datasets if a in images[ds.label]]
            labels = [ds.label for ds, _ in members]
            yield f"datasets_sharing_the_aligned_point[{a}]", out["defs"].get(out["group_labels"][i]) == labels
            yield f"own_index_of_each_member[{a}]", out["indices"][i] == [g for _, g in members]
            want_data, want_w = [], []
            anyw = any(b.weight[ds.label] is not None for ds, _ in members)
            for ds, g in members:
                W = b.weight[ds.label]
                for m in range(len(ds.model_axis)):
                    w = W[m, g] if W is not None else 1.0
                    want_data.append(b.data[ds.label][m, g] * w)
                    want_w.append(w)
            yield f"stacked_data_columns[{a}]", len(out["data"][i]) == len(want_data) and L.and_(*[L.eq(x, y) for x, y in zip(out["data"][i], want_data)])
            if anyw:
                yield f"weights_padded_with_ones[{a}]", out["weights"][i] is not None and len(out["weights"][i]) == len(want_w) and L.and_(*[L.eq(x, y) for x, y in zip(out["weights"][i], want_w)])
            else:
                yield f"no_weight_without_weighted_member[{a}]", out["weights"][i] is None
        # every data column enters exactly once
        total = sum(len(d) for d in out["data"])
        yield "every_data_column_enters_exactly_once", total == sum(len(ds.model_axis) * len(ds.global_axis) for ds in cfg.datasets)


# ----------------------------------------------------------------------------- linked results under their labels and coordinates
from contracts.c03_results import ResultData as _ResultData  # noqa: E402


class LinkedResultsByLabel(_ResultData):
    """Points of different datasets share clps iff they are assigned to the same aligned point, and every column is reported
    back under its original coordinate *and label*: the clps a linked dataset reports under a label are the coefficients of
    the column of that label in the stacked problem of its aligned index (the order of the merged label list is the order
    of the stacked columns).  Harness and reference of C03 `ResultData`, restricted to the linked configurations."""

    prop = "C09"
    name = "LinkedResultsByLabel"

    def cases(self, tier):
        for case in super().cases(tier):
            cfg = case["_cfg"]
            if cfg.name != "labels_concatenations_coincide" and any(link for link, _ in cfg.groups.values()) and len(cfg.datasets) > 1:
                yield case

    def bounded_checks(self, tier, seed):
        return []
