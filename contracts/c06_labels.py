"""C06 - labelled outputs follow their labels: declaration order and composition."""
from __future__ import annotations

import itertools

import numpy as np

from contracts import harness
from contracts.c07_basis import _DM, _irf, _params
from contracts.harness import DS, Cfg
from pyvc.contract import Contract, L, Raised
from pyvc.sym import SArr

MP = "glotaran.optimization.matrix_provider"
MODS = (
    MP,
    "glotaran.builtin.megacomplexes.damped_oscillation.damped_oscillation_megacomplex",
    "glotaran.builtin.megacomplexes.pfid.pfid_megacomplex",
    "glotaran.builtin.megacomplexes.spectral.shape",
    "glotaran.builtin.megacomplexes.spectral.spectral_megacomplex",
    "glotaran.builtin.megacomplexes.baseline.baseline_megacomplex",
    "glotaran.builtin.megacomplexes.clp_guide.clp_guide_megacomplex",
    "glotaran.builtin.megacomplexes.coherent_artifact.coherent_artifact_megacomplex",
    "glotaran.builtin.megacomplexes.decay.irf",
    "glotaran.builtin.megacomplexes.decay.util",
    "glotaran.parameter.parameter",
    "glotaran.model.dataset_model",
    "glotaran.model.item",
)


class CombineMatrices(Contract):
    prop = "C06"
    name = "CombineMatrices"
    target = f"{MP}:MatrixProvider.combine_megacomplex_matrices"
    modules = MODS
    strength = "S"
    agreement_runs = 2

    def cases(self, tier):
        pools = [("a",), ("a", "b"), ("b", "a"), ("c", "a"), ("a", "b", "c"), ("c", "b", "a"), ("d", "a", "c")]
        if tier == "thorough":
            pools += [p for p in itertools.permutations(("a", "b", "c", "d"), 3)]
        for left in pools:
            for right in pools:
                for dl, dr in itertools.product((2, 3), repeat=2):
                    if tier == "quick" and (len(left) + len(right) > 5):
                        continue
                    yield {"left": left, "right": right, "dim_left": dl, "dim_right": dr}

    def build(self, S, case):
        ng, nm = 2, 2

        def mk(name, labels, dim):
            shape = (ng, nm, len(labels)) if dim == 3 else (nm, len(labels))
            return S.real_array(name, *shape)

        return {"L": mk("l", case["left"], case["dim_left"]), "R": mk("r", case["right"], case["dim_right"]), "ng": ng, "nm": nm}

    def call(self, S, case, inp):
        from glotaran.optimization.matrix_provider import MatrixProvider

        L0, R0 = np.array(inp["L"], dtype=object, copy=True), np.array(inp["R"], dtype=object, copy=True)
        labels, M = MatrixProvider.combine_megacomplex_matrices(inp["L"], inp["R"], list(case["left"]), list(case["right"]))
        return {"labels": list(labels), "M": np.asarray(M, dtype=object if S.symbolic else float), "L0": L0, "R0": R0}

    def observe(self, out):
        return out if isinstance(out, Raised) else (out["labels"], out["M"])

    def ensures(self, S, case, inp, out):
        if isinstance(out, Raised):
            yield "no_exception", False
            return
        left, right = list(case["left"]), list(case["right"])
        labels, M = out["labels"], out["M"]
        union = list(dict.fromkeys(left + right))
        yield "labels_are_the_union_without_duplicates", sorted(labels) == sorted(union) and len(set(labels)) == len(labels)
        dep = case["dim_left"] == 3 or case["dim_right"] == 3
        ng, nm = inp["ng"], inp["nm"]
        yield "shape_is_index_dependent_iff_one_operand_is", tuple(M.shape) == ((ng, nm, len(union)) if dep else (nm, len(union)))
        if sorted(labels) != sorted(union) or tuple(M.shape) != ((ng, nm, len(union)) if dep else (nm, len(union))):
            return

        def col(A, labs, dim, lab, g, m):
            if lab not in labs:
                return 0.0
            j = labs.index(lab)
            return A[g, m, j] if dim == 3 else A[m, j]

        cells = []
        for lab in union:
            j = labels.index(lab)
            for g in range(ng if dep else 1):
                for m in range(nm):
                    want = col(out["L0"], left, case["dim_left"], lab, g, m) + col(out["R0"], right, case["dim_right"], lab, g, m)
                    got = M[g, m, j] if dep else M[m, j]
                    cells.append(L.eq(got, want))
        yield "column_of_a_label_is_the_sum_of_the_contributions_carrying_that_label", L.and_(*cells)
        yield "operands_unchanged", L.and_(*[L.eq(a, b) for a, b in zip(np.asarray(inp["L"], dtype=object).reshape(-1), out["L0"].reshape(-1))], *[L.eq(a, b) for a, b in zip(np.asarray(inp["R"], dtype=object).reshape(-1), out["R0"].reshape(-1))])


def _combine_sweep(self, tier, seed):
    from contracts.common import native_sweep

    pool = ("a", "b", "c", "d", "e", "f", "g", "h")
    cases = []
    for left, right in ((pool[:6], pool[2:8]), (pool[3:8] + pool[:1], pool[:7]), (pool, tuple(reversed(pool))), (pool[:5], pool[5:])):
        for dl, dr in ((2, 2), (3, 2), (2, 3), (3, 3)):
            cases.append({"left": tuple(left), "right": tuple(right), "dim_left": dl, "dim_right": dr})
    return native_sweep(self, cases, tries=2, seed=seed)


CombineMatrices.bounded_checks = _combine_sweep


class DatasetMatrixPermutation(Contract):
    """calculate_dataset_matrix: permuting the declaration order of megacomplexes and of their labels
    permutes the labelled columns accordingly (abstract megacomplexes, scales attached to megacomplexes)."""

    prop = "C06"
    name = "DatasetMatrixPermutation"
    target = f"{MP}:MatrixProvider.calculate_dataset_matrix"
    functions = (f"{MP}:MatrixProvider.combine_megacomplex_matrices", "glotaran.model.dataset_model:iterate_dataset_model_megacomplexes")
    modules = MODS
    trusted = ("Megacomplex.calculate_matrix interface: abstract megacomplex (labels + arbitrary reals)",)
    strength = "S"
    agreement_runs = 0

    BASE = {"m1": (("s1", "s2"), False), "m2": (("s2", "s3"), True), "m3": (("s4", "s1", "s3"), False)}

    def cases(self, tier):
        perms = list(itertools.permutations(("m1", "m2", "m3")))
        for k, order in enumerate(perms):
            for flip in ((False, False, False), (True, False, True), (False, True, True)):
                yield {"order": order, "flip": flip}
        for order in itertools.permutations(("m1", "m2")):
            yield {"order": order, "flip": (True, True, False)}

    def build(self, S, case):
        mcs = {}
        for i, (lab, (labels, dep)) in enumerate(self.BASE.items()):
            mcs[lab] = (tuple(reversed(labels)) if case["flip"][i] else labels, dep)
        cfg = Cfg("perm", (DS("ds1", (0.0, 1.0), (0.0, 1.0), megacomplexes=tuple(case["order"]), mc_scales=True),), megacomplexes=mcs)
        b = harness.build(S, cfg)
        # scale parameters follow their megacomplex (position k of the scale list belongs to megacomplex k)
        return b

    def call(self, S, case, b):
        from glotaran.model.item import fill_item
        from glotaran.optimization.matrix_provider import MatrixProvider

        harness.CURRENT["S"] = b.S
        ds = b.cfg.datasets[0]
        dm = fill_item(b.model.dataset["ds1"], b.model, b.parameters)
        mc = MatrixProvider.calculate_dataset_matrix(dm, np.asarray(ds.global_axis), np.asarray(ds.model_axis))
        return {"labels": list(mc.clp_labels), "M": np.asarray(mc.matrix, dtype=object if S.symbolic else float)}

    def observe(self, out):
        return out if isinstance(out, Raised) else None

    def ensures(self, S, case, b, out):
        if isinstance(out, Raised):
            yield "no_exception", False
            return
        harness.CURRENT["S"] = b.S
        ds = b.cfg.datasets[0]
        labels, M = out["labels"], out["M"]
        want_labels = sorted({l for m in case["order"] for l in self.BASE[m][0]})
        yield "labels_are_the_union", sorted(labels) == want_labels and len(set(labels)) == len(labels)
        if sorted(labels) != want_labels:
            return
        dep = any(self.BASE[m][1] for m in case["order"])
        yield "index_dependent_iff_a_contribution_is", (M.ndim == 3) == dep
        cells = []
        for lab in labels:
            j = labels.index(lab)
            for g in range(len(ds.global_axis) if dep else 1):
                for m in range(len(ds.model_axis)):
                    want = 0
                    for k, mc in enumerate(case["order"]):
                        mlabels, mdep = self.BASE[mc]
                        if lab in mlabels:
                            want = want + b.S.named(harness.entry_name(mc, "ds1", g if mdep else None, m, lab)) * b.mc_scale["ds1"][k]
                    got = M[g, m, j] if dep else M[m, j]
                    cells.append(L.eq(got, want))
        yield "column_of_a_label_is_the_scaled_sum_over_the_megacomplexes_declaring_it_whatever_the_order", L.and_(*cells)


class BuiltinPermutation(Contract):
    """Builtin megacomplexes: permuting the declaration of oscillations / shapes permutes the labelled
    columns accordingly (two executions of the real code compared by label)."""

    prop = "C06"
    name = "BuiltinPermutation"
    target = "glotaran.builtin.megacomplexes.damped_oscillation.damped_oscillation_megacomplex:DampedOscillationMegacomplex.calculate_matrix"
    functions = (
        "glotaran.builtin.megacomplexes.pfid.pfid_megacomplex:PFIDMegacomplex.calculate_matrix",
        "glotaran.builtin.megacomplexes.spectral.spectral_megacomplex:SpectralMegacomplex.calculate_matrix",
        "glotaran.builtin.megacomplexes.baseline.baseline_megacomplex:BaselineMegacomplex.calculate_matrix",
        "glotaran.builtin.megacomplexes.clp_guide.clp_guide_megacomplex:ClpGuideMegacomplex.calculate_matrix",
    )
    modules = MODS
    trusted = ("exp/cos/sin/erf uninterpreted (columns are compared as terms between two executions)",)
    drops = ("numba kernels through .py_func",)
    strength = "S"
    agreement_runs = 0
    max_paths = {"quick": 6000, "thorough": 60000}

    def cases(self, tier):
        for kind in ("damped-oscillation", "damped-oscillation-irf", "pfid", "spectral"):
            n = 3 if kind in ("damped-oscillation", "spectral") else 2
            for perm in itertools.permutations(range(n)):
                if perm == tuple(range(n)):
                    continue
                yield {"kind": kind, "perm": perm}
        yield {"kind": "baseline", "perm": ()}
        yield {"kind": "clp-guide", "perm": ()}

    def build(self, S, case):
        from glotaran.parameter import Parameter

        kind, perm = case["kind"], case["perm"]
        n = len(perm)
        inp = {"t": np.array([-0.5, 0.25]), "g": np.array([1500.0, 1600.0])}
        if kind.startswith("damped") or kind == "pfid":
            fp, fv = _params(S, "f", n)
            rp, rv = _params(S, "r", n)
            labels = [f"o{i}" for i in range(n)]
            for f in fv:
                S.require(L.lt(f * 0.03 * 2 * np.pi, 1 / (2 * 0.03 * 0.75)), "below Nyquist")
                S.require(L.gt(f, 0), "frequencies positive")
            for r in rv:
                S.require(L.lt(r, 0) if kind == "pfid" else L.gt(r, 0), "rate sign")
            irf = None
            if kind != "damped-oscillation":
                irf, *_ = _irf(S, "plain", 2, 1)
            inp.update({"labels": labels, "fp": fp, "rp": rp, "dm": _DM(irf)})
        elif kind == "spectral":
            from glotaran.builtin.megacomplexes.spectral.shape import SpectralShapeGaussian

            shapes = {}
            for i in range(n):
                shapes[f"s{i}"] = SpectralShapeGaussian(label=f"sh{i}", location=Parameter(label=f"l.{i}", value=S.real(f"loc_{i}")), width=Parameter(label=f"w.{i}", value=S.real(f"wid_{i}")), amplitude=Parameter(label=f"a.{i}", value=S.real(f"amp_{i}")))
                S.require(L.gt(shapes[f"s{i}"].width.value, 0), "width positive")
            inp.update({"shapes": shapes, "dm": _DM(None), "axis": S.real_array("x", 2)})
        else:
            inp["dm"] = _DM(None)
        return inp

    def stubs_for(self, S, case, inp):
        if not S.symbolic:
            return {}
        import glotaran.builtin.megacomplexes.damped_oscillation.damped_oscillation_megacomplex as m

        fn = m.calculate_damped_oscillation_matrix_no_irf
        return {"glotaran.builtin.megacomplexes.damped_oscillation.damped_oscillation_megacomplex:calculate_damped_oscillation_matrix_no_irf": getattr(fn, "py_func", fn)}

    def _run(self, S, case, inp, perm):
        from glotaran.builtin.megacomplexes.baseline import BaselineMegacomplex
        from glotaran.builtin.megacomplexes.clp_guide import ClpGuideMegacomplex
        from glotaran.builtin.megacomplexes.damped_oscillation import DampedOscillationMegacomplex
        from glotaran.builtin.megacomplexes.pfid import PFIDMegacomplex
        from glotaran.builtin.megacomplexes.spectral import SpectralMegacomplex

        kind = case["kind"]
        if kind.startswith("damped") or kind == "pfid":
            cls = PFIDMegacomplex if kind == "pfid" else DampedOscillationMegacomplex
            mc = cls(label="mc", labels=[inp["labels"][i] for i in perm], frequencies=[inp["fp"][i] for i in perm], rates=[inp["rp"][i] for i in perm])
            labels, M = mc.calculate_matrix(inp["dm"], inp["g"], inp["t"])
        elif kind == "spectral":
            keys = [f"s{i}" for i in perm]
            mc = SpectralMegacomplex(label="mc", shape={k: inp["shapes"][k] for k in keys})
            ax = np.array(inp["axis"], dtype=object if S.symbolic else float)
            labels, M = mc.calculate_matrix(inp["dm"], np.array([0.0]), ax.view(SArr) if S.symbolic else ax)
        elif kind == "baseline":
            labels, M = BaselineMegacomplex(label="bl").calculate_matrix(inp["dm"], inp["g"], inp["t"])
        else:
            labels, M = ClpGuideMegacomplex(label="cg", target="s7").calculate_matrix(inp["dm"], inp["g"], inp["t"])
        return list(labels), np.asarray(M, dtype=object if S.symbolic else float)

    def call(self, S, case, inp):
        n = len(case["perm"])
        ident = tuple(range(n))
        return {"id": self._run(S, case, inp, ident), "perm": self._run(S, case, inp, case["perm"])}

    def observe(self, out):
        return out if isinstance(out, Raised) else None

    def ensures(self, S, case, inp, out):
        if isinstance(out, Raised):
            yield "no_exception", False
            return
        (l0, M0), (l1, M1) = out["id"], out["perm"]
        kind = case["kind"]
        if kind == "baseline":
            yield "baseline_column_labelled_by_dataset", l0 == ["ds_baseline"] and tuple(M0.shape) == (len(inp["t"]), 1) and L.and_(*[L.eq(v, 1.0) for v in M0.reshape(-1)])
            return
        if kind == "clp-guide":
            yield "clp_guide_single_target_column", l0 == ["s7"] and tuple(M0.shape) == (1, 1) and L.eq(M0[0, 0], 1.0)
            return
        yield "same_label_set", sorted(l0) == sorted(l1) and len(set(l1)) == len(l1)
        yield "same_shape", M0.shape == M1.shape
        if sorted(l0) != sorted(l1) or M0.shape != M1.shape:
            return
        cells = []
        for lab in l0:
            a, b = np.take(M0, l0.index(lab), axis=-1), np.take(M1, l1.index(lab), axis=-1)
            cells += [L.eq(x, y) for x, y in zip(np.asarray(a, dtype=object).reshape(-1), np.asarray(b, dtype=object).reshape(-1))]
        yield "column_reported_under_a_label_is_independent_of_declaration_order", L.and_(*cells)


class LinkedClpLabels(Contract):
    """Estimated clps are reported under their labels for linked datasets that declare their megacomplexes
    (hence labels) in different orders and overlap only partially - the C03 result obligations restricted
    to the label-carrying ones, on configurations chosen for label order."""

    prop = "C06"
    name = "LinkedClpLabels"
    target = "glotaran.optimization.matrix_provider:MatrixProviderLinked.align_full_clp_labels"
    functions = ("glotaran.optimization.estimation_provider:EstimationProviderLinked.get_result", "glotaran.optimization.matrix_provider:MatrixProviderLinked.align_matrices")
    strength = "S"
    agreement_runs = 0

    def _inner(self):
        from contracts.c03_results import ResultData

        return ResultData()

    @property
    def modules(self):
        return self._inner().modules

    @property
    def trusted(self):
        return self._inner().trusted

    def cases(self, tier):
        from contracts.configs import M2, M2D, VP

        T2, T3 = (0.0, 1.0, 3.0), (0.0, 1.0, 2.5, 4.0)
        cfgs = []
        for k, (o1, o2, o3) in enumerate(itertools.product((("m1", "m2"), ("m2", "m1")), repeat=3)):
            cfgs.append(Cfg(f"label_order_{k}", (DS("d1", T2, (0.0, 1.0), megacomplexes=o1), DS("d2", T2, (1.0, 2.0), megacomplexes=o2, scale=True), DS("d3", T3, (2.0, 3.0), megacomplexes=o3)), megacomplexes=M2 if k % 2 == 0 else M2D, groups={"default": (True, VP)}))
        cfgs.append(Cfg("label_order_single_mc", (DS("d1", T2, (0.0, 1.0), megacomplexes=("m1",)), DS("d2", T2, (1.0, 2.0), megacomplexes=("m2", "m1")), DS("d3", T3, (2.0, 3.0), megacomplexes=("m2",))), megacomplexes=M2, groups={"default": (True, VP)}))
        for c in cfgs:
            yield {"cfg": c.name, "_cfg": c}

    def case_id(self, case):
        return f"cfg={case['cfg']}"

    def build(self, S, case):
        return self._inner().build(S, case)

    def call(self, S, case, b):
        return self._inner().call(S, case, b)

    def observe(self, out):
        return None

    def ensures(self, S, case, b, out):
        n = 0
        for name, cond in self._inner().ensures(S, case, b, out):
            if name.startswith(("clps_by_label", "fitted_data_is_scale_matrix_clp", "matrix_and_clp_share_labels", "no_exception", "number_of_linear_solves")):
                n += 1
                yield name, cond
        if n == 0:
            yield "label_obligations_generated", False


class SpeciesSelection(Contract):
    """retrieve_species_associated_data: concentrations and spectra reported for a species are selected by
    its label, whatever the order of the clp labels (index dependent and independent matrices)."""

    prop = "C06"
    name = "SpeciesSelection"
    target = "glotaran.builtin.megacomplexes.decay.util:retrieve_species_associated_data"
    modules = MODS
    trusted = ("xarray label based selection executed for real (coordinates concrete)",)
    strength = "S"
    agreement_runs = 0

    def cases(self, tier):
        labels = ("s1", "s2", "s3", "other")
        for perm in itertools.permutations(range(3)):
            for dep in (False, True):
                yield {"perm": perm, "index_dependent": dep}

    def build(self, S, case):
        import xarray as xr

        clp_labels = ["other", "s2", "s3", "s1"]
        species = [f"s{i+1}" for i in case["perm"]]
        nt, ng = 2, 2
        shape = (ng, nt, len(clp_labels)) if case["index_dependent"] else (nt, len(clp_labels))
        M = S.real_array("m", *shape)
        C = S.real_array("c", ng, len(clp_labels))
        dims = ("spectral", "time", "clp_label") if case["index_dependent"] else ("time", "clp_label")
        ds = xr.Dataset(
            {"matrix": (dims, np.array(M, dtype=object if S.symbolic else float)), "clp": (("spectral", "clp_label"), np.array(C, dtype=object if S.symbolic else float))},
            coords={"time": [0.0, 1.0], "spectral": [500.0, 600.0], "clp_label": clp_labels},
        )

        class DM:
            megacomplex = []

        import types

        dm = types.SimpleNamespace(megacomplex=[types.SimpleNamespace(dimension="time")], label="ds")
        return {"ds": ds, "species": species, "M": M, "C": C, "clp_labels": clp_labels, "dm": dm}

    def call(self, S, case, inp):
        from glotaran.builtin.megacomplexes.decay.util import retrieve_species_associated_data

        retrieve_species_associated_data(inp["dm"], inp["ds"], inp["species"], "species", "spectral", "spectra", False, False)
        return inp["ds"]

    def observe(self, out):
        return out if isinstance(out, Raised) else None

    def ensures(self, S, case, inp, out):
        if isinstance(out, Raised):
            yield "no_exception", False
            return
        ds, species, M, C, labels = out, inp["species"], inp["M"], inp["C"], inp["clp_labels"]
        yield "species_coordinate_in_requested_order", [str(x) for x in ds.coords["species"].values] == species
        conc = ds["species_concentration"].values
        sas = ds["species_associated_spectra"].values
        cells = []
        for i, sp in enumerate(species):
            j = labels.index(sp)
            for g in range(2):
                cells.append(L.eq(sas[g, i], C[g, j]))
                for t in range(2):
                    if case["index_dependent"]:
                        cells.append(L.eq(conc[g, t, i], M[g, t, j]))
                    elif g == 0:
                        cells.append(L.eq(conc[t, i], M[t, j]))
        yield "concentration_and_spectrum_of_a_species_are_selected_by_label", L.and_(*cells)


# ----------------------------------------------------------------------------- full models: clps under (global label, label)
from contracts.c03_results import ResultData as _ResultData  # noqa: E402


class FullModelClpLabels(_ResultData):
    """Full (global x model) models: the clp reported under (global label g, label c) is the coefficient of the product
    of global column g and model column c - the reported clp table, contracted with the labelled matrices, gives the
    fitted data (index-dependent and index-independent model matrices, several global megacomplexes, shared labels).
    Same harness and reference as C03 `ResultData`, restricted to the full-model configurations and to the
    obligations about labels."""

    prop = "C06"
    name = "FullModelClpLabels"

    KEEP = ("clp_dims_full_model", "fitted_data_is_matrix_clp_global_matrixT", "no_exception", "result_holds_every_dataset", "outside_precondition")

    def cases(self, tier):
        for case in super().cases(tier):
            if any(ds.global_megacomplexes for ds in case["_cfg"].datasets):
                yield case

    def ensures(self, S, case, b, out):
        for item in super().ensures(S, case, b, out):
            if any(item[0].startswith(k) for k in self.KEEP):
                yield item

    def bounded_checks(self, tier, seed):
        return []


def _scaled_constant_columns(self, tier, seed):
    """B: megacomplexes whose column is a constant (baseline) carry their megacomplex scale every time the dataset matrix is
    built - evaluated repeatedly, for two datasets in both declaration orders, next to a decay megacomplex: the column under
    `<dataset>_baseline` is the scale of that dataset's baseline (1 without scale), whatever was evaluated before."""
    import numpy as np

    from glotaran.builtin.megacomplexes.baseline import BaselineMegacomplex
    from glotaran.builtin.megacomplexes.decay import DecayParallelMegacomplex
    from glotaran.model import Model
    from glotaran.model.item import fill_item
    from glotaran.optimization.matrix_provider import MatrixProvider
    from glotaran.parameter import Parameters

    M = Model.create_class_from_megacomplexes([DecayParallelMegacomplex, BaselineMegacomplex])
    pars = Parameters.from_dict({"k": [0.5, 0.1], "sc": [1.0, 3.0, 0.25]})
    model_axis, global_axis = np.arange(0.0, 6.0), np.array([0.0, 1.0])
    bad, n = None, 0
    for order in (("scaled", "plain", "other"), ("plain", "other", "scaled"), ("other", "scaled", "plain")):
        datasets = {
            "scaled": {"megacomplex": ["m", "b"], "megacomplex_scale": ["sc.1", "sc.2"]},
            "plain": {"megacomplex": ["m", "b"]},
            "other": {"megacomplex": ["b", "m"], "megacomplex_scale": ["sc.3", "sc.1"]},
        }
        model = M(megacomplex={"m": {"type": "decay-parallel", "compartments": ["s1", "s2"], "rates": ["k.1", "k.2"]}, "b": {"type": "baseline", "dimension": "time"}}, dataset={k: datasets[k] for k in order})
        want = {"scaled": 3.0, "plain": 1.0, "other": 0.25}
        for rep in range(3):
            for lab in order:
                n += 1
                dm = fill_item(model.dataset[lab], model, pars)
                container = MatrixProvider.calculate_dataset_matrix(dm, global_axis, model_axis)
                col = np.asarray(container.matrix)[..., list(container.clp_labels).index(f"{lab}_baseline")]
                if not np.array_equal(col, np.full(col.shape, want[lab])):
                    bad = bad or {"declaration_order": order, "evaluation": rep, "dataset": lab, "baseline_column": np.unique(col).tolist(), "expected": want[lab]}
    # the clp-guide megacomplex: one cell, scaled per dataset
    from glotaran.builtin.megacomplexes.clp_guide import ClpGuideMegacomplex

    MG = Model.create_class_from_megacomplexes([ClpGuideMegacomplex])
    for order in (("g1", "g2"), ("g2", "g1")):
        gsets = {"g1": {"megacomplex": ["mg1"], "megacomplex_scale": ["sc.2"]}, "g2": {"megacomplex": ["mg2"], "megacomplex_scale": ["sc.3"]}}
        gmodel = MG(megacomplex={"mg1": {"type": "clp-guide", "dimension": "time", "target": "s1"}, "mg2": {"type": "clp-guide", "dimension": "time", "target": "s2"}}, dataset={k: gsets[k] for k in order})
        gwant = {"g1": ("s1", 3.0), "g2": ("s2", 0.25)}
        for rep in range(3):
            for lab in order:
                n += 1
                dm = fill_item(gmodel.dataset[lab], gmodel, pars)
                container = MatrixProvider.calculate_dataset_matrix(dm, np.array([0.0]), np.array([0.0]))
                got = np.asarray(container.matrix).reshape(-1)
                if list(container.clp_labels) != [gwant[lab][0]] or not np.array_equal(got, [gwant[lab][1]]):
                    bad = bad or {"declaration_order": order, "evaluation": rep, "dataset": lab, "clp_guide_column": got.tolist(), "labels": list(container.clp_labels), "expected": gwant[lab]}
    return [{"name": "bounded_constant_columns_carry_their_own_scale_at_every_evaluation", "ok": bad is None and n > 0, "case": f"{n} dataset matrices (3 declaration orders x 3 evaluations x 3 datasets)", "function": "glotaran.optimization.matrix_provider:MatrixProvider.calculate_dataset_matrix", "witness": bad, "detail": "bounded stand-in: repeated native evaluation of builtin megacomplexes"}]


BuiltinPermutation.bounded_checks = _scaled_constant_columns


def _oscillation_outputs_by_label(self, tier, seed):
    """B: what `DampedOscillationMegacomplex.finalize_data` reports under an oscillation label - amplitude spectrum, phase
    (unwrapped along the spectral axis), frequency, rate, cos / sin profiles - depends on that oscillation only: the same
    clps and matrix under every permutation of the declarations, phases more than pi apart included."""
    import itertools

    import numpy as np
    import xarray as xr

    from glotaran.builtin.megacomplexes.damped_oscillation import DampedOscillationMegacomplex
    from glotaran.parameter import Parameter

    rng = np.random.default_rng(seed)
    labels = ["oa", "ob", "oc"]
    freq = {"oa": 5.0, "ob": 11.0, "oc": 17.0}
    rate = {"oa": 0.3, "ob": 0.7, "oc": 1.1}
    ng, nt = 9, 5
    spectral, time = np.linspace(500.0, 580.0, ng), np.linspace(0.0, 2.0, nt)
    # amplitudes whose phases are far apart between the oscillations (3/4 pi, -3/4 pi, 0.1) and wrap along the axis for one of them
    phase0 = {"oa": 0.75 * np.pi, "ob": -0.75 * np.pi, "oc": 0.1}
    amp = {lab: 1.0 + rng.uniform(0, 1, ng) for lab in labels}
    ph = {lab: phase0[lab] + (np.linspace(0, 2.5 * np.pi, ng) if lab == "oa" else 0.0) for lab in labels}
    clp_by_label = {}
    for lab in labels:
        clp_by_label[f"{lab}_sin"] = amp[lab] * np.sin(ph[lab])
        clp_by_label[f"{lab}_cos"] = amp[lab] * np.cos(ph[lab])
    mat_by_label = {k: rng.uniform(-1, 1, nt) for k in clp_by_label}
    want = {lab: (amp[lab], np.unwrap(np.arctan2(clp_by_label[f"{lab}_sin"], clp_by_label[f"{lab}_cos"]))) for lab in labels}

    class DM:
        irf = None
        label = "ds"

    bad, n = None, 0
    for order in itertools.permutations(labels):
        mc = DampedOscillationMegacomplex(label="doas", labels=list(order), frequencies=[Parameter(label=f"f.{l}", value=freq[l]) for l in order], rates=[Parameter(label=f"r.{l}", value=rate[l]) for l in order])
        dm = DM()
        dm.megacomplex = [mc]
        for clp_order in (sorted(clp_by_label), sorted(clp_by_label, reverse=True)):
            n += 1
            ds = xr.Dataset(
                {"clp": (("spectral", "clp_label"), np.stack([clp_by_label[k] for k in clp_order], axis=1)), "matrix": (("time", "clp_label"), np.stack([mat_by_label[k] for k in clp_order], axis=1))},
                coords={"spectral": spectral, "time": time, "clp_label": list(clp_order)},
                attrs={"model_dimension": "time", "global_dimension": "spectral"},
            )
            mc.finalize_data(dm, ds)
            for lab in labels:
                got_a = ds["damped_oscillation_associated_spectra"].sel(damped_oscillation=lab).values
                got_p = ds["damped_oscillation_phase"].sel(damped_oscillation=lab).values
                got_f = float(ds["damped_oscillation_frequency"].sel(damped_oscillation=lab))
                got_r = float(ds["damped_oscillation_rate"].sel(damped_oscillation=lab))
                got_s = ds["damped_oscillation_sin"].sel(damped_oscillation=lab).values
                got_c = ds["damped_oscillation_cos"].sel(damped_oscillation=lab).values
                ok = np.allclose(got_a, want[lab][0], rtol=1e-12) and np.allclose(got_p, want[lab][1], rtol=1e-12, atol=1e-12) and got_f == freq[lab] and got_r == rate[lab] and np.array_equal(got_s, mat_by_label[f"{lab}_sin"]) and np.array_equal(got_c, mat_by_label[f"{lab}_cos"])
                if not ok:
                    bad = bad or {"declaration_order": list(order), "clp_label_order": list(clp_order)[:2], "label": lab, "phase": np.round(got_p, 3).tolist(), "expected_phase": np.round(want[lab][1], 3).tolist()}
    return [{"name": "bounded_oscillation_outputs_reported_under_a_label_belong_to_that_oscillation", "ok": bad is None and n > 0, "case": f"{n} result datasets (6 declaration orders x 2 clp label orders)", "function": "glotaran.builtin.megacomplexes.damped_oscillation.damped_oscillation_megacomplex:DampedOscillationMegacomplex.finalize_data", "witness": bad, "detail": "bounded stand-in: native finalize_data on a constructed result dataset"}]


def _builtin_bounded(self, tier, seed):
    return _scaled_constant_columns(self, tier, seed) + _oscillation_outputs_by_label(self, tier, seed)


BuiltinPermutation.bounded_checks = _builtin_bounded
