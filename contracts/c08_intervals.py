"""C08 - interval-scoped constraints, relations, penalties, weights act on their interval.

Post-conditions are taken from the property statement:
  (i)   every axis point inside the closed interval [min(lo,hi), max(lo,hi)] is affected;
  (ii)  an infinite bound reaches the end of the axis (inclusive);
  (iii) no point beyond the axis point nearest to a bound is affected;
  (iv)  enlarging an interval never shrinks the affected set;
  `only` is the complement of `zero`; items without interval act everywhere;
  dataset weight wins over model weight, with a warning (and no exception).
"""
from __future__ import annotations

import itertools
import warnings

import numpy as np

from contracts.common import INF, ext_real, inside, kind_pairs, proper_kind_pairs, lo_hi, strictly_increasing, within_nearest
from pyvc.sym import isfloat
from pyvc.contract import Contract, L, Raised

MODS = (
    "glotaran.model.interval_item",
    "glotaran.model.clp_constraint",
    "glotaran.optimization.data_provider",
    "glotaran.optimization.estimation_provider",
)


def _item_classes():
    from glotaran.model.clp_constraint import OnlyConstraint, ZeroConstraint
    from glotaran.model.clp_relation import ClpRelation
    from glotaran.model.interval_item import IntervalItem

    return {
        "IntervalItem": (IntervalItem, {}, False),
        "ZeroConstraint": (ZeroConstraint, {"target": "t"}, False),
        "OnlyConstraint": (OnlyConstraint, {"target": "t"}, True),
        "ClpRelation": (ClpRelation, {"source": "s", "target": "t", "parameter": "p"}, False),
    }


class IntervalApplies(Contract):
    prop = "C08"
    name = "IntervalApplies"
    target = "glotaran.model.interval_item:IntervalItem.applies"
    functions = (
        "glotaran.model.interval_item:IntervalItem.applies",
        "glotaran.model.interval_item:IntervalItem.has_interval",
        "glotaran.model.clp_constraint:OnlyConstraint.applies",
    )
    modules = MODS
    strength = "U"
    not_decided = ()

    def cases(self, tier):
        for cls in _item_classes():
            yield {"cls": cls, "form": "no_interval"}
            yield {"cls": cls, "form": "index_none"}
            for k in kind_pairs():
                yield {"cls": cls, "form": "tuple", "kinds": k}  # loop-free: U
            max_n = 3 if tier == "quick" else 4
            for n in range(1, max_n + 1):
                yield {"cls": cls, "form": "list", "n": n, "kinds": ("fin", "fin") * n, "strength": "S"}
            # lists with infinite bounds
            combos = list(itertools.product(kind_pairs(), repeat=2))
            if tier == "quick":
                combos = combos[::4]
            for ks in combos:
                yield {"cls": cls, "form": "list", "n": 2, "kinds": ks[0] + ks[1], "strength": "S"}

    def build(self, S, case):
        cls, kw, negate = _item_classes()[case["cls"]]
        form = case["form"]
        x = S.real("x")
        if form == "no_interval":
            item = cls(interval=None, **kw)
            intervals = None
        elif form == "index_none":
            item = cls(interval=(S.real("lo"), S.real("hi")), **kw)
            intervals = None
            x = None
        elif form == "tuple":
            iv = (ext_real(S, "lo", case["kinds"][0]), ext_real(S, "hi", case["kinds"][1]))
            item = cls(interval=iv, **kw)
            intervals = [iv]
        else:
            ks = case["kinds"]
            intervals = [
                (ext_real(S, f"lo{j}", ks[2 * j]), ext_real(S, f"hi{j}", ks[2 * j + 1])) for j in range(case["n"])
            ]
            item = cls(interval=list(intervals), **kw)
        return item, x, intervals, negate

    def call(self, S, case, inp):
        item, x, intervals, negate = inp
        return item.applies(x)

    def ensures(self, S, case, inp, out):
        item, x, intervals, negate = inp
        if isinstance(out, Raised):
            yield "no_exception", False
            return
        from pyvc.sym import SymBool

        # `lo <= x <= hi` hands back its last comparison unevaluated: a symbolic Boolean
        yield "returns_bool", type(out) is SymBool or isinstance(out, (bool, np.bool_))
        if type(out) is not SymBool:
            out = bool(out)
        if intervals is None:
            spec = True  # items without interval (or without index) act everywhere
        else:
            spec = L.or_(*[inside(iv, x) for iv in intervals])
        if negate:
            spec = L.not_(spec)
            yield "only_is_complement_of_zero", L.iff(out, spec)
        else:
            yield "applies_iff_in_closed_interval_union", L.iff(out, spec)
        yield "has_interval", item.has_interval() == (item.interval is not None)


class AxisSlice(Contract):
    prop = "C08"
    name = "AxisSlice"
    target = "glotaran.optimization.data_provider:DataProvider.get_axis_slice_from_interval"
    modules = MODS
    strength = "S"

    def cases(self, tier):
        max_n = 5 if tier == "quick" else 7
        for n in range(1, max_n + 1):
            for k in proper_kind_pairs():
                yield {"n": n, "kinds": k}

    def build(self, S, case):
        axis = S.real_array("a", case["n"])
        strictly_increasing(S, axis)
        iv = (ext_real(S, "lo", case["kinds"][0]), ext_real(S, "hi", case["kinds"][1]))
        return (iv, axis), {}

    def ensures(self, S, case, inp, out):
        (iv, axis), _ = inp
        n = len(axis)
        if isinstance(out, Raised):
            yield "no_exception", False
            return
        start, stop = int(out.start), int(out.stop)
        yield "slice_is_plain", out.step is None and 0 <= start <= n and 0 <= stop <= n
        sel = set(range(start, stop))
        mn, mx = lo_hi(iv)
        yield "covers_closed_interval", L.and_(*[L.implies(inside(iv, axis[i]), i in sel) for i in range(n)])
        if isfloat(mn) and mn == -INF and not (isfloat(mx) and mx == -INF):
            yield "infinite_lower_bound_reaches_first_point", start == 0
        if isfloat(mx) and mx == INF and not (isfloat(mn) and mn == INF):
            yield "infinite_upper_bound_reaches_last_point", stop == n
        yield "within_nearest_points", L.and_(*[within_nearest(axis, i, iv) for i in sel])


def _axis_slice_sweep(self, tier, seed):
    from contracts.common import native_sweep, sorted_env

    cases = [{"n": n, "kinds": k} for n in ((12, 40) if tier == "quick" else (12, 40, 150)) for k in proper_kind_pairs()]
    def env(case, rng):
        e = sorted_env("a", case["n"], rng, -20, 20)
        pts = list(e.values())
        # bounds between axis points and bounds that coincide with axis points (closed interval: the point belongs to it)
        for name in ("lo", "hi"):
            e[name] = rng.choice(pts) if rng.random() < 0.6 else round(rng.uniform(-22, 22), 3)
        return e

    return native_sweep(self, cases, envs=env, tries=6, seed=seed)


AxisSlice.bounded_checks = _axis_slice_sweep


class AxisSliceMonotone(Contract):
    """(iv): I subset of I' implies slice(I) subset of slice(I') - two runs of the real function."""

    prop = "C08"
    name = "AxisSliceMonotone"
    target = "glotaran.optimization.data_provider:DataProvider.get_axis_slice_from_interval"
    modules = MODS
    strength = "S"
    agreement_runs = 2

    def cases(self, tier):
        max_n = 3 if tier == "quick" else 5
        for n in range(1, max_n + 1):
            for k in proper_kind_pairs():
                for k2 in proper_kind_pairs():
                    # I' can only contain I if it is unbounded wherever I is
                    if ("-inf" in k and "-inf" not in k2) or ("+inf" in k and "+inf" not in k2):
                        continue
                    yield {"n": n, "kinds": k, "kinds2": k2}

    def build(self, S, case):
        axis = S.real_array("a", case["n"])
        strictly_increasing(S, axis)
        iv = (ext_real(S, "lo", case["kinds"][0]), ext_real(S, "hi", case["kinds"][1]))
        iv2 = (ext_real(S, "lo2", case["kinds2"][0]), ext_real(S, "hi2", case["kinds2"][1]))
        mn, mx = lo_hi(iv)
        mn2, mx2 = lo_hi(iv2)
        S.require(L.le(mn2, mn), "I subset I'")
        S.require(L.le(mx, mx2), "I subset I'")
        return iv, iv2, axis

    def call(self, S, case, inp):
        from glotaran.optimization.data_provider import DataProvider

        iv, iv2, axis = inp
        return (
            DataProvider.get_axis_slice_from_interval(iv, axis),
            DataProvider.get_axis_slice_from_interval(iv2, axis),
        )

    def ensures(self, S, case, inp, out):
        if isinstance(out, Raised):
            yield "no_exception", False
            return
        s1, s2 = out
        a = set(range(int(s1.start), int(s1.stop)))
        b = set(range(int(s2.start), int(s2.stop)))
        yield "enlarging_never_shrinks", a <= b


class GetArea(Contract):
    """Equal-area penalty: which clps enter the area of an interval list."""

    prop = "C08"
    name = "GetArea"
    target = "glotaran.optimization.estimation_provider:_get_area"
    functions = ("glotaran.optimization.data_provider:DataProvider.get_axis_slice_from_interval",)
    modules = MODS
    strength = "S"

    def cases(self, tier):
        max_n = 3 if tier == "quick" else 4
        for n in range(1, max_n + 1):
            for k in proper_kind_pairs():
                yield {"n": n, "m": 1, "kinds": k, "labels": "flat"}
            yield {"n": n, "m": 1, "kinds": ("fin", "fin"), "labels": "per_index"}
            if n >= 2:
                yield {"n": n, "m": 1, "kinds": ("fin", "fin"), "labels": "moving_position"}
            if n == 2 or (n >= 2 and tier == "thorough"):
                yield {"n": n, "m": 2, "kinds": ("fin", "fin", "fin", "fin"), "labels": "flat"}
        if tier == "thorough":
            for k in proper_kind_pairs():
                for k2 in proper_kind_pairs():
                    yield {"n": 3, "m": 2, "kinds": k + k2, "labels": "flat"}

    def build(self, S, case):
        n, m = case["n"], case["m"]
        axis = S.real_array("a", n)
        strictly_increasing(S, axis)
        ks = case["kinds"]
        intervals = [(ext_real(S, f"lo{j}", ks[2 * j]), ext_real(S, f"hi{j}", ks[2 * j + 1])) for j in range(m)]
        if case["labels"] == "flat":
            labels = ["s1", "s2"]
            present = [True] * n
            pos = [1] * n
            clps = [S.real_array(f"c{i}", 2) for i in range(n)]
        elif case["labels"] == "per_index":
            # the clp is missing at odd indices (constraint removed it there)
            labels = [["s1", "s2"] if i % 2 == 0 else ["s1"] for i in range(n)]
            present = [i % 2 == 0 for i in range(n)]
            pos = [1] * n
            clps = [S.real_array(f"c{i}", 2 if present[i] else 1) for i in range(n)]
        else:
            # linked datasets with different label sets: the position of the clp in the list changes along the axis
            cycle = (["s2", "s3"], ["s1", "s2", "s3"], ["s1", "s2"], ["s3", "s1"])
            labels = [list(cycle[i % 4]) for i in range(n)]
            present = ["s2" in labs for labs in labels]
            pos = [labs.index("s2") if "s2" in labs else None for labs in labels]
            clps = [S.real_array(f"c{i}", len(labels[i])) for i in range(n)]
        return ("s2", labels, clps, intervals, axis), {"present": present, "pos": pos}

    def call(self, S, case, inp):
        from glotaran.optimization.estimation_provider import _get_area

        args, _ = inp
        return _get_area(*args)

    def observe(self, out):
        return out if isinstance(out, Raised) else list(np.asarray(out, dtype=object).reshape(-1))

    def ensures(self, S, case, inp, out):
        (label, labels, clps, intervals, axis), extra = inp
        present = extra["present"]
        n = len(axis)
        if isinstance(out, Raised):
            yield "no_exception", False
            return
        area = list(np.asarray(out, dtype=object).reshape(-1))
        # every entry of the area is the clp of the label at some index; count per index
        counts = [0] * n
        foreign = 0
        for v in area:
            hit = [i for i in range(n) if present[i] and _same(v, clps[i][extra["pos"][i]])]
            if len(hit) == 1:
                counts[hit[0]] += 1
            else:
                foreign += 1
        yield "area_holds_only_clps_of_the_label", foreign == 0
        m = len(intervals)
        absent, counted, twice, atmost, near, near2 = [], [], [], [], [], []
        for i in range(n):
            if not present[i]:
                absent.append(counts[i] == 0)
                continue
            ins = [inside(iv, axis[i]) for iv in intervals]
            counted.append(L.and_(*[L.implies(c, counts[i] >= 1) for c in ins]))
            if m == 2:
                twice.append(L.implies(L.and_(*ins), counts[i] >= 2))
            atmost.append(counts[i] <= m)
            if counts[i] >= 1:
                near.append(L.or_(*[within_nearest(axis, i, iv) for iv in intervals]))
            if counts[i] >= 2:
                # counted c times: at least c of the intervals reach the point (nearest-point slack included)
                c = min(counts[i], m)
                near2.append(L.or_(*[L.and_(*[within_nearest(axis, i, intervals[j]) for j in sub]) for sub in itertools.combinations(range(m), c)]))
        yield "absent_clp_not_counted", L.and_(*absent)
        yield "inside_interval_is_counted", L.and_(*counted)
        yield "inside_both_counted_twice", L.and_(*twice)
        yield "counted_at_most_once_per_interval", L.and_(*atmost)
        yield "counted_only_within_nearest_points", L.and_(*near)
        yield "counted_c_times_only_within_c_intervals", L.and_(*near2)


def _same(a, b):
    """Syntactic identity of two symbolic (or concrete) scalars."""
    from pyvc.sym import SymReal

    if type(a) is SymReal and type(b) is SymReal:
        return a.t.eq(b.t)
    if type(a) is SymReal or type(b) is SymReal:
        return False
    return float(a) == float(b)


def _area_sweep(self, tier, seed):
    from contracts.common import native_sweep, sorted_env

    cases = [{"n": n, "m": m, "kinds": ("fin", "fin") * m, "labels": lab} for n in (15, 40) for m in (1, 3) for lab in ("flat", "per_index", "moving_position")]

    def env(case, rng):
        e = sorted_env("a", case["n"], rng, -20, 20)
        pts = list(e.values())
        # the postcondition recognises a clp by its value: all clp values distinct
        vals = rng.sample(range(-3000, 3000), 3 * case["n"])
        for i in range(case["n"]):
            for k in (0, 1, 2):
                e[f"c{i}_{k}"] = vals[3 * i + k] / 1000.0
        for j in range(case["m"]):
            for nm in (f"lo{j}", f"hi{j}"):
                e[nm] = rng.choice(pts) if rng.random() < 0.5 else round(rng.uniform(-25, 25), 3)
        return e

    return native_sweep(self, cases, envs=env, tries=4, seed=seed)


GetArea.bounded_checks = _area_sweep


class ModelWeight(Contract):
    """DataProvider.add_model_weight: product of the weights whose intervals hold the cell."""

    prop = "C08"
    name = "ModelWeight"
    target = "glotaran.optimization.data_provider:DataProvider.add_model_weight"
    functions = ("glotaran.optimization.data_provider:DataProvider.get_axis_slice_from_interval",)
    modules = MODS
    strength = "S"
    trusted = ("xarray/pandas are executed for real on object arrays (coordinates concrete, enumerated)",)
    agreement_runs = 2

    AXES = {
        "u3": [0.0, 1.0, 2.0],
        "nu3": [-1.0, 0.5, 4.0],
        "u2": [10.0, 20.0],
        "u4": [0.0, 1.0, 2.0, 3.0],
        "one": [5.0],
    }

    def cases(self, tier):
        axes = [("u3", "nu3"), ("u2", "u4"), ("one", "u3")] if tier == "quick" else list(itertools.permutations(self.AXES, 2))
        for ma, ga in axes:
            for which in ("global", "model", "both", "none"):
                kset = [("fin", "fin"), ("fin", "+inf"), ("-inf", "fin")] if tier == "quick" else proper_kind_pairs()
                for k in kset:
                    if which == "none" and k != ("fin", "fin"):
                        continue
                    yield {"model_axis": ma, "global_axis": ga, "which": which, "kinds": k, "n_weights": 1, "dataset_weight": False}
            if tier == "thorough" or (ma, ga) == ("one", "u3"):
                yield {"model_axis": ma, "global_axis": ga, "which": "global", "kinds": ("fin", "fin"), "n_weights": 2, "dataset_weight": False}
            if tier == "thorough" or (ma, ga) == ("u2", "u4"):
                yield {"model_axis": ma, "global_axis": ga, "which": "model", "kinds": ("fin", "fin"), "n_weights": 2, "dataset_weight": False}
            # several weights of one dataset restricting different axes, in both orders (each weight acts on
            # its own intervals only; one without interval acts everywhere)
            mixes = [("global", "none"), ("none", "global"), ("global", "model"), ("model", "global"), ("both", "none"), ("model", "none")]
            if tier == "quick":
                mixes = {("u3", "nu3"): mixes[:2], ("u2", "u4"): mixes[2:4], ("one", "u3"): mixes[4:]}[(ma, ga)]
            for mix in mixes:
                yield {"model_axis": ma, "global_axis": ga, "which": "+".join(mix), "kinds": ("fin", "fin"), "n_weights": 2, "dataset_weight": False}
            yield {"model_axis": ma, "global_axis": ga, "which": "both", "kinds": ("fin", "fin"), "n_weights": 1, "dataset_weight": True}
            yield {"model_axis": ma, "global_axis": ga, "which": "other_dataset", "kinds": ("fin", "fin"), "n_weights": 1, "dataset_weight": False}

    def build(self, S, case):
        from glotaran.model.weight import Weight

        ma = np.array(self.AXES[case["model_axis"]])
        ga = np.array(self.AXES[case["global_axis"]])
        weights = []
        for k in range(case["n_weights"]):
            gi = mi = None
            which = case["which"].split("+")[k] if "+" in case["which"] else case["which"]
            if which in ("global", "both", "other_dataset"):
                gi = (ext_real(S, f"glo{k}", case["kinds"][0]), ext_real(S, f"ghi{k}", case["kinds"][1]))
            if which in ("model", "both", "other_dataset"):
                mi = (ext_real(S, f"mlo{k}", case["kinds"][0]), ext_real(S, f"mhi{k}", case["kinds"][1]))
            ds = ["other"] if case["which"] == "other_dataset" else ["ds", "other"]
            weights.append(Weight(datasets=ds, global_interval=gi, model_interval=mi, value=S.real(f"v{k}")))
        dsw = S.real_array("dw", len(ma), len(ga)) if case["dataset_weight"] else None
        return ma, ga, weights, dsw

    def call(self, S, case, inp):
        from glotaran.optimization.data_provider import DataProvider

        ma, ga, weights, dsw = inp

        class _Model:
            pass

        model = _Model()
        model.weights = weights
        dp = DataProvider.__new__(DataProvider)
        dp._weight = {"ds": dsw}
        dp._model_axes = {"ds": ma}
        dp._global_axes = {"ds": ga}
        with warnings.catch_warnings(record=True) as w:
            warnings.simplefilter("always")
            dp.add_model_weight(model, "ds", "time", "spectral")
        return dp._weight["ds"], [str(x.message) for x in w]

    def observe(self, out):
        return out if isinstance(out, Raised) else (out[0], len(out[1]))

    def ensures(self, S, case, inp, out):
        ma, ga, weights, dsw = inp
        if isinstance(out, Raised):
            yield "no_exception", False
            return
        w, warns = out
        if case["dataset_weight"]:
            yield "dataset_weight_is_used_unchanged", w is dsw
            yield "exactly_one_warning", len(warns) == 1 and "already supplied by dataset" in warns[0]
            return
        yield "no_warning", len(warns) == 0
        if case["which"] == "other_dataset":
            yield "weight_of_other_dataset_not_applied", w is None
            return
        yield "weight_shape", w is not None and tuple(w.shape) == (len(ma), len(ga))
        if w is None:
            return
        for m in range(len(ma)):
            for g in range(len(ga)):
                must, may = [], []
                for wt in weights:
                    ins, near = True, True
                    if wt.global_interval is not None:
                        ins = L.and_(ins, inside(wt.global_interval, ga[g]))
                        near = L.and_(near, within_nearest(ga, g, wt.global_interval))
                    if wt.model_interval is not None:
                        ins = L.and_(ins, inside(wt.model_interval, ma[m]))
                        near = L.and_(near, within_nearest(ma, m, wt.model_interval))
                    must.append(ins)
                    may.append(near)
                # the cell equals the product over a set E of weights with must ⊆ E ⊆ may
                alts = []
                for E in itertools.product((False, True), repeat=len(weights)):
                    val = 1.0
                    conds = []
                    for k, wt in enumerate(weights):
                        if E[k]:
                            val = val * wt.value
                            conds.append(may[k])
                        else:
                            conds.append(L.not_(must[k]))
                    alts.append(L.and_(L.eq(w[m, g], val), *conds))
                yield f"cell_is_product_of_applicable_weights[{m},{g}]", L.or_(*alts)


# ----------------------------------------------------------------------------- interval items inside the provider pipeline
from contracts.c02_objective import Objective as _Objective  # noqa: E402


class IntervalItemsInThePipeline(_Objective):
    """Constraints, relations, equal-area penalties and model weights with intervals as the matrix providers apply them:
    at every global index exactly the items whose interval holds that axis value act (per index - the labels present at
    one index say nothing about another), relations before constraints.  Harness and reference of C02 `Objective`,
    restricted to the configurations that carry interval items."""

    prop = "C08"
    name = "IntervalItemsInThePipeline"

    def cases(self, tier):
        for case in super().cases(tier):
            cfg = case["_cfg"]
            if cfg.constraints or cfg.relations or cfg.penalties or cfg.model_weights:
                yield case

    def bounded_checks(self, tier, seed):
        return []
