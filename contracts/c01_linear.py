"""C01 - the linear sub-problem is solved optimally (variable projection and NNLS).

The LAPACK kernels and scipy.optimize.nnls are replaced by their contracts (trusted).  The matrix
and the data are introduced in Q-coordinates:  A = Q·[R;0],  b = Q·w  with Q (m x m), R (n x n,
upper triangular, non-zero diagonal) and w fresh - full domain for full-column-rank A because Q is
a bijection.  Orthogonality of Q only enters the *contract* of dormqr('T') (it returns w for b) and
the optimality lemma; every obligation on the glue code is a polynomial identity that holds for
arbitrary Q, so no orthogonality constraint has to be given to the solver.
"""
from __future__ import annotations

import numpy as np

from pyvc.contract import Contract, L, Raised
from pyvc.sym import SArr, SymReal, is_sym

MODS = ("glotaran.optimization.variable_projection", "glotaran.optimization.nnls", "glotaran.optimization.estimation_provider")


def _same(a, b):
    a = np.asarray(a, dtype=object).reshape(-1)
    b = np.asarray(b, dtype=object).reshape(-1)
    if a.shape != b.shape:
        return False
    return L.and_(*[L.eq(x, y) for x, y in zip(a, b)])


class _QR:
    """Token returned by the dgeqrf stub."""

    def __init__(self, owner):
        self.owner = owner
        self.shape = owner.A.shape


class LapackStub:
    """Contracts of dgeqrf / dormqr / dtrtrs over (Q, R, w); records every call."""

    def __init__(self, S, Q, R, w, A, b):
        self.S, self.Q, self.R, self.w, self.A, self.b = S, Q, R, w, A, b
        self.calls = []
        self.tau = object()
        self.c = None

    def dgeqrf(self, a, lwork=None, overwrite_a=0):
        self.calls.append(("dgeqrf", a, overwrite_a))
        ok = a.shape == self.A.shape
        self.calls[-1] += (ok,)
        if overwrite_a:
            # LAPACK contract: with overwrite_a the input may be replaced by the factorisation
            m, n = a.shape
            for i in range(m):
                for j in range(n):
                    a[i, j] = self.S.fresh("qrfactor")
        return _QR(self), self.tau, None, 0

    def dormqr(self, side, trans, a, tau, c, lwork, overwrite_c=0):
        c_in = np.array(c, dtype=object, copy=True)
        self.calls.append(("dormqr", side, trans, a, tau, c_in, lwork, overwrite_c))
        m = self.Q.shape[0]
        if trans == "T":
            # contract: Q^T c ; for c = b = Q w (Q orthogonal) this is w
            out = np.array(self.w, dtype=object, copy=True)
        else:
            out = np.empty(m, dtype=object)
            for i in range(m):
                acc = 0
                for k in range(m):
                    acc = acc + self.Q[i, k] * c_in[k]
                out[i] = acc
        if overwrite_c:
            for i in range(m):
                c[i] = out[i]
        return out.view(SArr), None, 0

    def dtrtrs(self, a, b, lower=0, trans=0, unitdiag=0, overwrite_b=0):
        b_in = np.array(b, dtype=object, copy=True)
        self.calls.append(("dtrtrs", a, b_in, lower, trans, unitdiag, overwrite_b))
        n = self.R.shape[0]
        m = len(b_in)
        x = np.empty(m, dtype=object)
        self.c = []
        for j in range(n):
            x[j] = self.S.fresh("clp")
            self.c.append(x[j])
        for j in range(n, m):
            x[j] = b_in[j]
        # contract: R x[:n] = b[:n]
        for i in range(n):
            self.S.require(L.eq(L.sum([self.R[i, j] * x[j] for j in range(i, n)]), b_in[i]), "dtrtrs: R x = b[:n]")
        return x.view(SArr), 0


class VariableProjection(Contract):
    prop = "C01"
    name = "VariableProjection"
    target = "glotaran.optimization.variable_projection:residual_variable_projection"
    modules = MODS
    trusted = (
        "scipy.linalg.lapack.dgeqrf: A = Q·[R;0], Q orthogonal, R upper triangular and invertible for full column rank; input untouched unless overwrite_a",
        "scipy.linalg.lapack.dormqr('L','T',qr,tau,c) = Q^T c ; dormqr('L','N',qr,tau,c) = Q c ; c untouched unless overwrite_c",
        "scipy.linalg.lapack.dtrtrs(qr, b): x[:n] solves R x[:n] = b[:n], x[n:] = b[n:]",
        "the step from O1-O5 + the LAPACK contracts to `A^T·residual = 0` and `clp minimises ||b - A·clp||` is the Lean theorem PyVC.vp_minimises (lemmas/LeastSquares.lean, all m, n; re-checked every run), its hypotheses being exactly the discharged obligations O3, O5, residual_is_data_minus_matrix_times_clp and Q^T Q = 1 from the dgeqrf contract",
    )
    strength = "S"
    agreement_runs = 0
    not_decided = ("that LAPACK honours its contract in floating point at condition numbers up to 1e10 (bounded stand-in reports it, never counted as proved)",)

    def cases(self, tier):
        top = 5 if tier == "quick" else 7
        for m in range(1, top + 1):
            for n in range(1, min(m, 3 if tier == "quick" else 4) + 1):
                yield {"m": m, "n": n}

    def build(self, S, case):
        m, n = case["m"], case["n"]
        Q = S.real_array("q", m, m)
        R = np.empty((n, n), dtype=object)
        for i in range(n):
            for j in range(n):
                R[i, j] = S.real(f"r_{i}_{j}") if j >= i else 0.0
            S.require(L.not_(L.eq(R[i, i], 0.0)), "R invertible (full column rank)")
        w = S.real_array("w", m)
        A = np.empty((m, n), dtype=object)
        for i in range(m):
            for j in range(n):
                A[i, j] = L.sum([Q[i, k] * R[k, j] for k in range(j + 1)])
        b = np.empty(m, dtype=object)
        for i in range(m):
            b[i] = L.sum([Q[i, k] * w[k] for k in range(m)])
        if S.symbolic:
            A, b = A.view(SArr), b.view(SArr)
        else:
            A, b = A.astype(float), b.astype(float)
        return {"Q": Q, "R": R, "w": w, "A": A, "b": b, "A0": np.array(A, dtype=object, copy=True), "b0": np.array(b, dtype=object, copy=True)}

    def stubs_for(self, S, case, inp):
        if not S.symbolic:
            return {}
        stub = LapackStub(S, inp["Q"], inp["R"], inp["w"], inp["A"], inp["b"])
        inp["stub"] = stub

        class _Lapack:
            dgeqrf = staticmethod(stub.dgeqrf)
            dormqr = staticmethod(stub.dormqr)
            dtrtrs = staticmethod(stub.dtrtrs)

        return {"glotaran.optimization.variable_projection:lapack": _Lapack}

    def call(self, S, case, inp):
        from glotaran.optimization.variable_projection import residual_variable_projection

        return residual_variable_projection(inp["A"], inp["b"])

    def observe(self, out):
        return out

    def ensures(self, S, case, inp, out):
        m, n = case["m"], case["n"]
        if isinstance(out, Raised):
            yield "no_exception", False
            return
        clp, residual = out
        A0, b0 = inp["A0"], inp["b0"]
        yield "clp_has_one_entry_per_column", len(clp) == n
        yield "residual_has_one_entry_per_row", len(residual) == m
        if len(clp) != n or len(residual) != m:
            return
        # frame: the caller's matrix and data are unchanged (they are reused for further indices)
        yield "frame_matrix_unchanged", _same(inp["A"], A0)
        yield "frame_data_unchanged", _same(inp["b"], b0)
        yield "residual_is_data_minus_matrix_times_clp", L.and_(
            *[L.eq(residual[i], b0[i] - L.sum([A0[i, j] * clp[j] for j in range(n)])) for i in range(m)]
        )
        if not S.symbolic:
            # native replay: the same statements plus optimality against an independent solver
            ref, *_ = np.linalg.lstsq(np.asarray(A0, dtype=float), np.asarray(b0, dtype=float), rcond=None)
            yield "clp_is_least_squares_minimiser", bool(np.allclose(np.asarray(clp, dtype=float), ref, rtol=1e-6, atol=1e-8))
            yield "residual_orthogonal_to_columns", bool(np.allclose(np.asarray(A0, dtype=float).T @ np.asarray(residual, dtype=float), 0, atol=1e-7 * (1 + np.abs(np.asarray(b0, dtype=float)).max())))
            return
        stub = inp["stub"]
        kinds = [c[0] for c in stub.calls]
        yield "lapack_call_sequence", kinds == ["dgeqrf", "dormqr", "dtrtrs", "dormqr"]
        if kinds != ["dgeqrf", "dormqr", "dtrtrs", "dormqr"]:
            return
        c0, c1, c2, c3 = stub.calls
        yield "O0_factorises_the_matrix", L.and_(bool(c0[3]), _same(c0[1], inp["A"]))
        yield "O1a_first_dormqr_applies_Qt_to_the_data", L.and_(c1[1] == "L" and c1[2] == "T" and isinstance(c1[3], _QR) and c1[4] is stub.tau, _same(c1[5], b0))
        yield "O1b_triangular_solve_on_Qt_data", L.and_(isinstance(c2[1], _QR) and not c2[3] and not c2[4] and not c2[5], _same(c2[2], inp["w"]))
        yield "O1c_clp_is_the_triangular_solution", _same(clp, stub.c)
        want_temp = [0.0] * n + [inp["w"][k] for k in range(n, m)]
        yield "O2_projected_vector_has_first_n_entries_zero_rest_Qt_data", _same(c3[5], want_temp)
        yield "O3_second_dormqr_applies_Q_with_same_factorisation", c3[1] == "L" and c3[2] == "N" and isinstance(c3[3], _QR) and c3[4] is stub.tau
        # O5: orthogonality in Q-coordinates: [R;0]^T temp = 0
        yield "O5_residual_orthogonal_to_columns_in_Q_coordinates", L.and_(
            *[L.eq(L.sum([inp["R"][k, j] * c3[5][k] for k in range(n)]), 0.0) for j in range(n)]
        )

    def bounded_checks(self, tier, seed):
        """B: the same contract evaluated natively on ill-conditioned kinetic matrices (never counted as proved)."""
        from glotaran.optimization.nnls import residual_nnls
        from glotaran.optimization.variable_projection import residual_variable_projection

        rng = np.random.default_rng(seed)
        out = []
        t = np.linspace(0, 10, 200)
        eps = np.finfo(float).eps
        for cond_target, rates in [(1, [1.0]), (1e2, [1.0, 0.3]), (1e5, [1.0, 0.9, 0.1]), (1e8, [1.0, 0.999, 0.5, 0.05]), (1e10, [1.0, 0.9999, 0.9, 0.5, 0.1, 0.01])]:
            A = np.exp(-np.outer(t, rates))
            if len(rates) > 2:
                A[:, -1] = A[:, 0] * np.cos(3 * t)
            cond = np.linalg.cond(A)
            for kind in ("column_space", "orthogonal", "generic", "huge", "tiny", "negative_column"):
                x = rng.uniform(0.5, 2, len(rates))
                A0 = A
                if kind == "negative_column":
                    # a bleach-like column that is negative everywhere (NNLS must still find the constrained optimum)
                    A = A0.copy()
                    A[:, 0] = -A[:, 0]
                if kind == "column_space":
                    b = A @ x
                elif kind == "orthogonal":
                    g = rng.normal(size=len(t))
                    b = g - A @ np.linalg.lstsq(A, g, rcond=None)[0]
                else:
                    b = A @ x + rng.normal(size=len(t))
                    b = b * {"generic": 1.0, "huge": 1e12, "tiny": 1e-12, "negative_column": 1.0}[kind]
                for fname, fn in (("variable_projection", residual_variable_projection), ("nnls", residual_nnls)):
                    try:
                        clp, res = fn(A.copy(), b.copy())
                        scale = np.abs(b).max() + np.abs(A).max() * np.abs(clp).max()
                        e1 = np.abs(res - (b - A @ clp)).max() / max(scale, 1e-300)
                        ok = bool(e1 < 1e3 * eps * max(cond, 1.0) ** 0.5 + 1e-9)
                        if fname == "variable_projection":
                            ortho = np.abs(A.T @ res).max() / max(np.linalg.norm(b) * np.linalg.norm(A, 2), 1e-300)
                            ok = ok and bool(ortho < 1e-8)
                        else:
                            g = A.T @ res
                            ok = ok and bool((clp >= 0).all()) and bool((g[clp == 0] <= 1e-6 * (1 + np.abs(g).max())).all())
                        wit = None if ok else {"cond": float(cond), "kind": kind, "err": float(e1)}
                    except Exception as e:
                        ok, wit = False, {"cond": float(cond), "kind": kind, "exception": repr(e)}
                    if fname == "nnls" and ok:
                        # independent optimum: scipy's nnls on the same problem, compared through the residual norm
                        from scipy.optimize import nnls as _nnls

                        ref_norm = _nnls(A.copy(), b.copy())[1]
                        ok = bool(np.linalg.norm(res) <= ref_norm * (1 + 1e-6) + 1e-12 * np.linalg.norm(b))
                        if not ok:
                            wit = {"cond": float(cond), "kind": kind, "residual_norm": float(np.linalg.norm(res)), "optimal_norm": float(ref_norm)}
                    out.append({"name": f"bounded_{fname}", "ok": ok, "case": f"cond~{cond_target:g},{kind}", "function": fname, "witness": wit, "detail": "run-time evaluation of the C01 contract on ill-conditioned kinetic matrices (bounded stand-in)"})
                A = A0
        # memory layout and dtype of the inputs as the providers may hand them over (data files hold float32 / integer
        # counts; matrices come as Fortran-ordered arrays, transposed or column-sliced views, read-only arrays): the
        # result is the least-squares solution for the *values* of the inputs, and the inputs are left as they were
        tt = np.linspace(0, 5, 30)
        base = np.exp(-np.outer(tt, [1.0, 0.35, 0.05]))
        wide = np.exp(-np.outer(tt, [1.0, 0.7, 0.35, 0.2, 0.05, 0.01]))
        layouts = {
            "c_contiguous": lambda: np.ascontiguousarray(base),
            "fortran": lambda: np.asfortranarray(base),
            "transposed_view": lambda: np.ascontiguousarray(base.T).T,
            "column_slice": lambda: wide[:, ::2],
            "read_only": lambda: _read_only(base.copy()),
        }
        truth = np.array([2.0, 1.0, 3.0])
        for lname, make in layouts.items():
            for dname, cast in (("float64", lambda v: v), ("float32", lambda v: v.astype(np.float32)), ("int64", lambda v: np.rint(v * 100).astype(np.int64)), ("int32", lambda v: np.rint(v * 100).astype(np.int32)), ("strided_view", lambda v: np.repeat(v, 2)[::2]), ("read_only", lambda v: _read_only(v.copy()))):
                for fname, fn in (("variable_projection", residual_variable_projection), ("nnls", residual_nnls)):
                    M = make()
                    d = cast(M @ truth + 0.05 * np.sin(7 * tt))
                    M_before, d_before = np.array(M, dtype=float, copy=True), np.array(d, copy=True)
                    Mf, df = M_before, np.array(d, dtype=float)
                    try:
                        clp, res = fn(M, d)
                        clp, res = np.asarray(clp, dtype=float), np.asarray(res, dtype=float)
                        scale = np.abs(df).max()
                        ok = bool(np.abs(res - (df - Mf @ clp)).max() <= 1e-9 * scale)
                        if fname == "variable_projection":
                            ok = ok and bool(np.abs(Mf.T @ res).max() <= 1e-8 * scale * np.linalg.norm(Mf, 2))
                        else:
                            g = Mf.T @ res
                            ok = ok and bool((clp >= 0).all()) and bool((g[clp == 0] <= 1e-6 * (1 + np.abs(g).max())).all()) and bool(np.abs(g[clp > 0]).max(initial=0.0) <= 1e-6 * scale * np.linalg.norm(Mf, 2))
                        ok = ok and np.array_equal(np.asarray(M, dtype=float), M_before) and np.array_equal(d, d_before) and d.dtype == d_before.dtype
                        wit = None if ok else {"matrix_layout": lname, "data": dname, "clp": clp.tolist(), "least_squares_clp": np.linalg.lstsq(Mf, df, rcond=None)[0].tolist()}
                    except Exception as e:
                        ok, wit = False, {"matrix_layout": lname, "data": dname, "exception": repr(e)}
                    out.append({"name": f"bounded_{fname}_layout_and_dtype", "ok": ok, "case": f"matrix={lname},data={dname}", "function": fname, "witness": wit, "detail": "run-time evaluation of the C01 contract on inputs of other memory layouts and dtypes (bounded stand-in)"})
        return out


def _read_only(a):
    a.setflags(write=False)
    return a


def _vp_sweep(self, tier, seed):
    from contracts.common import native_sweep

    return native_sweep(self, [{"m": m, "n": n} for m, n in ((12, 5), (40, 9), (9, 9))], seed=seed)


_vp_bounded = VariableProjection.bounded_checks
VariableProjection.bounded_checks = lambda self, tier, seed: _vp_bounded(self, tier, seed) + _vp_sweep(self, tier, seed)


class Nnls(Contract):
    prop = "C01"
    name = "Nnls"
    target = "glotaran.optimization.nnls:residual_nnls"
    modules = MODS
    trusted = (
        "scipy.optimize.nnls(A, b) returns (x, rnorm) with x >= 0 satisfying the KKT conditions of min ||A x - b|| s.t. x >= 0",
        "that a KKT point is a minimiser over x >= 0 is the Lean theorem PyVC.nnls_kkt_optimal (lemmas/LeastSquares.lean, all m, n; re-checked every run)",
    )
    strength = "S"
    agreement_runs = 0

    def cases(self, tier):
        top = 5 if tier == "quick" else 7
        for m in range(1, top + 1):
            for n in range(1, min(m, 3 if tier == "quick" else 4) + 1):
                yield {"m": m, "n": n}

    def build(self, S, case):
        m, n = case["m"], case["n"]
        A = S.real_array("a", m, n)
        b = S.real_array("b", m)
        return {"A": A, "b": b, "A0": np.array(A, dtype=object, copy=True), "b0": np.array(b, dtype=object, copy=True)}

    def stubs_for(self, S, case, inp):
        if not S.symbolic:
            return {}
        calls = []
        inp["calls"] = calls

        def nnls(A, b, maxiter=None, **kw):
            calls.append((A, b, np.array(A, dtype=object, copy=True), np.array(b, dtype=object, copy=True)))
            n = A.shape[1]
            x = np.empty(n, dtype=object)
            for j in range(n):
                x[j] = S.fresh("x")
                S.require(L.ge(x[j], 0), "nnls: x >= 0")
            inp["x"] = x
            return x.view(SArr), S.fresh("rnorm")

        return {"glotaran.optimization.nnls:nnls": nnls}

    def call(self, S, case, inp):
        from glotaran.optimization.nnls import residual_nnls

        return residual_nnls(inp["A"], inp["b"])

    def ensures(self, S, case, inp, out):
        m, n = case["m"], case["n"]
        if isinstance(out, Raised):
            yield "no_exception", False
            return
        clp, residual = out
        A0, b0 = inp["A0"], inp["b0"]
        yield "shapes", len(clp) == n and len(residual) == m
        if len(clp) != n or len(residual) != m:
            return
        yield "frame_matrix_unchanged", _same(inp["A"], A0)
        yield "frame_data_unchanged", _same(inp["b"], b0)
        yield "residual_is_data_minus_matrix_times_clp", L.and_(*[L.eq(residual[i], b0[i] - L.sum([A0[i, j] * clp[j] for j in range(n)])) for i in range(m)])
        if not S.symbolic:
            x = np.asarray(clp, dtype=float)
            g = np.asarray(A0, dtype=float).T @ np.asarray(residual, dtype=float)
            yield "kkt_conditions", bool((x >= 0).all() and (g[x == 0] <= 1e-7 * (1 + np.abs(g).max())).all() and np.allclose(g[x > 0], 0, atol=1e-7 * (1 + np.abs(np.asarray(b0, dtype=float)).max())))
            return
        calls = inp["calls"]
        yield "nnls_called_once_with_matrix_and_data", L.and_(len(calls) == 1, _same(calls[0][2], A0), _same(calls[0][3], b0)) if calls else False
        yield "clp_is_the_nnls_solution_unchanged", _same(clp, inp["x"])
        yield "clp_non_negative", L.and_(*[L.ge(c, 0) for c in clp])


class Dispatch(Contract):
    prop = "C01"
    name = "Dispatch"
    target = "glotaran.optimization.estimation_provider:EstimationProvider.calculate_residual"
    functions = ("glotaran.optimization.estimation_provider:EstimationProvider.__init__",)
    strength = "U"

    def cases(self, tier):
        return iter(())

    def static_obligations(self, tier):
        from glotaran.optimization import estimation_provider as ep
        from glotaran.optimization.nnls import residual_nnls
        from glotaran.optimization.variable_projection import residual_variable_projection

        res = []
        table = ep.SUPPORTED_RESIUDAL_FUNCTIONS
        res.append({"name": "dispatch_table", "ok": table.get("variable_projection") is residual_variable_projection and table.get("non_negative_least_squares") is residual_nnls and len(table) == 2, "detail": f"keys={list(table)}", "function": "SUPPORTED_RESIUDAL_FUNCTIONS"})

        class G:
            def __init__(self, rf):
                self.residual_function = rf

        for key, fn in (("variable_projection", residual_variable_projection), ("non_negative_least_squares", residual_nnls)):
            p = ep.EstimationProvider(G(key))
            res.append({"name": f"provider_binds_{key}", "ok": p._residual_function is fn, "detail": "", "function": "EstimationProvider.__init__"})
            log = []
            p._residual_function = lambda m, d: (log.append((m, d)), ("clp", "res"))[1]
            A, b = object(), object()
            r = p.calculate_residual(A, b)
            res.append({"name": f"calculate_residual_forwards_arguments_and_result[{key}]", "ok": len(log) == 1 and log[0][0] is A and log[0][1] is b and r == ("clp", "res"), "detail": "", "function": "EstimationProvider.calculate_residual"})
            # histories: the result of a call is the residual function's value for that call's arguments, whatever was
            # asked before (a memo keyed by object identity, shape or *closeness* of earlier arguments is wrong; one
            # keyed by the exact contents would be right and passes): same matrix object, equal and nearly equal data
            # (tiny scale, within np.allclose of each other), another matrix in between, data mutated in place
            import numpy as np

            p = ep.EstimationProvider(G(key))

            def stub(m, d):
                k = hash((np.asarray(m).tobytes(), np.asarray(d).tobytes()))
                return ("clp", k), ("res", k)

            p._residual_function = stub
            M1, M2 = np.ones((3, 2)), np.ones((3, 2)) * 2.0
            d = np.array([1e-9, 2e-9, 3e-9])
            hist = [(M1, d.copy()), (M1, d * 1.5), (M1, d.copy()), (M2, d.copy()), (M1, d * (1 + 1e-7)), (M1, np.zeros(3)), (M1, np.full(3, 1e-12)), (M1, d.copy())]
            ok, detail = True, ""
            for k, (m, dd) in enumerate(hist):
                if p.calculate_residual(m, dd) != stub(m, dd):
                    ok, detail = False, f"call {k} of the history was not answered with the residual function's value for its own arguments"
                    break
            if ok:
                buf = d.copy()
                p.calculate_residual(M1, buf)
                buf *= 3.0  # same data object, new content
                ok = p.calculate_residual(M1, buf) == stub(M1, buf)
                detail = "" if ok else "data object mutated in place between calls answered from an earlier call"
            if ok:
                Mm = np.ones((3, 2))
                p.calculate_residual(Mm, d)
                Mm[0, 0] = 5.0  # same matrix object, new content
                ok = p.calculate_residual(Mm, d) == stub(Mm, d)
                detail = "" if ok else "matrix object mutated in place between calls answered from an earlier call"
            res.append({"name": f"calculate_residual_is_history_independent[{key}]", "ok": ok, "detail": detail, "function": "EstimationProvider.calculate_residual", "strength": "B"})
        try:
            ep.EstimationProvider(G("least_absolute"))
            ok = False
        except ep.UnsupportedResidualFunctionError as e:
            ok = "least_absolute" in str(e)
        except Exception:
            ok = False
        res.append({"name": "unknown_residual_function_rejected", "ok": ok, "detail": "", "function": "EstimationProvider.__init__"})
        return res


class OptimalityLemmaSmall(Contract):
    """The stated lemma machine-checked at the sizes the solver can bear (sanity, not the general proof):
    Q orthogonal, A = Q[R;0], b = Qw, R c = w[:n]  =>  A^T(b - A c) = 0  and  ||b - A c'|| >= ||b - A c|| for every c'."""

    prop = "C01"
    name = "OptimalityLemmaSmall"
    target = "glotaran.optimization.variable_projection:residual_variable_projection"
    strength = "S"
    agreement_runs = 0
    trusted = ("z3 cross-check of the statement proved in Lean, at the sizes nlsat can bear ((2,2) and (3,1) are `unknown`); the general proof is OptimalityLemmas",)

    def cases(self, tier):
        yield {"m": 1, "n": 1}
        yield {"m": 2, "n": 1}

    def build(self, S, case):
        m, n = case["m"], case["n"]
        Q = S.real_array("q", m, m)
        for a in range(m):
            for b_ in range(a, m):
                S.require(L.eq(L.sum([Q[i, a] * Q[i, b_] for i in range(m)]), 1.0 if a == b_ else 0.0), "Q orthogonal")
        R = [[S.real(f"r_{i}_{j}") if j >= i else 0.0 for j in range(n)] for i in range(n)]
        for i in range(n):
            S.require(L.not_(L.eq(R[i][i], 0.0)), "R invertible")
        w = S.real_array("w", m)
        c = S.real_array("c", n)
        cp = S.real_array("cp", n)
        for i in range(n):
            S.require(L.eq(L.sum([R[i][j] * c[j] for j in range(n)]), w[i]), "R c = w[:n]")
        return {"Q": Q, "R": R, "w": w, "c": c, "cp": cp}

    def call(self, S, case, inp):
        return None

    def ensures(self, S, case, inp, out):
        m, n = case["m"], case["n"]
        Q, R, w, c, cp = inp["Q"], inp["R"], inp["w"], inp["c"], inp["cp"]
        A = [[L.sum([Q[i, k] * R[k][j] for k in range(n)]) for j in range(n)] for i in range(m)]
        b = [L.sum([Q[i, k] * w[k] for k in range(m)]) for i in range(m)]
        res = [b[i] - L.sum([A[i][j] * c[j] for j in range(n)]) for i in range(m)]
        rp = [b[i] - L.sum([A[i][j] * cp[j] for j in range(n)]) for i in range(m)]
        yield "residual_orthogonal_to_every_column", L.and_(*[L.eq(L.sum([A[i][j] * res[i] for i in range(m)]), 0.0) for j in range(n)])
        yield "no_other_clp_gives_a_smaller_residual_norm", L.ge(L.sum([x * x for x in rp]), L.sum([x * x for x in res]))


class OptimalityLemmas(Contract):
    """The mathematics between the glue-code obligations and the property, proved for every m and n in
    Lean 4 + Mathlib (`lemmas/LeastSquares.lean`) and re-checked by `lean` on every run:

    * `vp_minimises`: Q^T Q = 1, [R;0]^T temp = 0 (O5), residual = Q temp (O3 + dormqr contract) and
      residual = b - A clp with A = Q [R;0]  imply  ||b - A clp|| <= ||b - A x|| for every x
      (through `vp_orthogonal_of_q_coordinates`: A^T residual = 0);
    * `nnls_kkt_optimal`: w = A^T (b - A x) <= 0 and x_j w_j = 0  imply  ||b - A x|| <= ||b - A y|| for every y >= 0.
    """

    prop = "C01"
    name = "OptimalityLemmas"
    lemma_files = (__import__("pathlib").Path(__file__).resolve().parent.parent / "lemmas" / "LeastSquares.lean",)
    target = None
    strength = "U"
    trusted = ("Lean 4.33 kernel and Mathlib (definitions of Matrix.mulVec, dotProduct, transpose); axioms propext, Classical.choice, Quot.sound",)

    def cases(self, tier):
        return iter(())

    def static_obligations(self, tier):
        from pathlib import Path

        from pyvc.lean import check_lemmas

        return check_lemmas(
            Path(__file__).resolve().parent.parent / "lemmas" / "LeastSquares.lean",
            {
                "PyVC.vp_minimises": "lemma_orthogonal_residual_in_q_coordinates_minimises_for_all_m_n",
                "PyVC.vp_end_to_end": "lemma_all_sizes_obligations_O0_O3_and_lapack_contracts_give_residual_identity_orthogonality_and_optimality",
                "PyVC.nnls_kkt_optimal": "lemma_kkt_point_minimises_over_nonnegative_clp_for_all_m_n",
            },
        )


# ----------------------------------------------------------------------------- which matrix meets which data column
from contracts.c02_objective import Objective as _Objective  # noqa: E402


class PairingAtIndex(_Objective):
    """What the providers hand to `calculate_residual`: at every (aligned) global index the matrix of *that* index - the
    own slice of an index-dependent matrix, also for datasets linked forward / backward or within a large tolerance -
    together with the data column of that index, solved by the residual function of the dataset's own group.  Harness
    and reference of C02 `Objective`, on the configurations where the pairing is not trivial."""

    prop = "C01"
    name = "PairingAtIndex"
    CONFIGS = ("one_dep_weight_gm", "two_tol_forward", "two_tol_backward", "two_tol_forward_dep", "two_tol_dense_second", "linked_dep_before_indep", "two_groups", "groups_interleaved_linked", "nnls")

    def cases(self, tier):
        for case in super().cases(tier):
            if case["cfg"] in self.CONFIGS:
                yield case

    def case_id(self, case):
        return super().case_id(case) + (f",data_scale={case['data_scale']:g}" if "data_scale" in case else "")

    def bounded_checks(self, tier, seed):
        """B: the full-model path (Kronecker matrix against the flattened data) natively at data scales from 1e-10 to 1e6: the
        linear problem is solved for the data as they are, whatever their magnitude."""
        from contracts import configs
        from contracts.common import native_sweep

        cfgs = [c for c in configs.configs("quick") if c.name in ("full_model", "full_model_same_labels", "full_model_and_plain")]
        cases = [{"cfg": c.name, "_cfg": c, "data_scale": sc} for c in cfgs for sc in (1.0, 1e6, 1e-6, 1e-10)]

        def env(case, rng):
            e = {}
            for ds in case["_cfg"].datasets:
                for m in range(len(ds.model_axis)):
                    for g in range(len(ds.global_axis)):
                        e[f"d_{ds.label}_{m}_{g}"] = round(rng.uniform(-2, 2), 3) * case["data_scale"]
            return e

        return native_sweep(self, cases, envs=env, tries=2, seed=seed, name="bounded_full_model_solved_at_every_data_scale")


class ReportedClpsGiveTheResidual(Contract):
    """"The residual that enters the fit equals exactly data - matrix*clp" for the clps as they are *reported*: where
    constraints and relations reduce the matrix before the solve, `retrieve_clps` rebuilds the full clp vector (a target
    is parameter × source at the indices where its relation applies, zero where a constraint removed it, the estimate
    otherwise) and data - scale·matrix·clp over the full labels must again be the residual of the solve.  The C03
    result obligations that carry this, on the configurations where a clp label is missing from the reduced matrix for
    more than one reason (a relation limited to an interval and a zero constraint on its target elsewhere, a relation
    whose source is constrained, two relations on one target, linked groups)."""

    prop = "C01"
    name = "ReportedClpsGiveTheResidual"
    target = "glotaran.optimization.estimation_provider:EstimationProvider.retrieve_clps"
    functions = (
        "glotaran.optimization.estimation_provider:EstimationProviderUnlinked.calculate",
        "glotaran.optimization.estimation_provider:EstimationProviderLinked.calculate",
        "glotaran.optimization.matrix_provider:MatrixProvider.reduce_matrix",
    )
    strength = "S"
    agreement_runs = 0
    CONFIGS = (
        "relation_first_index_zero_later_dep", "relation_and_zero_same_target", "relation_and_zero_same_target_linked", "relation_zero_linked",
        "relation_source_zero", "relation_source_zero_linked", "two_relations_same_target", "two_relations_same_target_linked",
        "linked_tol_interval_at_aligned_value", "relation", "nnls",
    )
    KEEP = (
        "no_exception", "number_of_linear_solves", "every_index_of_dataset_is_solved", "residual_is_unweighted_solve_residual_of_own_block",
        "data_is_fitted_plus_residual", "fitted_data_is_scale_matrix_clp", "constrained_clps_are_zero", "clps_by_label_and_relations",
    )

    def _inner(self):
        from contracts.c03_results import ResultData

        return ResultData()

    @property
    def modules(self):
        return self._inner().modules

    @property
    def trusted(self):
        return self._inner().trusted

    def cases(self, tier):
        seen = set()
        for case in self._inner().cases(tier):
            if case["cfg"] in self.CONFIGS:
                seen.add(case["cfg"])
                yield case
        assert seen, "no configuration selected"

    def case_id(self, case):
        return f"cfg={case['cfg']}"

    def build(self, S, case):
        return self._inner().build(S, case)

    def call(self, S, case, b):
        return self._inner().call(S, case, b)

    def observe(self, out):
        return None

    def ensures(self, S, case, b, out):
        n = 0
        for name, cond in self._inner().ensures(S, case, b, out):
            if name.startswith(self.KEEP):
                n += 1
                yield name, cond
        if n == 0:
            yield "reported_clp_obligations_generated", False
