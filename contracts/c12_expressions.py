"""C12 - expression parameters always equal their expression.

Real Parameters / Parameter / asteval on symbolic values; every acyclic dependency graph over
<= 3 (quick) / 4 (thorough) parameters, every declaration order.
"""
from __future__ import annotations

import itertools

import numpy as np

from pyvc.contract import Contract, L, Raised
from pyvc.sym import SArr, SymReal

MODS = ("glotaran.parameter.parameter", "glotaran.parameter.parameters", "glotaran.parameter.parameter_history")

LABEL_SETS = {
    "plain": ["g.a", "g.b", "h.1", "k.x.2", "m"],
    # labels that are proper prefixes of one another (`$k.1` is a substring of `$k.10`): references must be resolved by
    # whole labels, in either direction of the dependency order
    "prefix_up": ["k.1", "k.10", "k.100", "k.1000", "k.10000"],
    "prefix_down": ["k.10000", "k.1000", "k.100", "k.10", "k.1"],
}
LABELS = LABEL_SETS["plain"]

FORMS1 = [
    ("${0} * 2", lambda x: x * 2),
    ("exp(${0})", lambda x: L.fn("exp", x)),
    ("1 - ${0}", lambda x: 1 - x),
]
FORMS2 = [
    ("${0} + ${1}", lambda x, y: x + y),
    ("${0} * ${1} - 3", lambda x, y: x * y - 3),
    ("${0} / ${1}", lambda x, y: x / y),
]


def graphs(n):
    """All DAGs in topological numbering: node i depends on a subset (size <= 2) of nodes < i."""
    opts = []
    for i in range(n):
        o = [()]
        o += list(itertools.combinations(range(i), 1))
        o += list(itertools.permutations(range(i), 2))  # both orders of appearance in the expression
        opts.append(o)
    for choice in itertools.product(*opts):
        if any(choice):
            yield choice


class Expressions(Contract):
    prop = "C12"
    name = "Expressions"
    target = "glotaran.parameter.parameters:Parameters.update_parameter_expression"
    functions = (
        "glotaran.parameter.parameters:Parameters.__init__",
        "glotaran.parameter.parameters:Parameters.set_from_label_and_value_arrays",
        "glotaran.parameter.parameters:Parameters.get_label_value_and_bounds_arrays",
        "glotaran.parameter.parameters:Parameters.copy",
        "glotaran.parameter.parameter:set_transformed_expression",
    )
    modules = MODS
    trusted = ("asteval.Interpreter evaluates the transformed expression with Python's operators and numpy's exp (executed for real on symbolic values)",)
    strength = "S"
    agreement_runs = 0
    not_decided = ("loading from yml / csv (C16, not applicable)",)

    def cases(self, tier):
        n_max = 3 if tier == "quick" else 4
        k = 0
        for n in range(2, n_max + 1):
            for g in graphs(n):
                orders = list(itertools.permutations(range(n)))
                for order in orders:
                    k += 1
                    yield {"n": n, "deps": g, "order": order, "form": k % 3}
                    if n == 3:
                        for labs in ("prefix_up", "prefix_down"):
                            yield {"n": n, "deps": g, "order": order, "form": k % 3, "labels": labs}
        if tier == "quick":
            # diamonds of expression parameters: an expression referencing two expression parameters one of
            # which references the other, both orders of appearance, every declaration order
            for g in (((), (0,), (1,), (2, 1)), ((), (0,), (1,), (1, 2)), ((), (0,), (0, 1), (2, 1)), ((), (0,), (1, 0), (1, 2))):
                for order in itertools.permutations(range(4)):
                    k += 1
                    yield {"n": 4, "deps": g, "order": order, "form": k % 3}
        # expression parameters that carry the non-negative flag (or bounds): their value is still exactly the value of the
        # expression, whatever its sign - the flags only matter for free parameters
        for g in (((), (0,), (1,)), ((), (0,), (0, 1))):
            for order in ((0, 1, 2), (2, 1, 0)):
                k += 1
                yield {"n": 3, "deps": g, "order": order, "form": k % 3, "flags": "non_negative"}
        # one 5-parameter chain declared in reverse (deep dependency)
        yield {"n": 5, "deps": ((), (0,), (1,), (2,), (3,)), "order": (4, 3, 2, 1, 0), "form": 0}
        yield {"n": 5, "deps": ((), (0,), (0, 1), (1, 2), (2, 3)), "order": (3, 4, 1, 2, 0), "form": 1}

    def _spec(self, case, base):
        """Values of all parameters as a function of the free ones (spec evaluator)."""
        vals = {}
        for i in range(case["n"]):
            d = case["deps"][i]
            if not d:
                vals[i] = base[i]
            elif len(d) == 1:
                vals[i] = FORMS1[(case["form"] + i) % 3][1](vals[d[0]])
            else:
                vals[i] = FORMS2[(case["form"] + i) % 3][1](vals[d[0]], vals[d[1]])
        return vals

    def build(self, S, case):
        from glotaran.parameter import Parameter, Parameters

        n = case["n"]
        base = {i: S.real(f"v_{i}") for i in range(n)}
        new = {i: S.real(f"n_{i}") for i in range(n)}
        stale = {i: S.real(f"stale_{i}") for i in range(n)}
        pars = {}
        LAB = LABEL_SETS[case.get("labels", "plain")]
        for i in case["order"]:
            d = case["deps"][i]
            lab = LAB[i]
            if not d:
                pars[lab] = Parameter(label=lab, value=base[i])
            else:
                form = FORMS1[(case["form"] + i) % 3][0] if len(d) == 1 else FORMS2[(case["form"] + i) % 3][0]
                expr = form.format(*[LAB[j] for j in d]).replace("${", "$").replace("}", "")
                expr = form
                for pos, j in enumerate(d):
                    expr = expr.replace("${" + str(pos) + "}", "$" + LAB[j])
                # expression parameters start with an arbitrary (stale) value
                pars[lab] = Parameter(label=lab, value=stale[i], expression=expr, **({"non_negative": True, "minimum": 0.5} if case.get("flags") == "non_negative" else {}))
        return {"pars": pars, "base": base, "new": new}

    def call(self, S, case, inp):
        from glotaran.parameter import Parameters

        n = case["n"]
        P = Parameters(inp["pars"])
        LAB = LABEL_SETS[case.get("labels", "plain")]
        snap = lambda Q: {i: Q.get(LAB[i]).value for i in range(n)}  # noqa: E731
        after_init = snap(P)
        P.update_parameter_expression()
        after_second = snap(P)
        C = P.copy()
        after_copy = snap(C)
        free = [i for i in range(n) if not case["deps"][i]]
        labels = [LAB[i] for i in case["order"] if i in free]
        arr = np.array([inp["new"][LAB.index(l)] for l in labels], dtype=object if S.symbolic else float)
        P.set_from_label_and_value_arrays(labels, arr.view(SArr) if S.symbolic else arr)
        after_set = snap(P)
        if case.get("flags") == "non_negative":
            # (the optimiser-space export of a non-negative parameter is its logarithm: compare the values themselves)
            exported = snap(P)
        else:
            _, values, _, _ = P.get_label_value_and_bounds_arrays()
            exported = {LAB.index(p.label): values[k] for k, p in enumerate(P.all())}
        copy_untouched = snap(C)
        return {"init": after_init, "second": after_second, "copy": after_copy, "set": after_set, "exported": exported, "copy_after_set": copy_untouched, "vary": {i: P.get(LAB[i]).vary for i in range(n)}}

    def observe(self, out):
        return out if isinstance(out, Raised) else None

    def ensures(self, S, case, inp, out):
        if isinstance(out, Raised):
            yield "no_exception", False
            return
        n = case["n"]
        spec0 = self._spec(case, inp["base"])
        newbase = {i: inp["new"][i] for i in range(n)}
        spec1 = self._spec(case, newbase)
        eq = lambda got, want: L.and_(*[L.eq(got[i], want[i]) for i in range(n)])  # noqa: E731
        yield "value_equals_expression_after_construction", eq(out["init"], spec0)
        yield "second_update_changes_nothing", eq(out["second"], spec0)
        yield "value_equals_expression_after_copy", eq(out["copy"], spec0)
        yield "value_equals_expression_after_value_update", eq(out["set"], spec1)
        yield "exported_array_is_consistent", eq(out["exported"], spec1)
        yield "copy_is_independent_of_later_updates", eq(out["copy_after_set"], spec0)
        yield "expression_parameters_do_not_vary", all(out["vary"][i] == (not case["deps"][i]) for i in range(n))


def _expressions_replaced_later(self, tier, seed):
    """B: the dependency order is that of the expressions *as they are now*: after the expression of an existing expression
    parameter is replaced (so that it depends on a parameter declared later), a value update gives every expression parameter
    the value of its current expression, and a second update changes nothing."""
    from glotaran.parameter import Parameters

    bad, n = None, 0
    for first, second, a_new in ((("$a + 1", "$a * 10"), ("$c + 1", "$a * 10"), 3.0), (("$a * 2", "$b + 5"), ("$c - 1", "$a + 5"), -2.0), (("$a", "$a"), ("$c * $c", "$a + 1"), 4.0)):
        n += 1
        p = Parameters.from_dict({"a": [["a", 2.0]], "b": [["b", 0.0, {"expr": first[0].replace("$a", "$a.a")}]], "c": [["c", 0.0, {"expr": first[1].replace("$a", "$a.a").replace("$b", "$b.b")}]]})
        p.update_parameter_expression()
        fix = lambda e: e.replace("$a", "$a.a").replace("$b", "$b.b").replace("$c", "$c.c")  # noqa: E731
        p.get("b.b").expression = fix(second[0])
        p.get("c.c").expression = fix(second[1])
        p.set_from_label_and_value_arrays(["a.a"], [a_new])
        env = {"a": a_new}
        env["c"] = eval(second[1].replace("$", ""), {}, dict(env))
        env["b"] = eval(second[0].replace("$", ""), {}, dict(env))
        got = {k: float(p.get(f"{k}.{k}").value) for k in "abc"}
        p.update_parameter_expression()
        again = {k: float(p.get(f"{k}.{k}").value) for k in "abc"}
        if got != env or again != env:
            bad = bad or {"expressions_at_construction": first, "expressions_now": second, "a": a_new, "values": got, "after_a_second_update": again, "expected": env}
    return [{"name": "bounded_values_follow_the_expressions_as_they_are_now", "ok": bad is None and n > 0, "case": f"{n} parameter sets whose expressions are replaced after construction", "function": "glotaran.parameter.parameters:Parameters.update_parameter_expression", "witness": bad, "detail": "bounded stand-in: native histories construct / replace expressions / update values"}]


Expressions.bounded_checks = _expressions_replaced_later
