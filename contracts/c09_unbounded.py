"""C09 (all axis lengths): `DataProviderLinked.align_index` for a target axis of *any* length (0 included),
every method, symbolic index, tolerance >= 0.

PyVC-U executes the AST of the real function.  numpy enters through contracts: `a - x`, `np.abs` elementwise,
`a <cmp> 0` Boolean masks, `a[mask]` = the subsequence where the mask holds (ghost position map, the same mask gives
the same positions), `len`, `a.min()`, `a.argmin()` (first minimum; ValueError when empty: obligation).

Postcondition (the property statement): the image is a point of the target axis on the permitted side, within the
tolerance and nearest among the permitted ones - or the index itself, and then no permitted point lies within the
tolerance.
"""
from __future__ import annotations

import z3

from contracts.c08_unbounded import _abs, ext_argmin, ext_np_abs
from contracts.unbounded import inb, ints, records
from pyvc import wp
from pyvc.contract import Contract

METHODS = ("nearest", "backward", "forward")


def ext_len(ex, st, args, kwargs, node):
    (a,) = args
    if not isinstance(a, (wp.Arr, wp.View, wp.ColView, wp.LazyArr)):
        raise wp.Unsupported("len of a non-array")
    return a.shape[0]


def ext_min(ex, st, args, kwargs, node):
    a = wp.materialise(st, args[0], "min_arg")
    k = ext_argmin(ex, st, [a], kwargs, node)
    return a.sel(st.heap, k)


def permitted(method, t, x):
    return {"forward": t >= x, "backward": t <= x, "nearest": z3.BoolVal(True)}[method]


def align_spec(method):
    from glotaran.optimization.data_provider import DataProviderLinked

    fn = DataProviderLinked.align_index
    k, j = ints("k", "j")

    def requires(env):
        return [env["tolerance"] >= 0]

    def ensures(old, new, res):
        x, tol, n = old["index"], old["tolerance"], old.shape("target_axis")
        T = lambda i: old.sel("target_axis", i)  # noqa: E731
        res = wp._real(res)
        is_target = z3.Exists([k], z3.And(inb(k, n), res == T(k), permitted(method, T(k), x), _abs(T(k) - x) <= tol, z3.ForAll([j], z3.Implies(z3.And(inb(j, n), permitted(method, T(j), x)), _abs(T(j) - x) >= _abs(T(k) - x)))))
        none_within = z3.ForAll([j], z3.Implies(z3.And(inb(j, n), permitted(method, T(j), x)), _abs(T(j) - x) > tol))
        return [("image_is_self_or_nearest_permitted_target_within_tolerance", z3.Or(is_target, z3.And(res == x, none_within)))]

    ext = {"np.abs": ext_np_abs, "len": ext_len, "ndarray.min": ext_min, "ndarray.argmin": ext_argmin}
    params = [("index", "real"), ("target_axis", "arr1"), ("tolerance", "real"), ("method", lambda st: method)]
    return wp.FnSpec(fn, params, requires, (), ensures, {}, ext)


class AlignIndexAllLengths(Contract):
    prop = "C09"
    name = "AlignIndexAllLengths"
    target = "glotaran.optimization.data_provider:DataProviderLinked.align_index"
    strength = "U"
    trusted = (
        *__import__('contracts.unbounded', fromlist=['WP_ASSUMPTIONS']).WP_ASSUMPTIONS,
        "numpy contracts: `a - x`, np.abs elementwise; `a <cmp> c` Boolean mask; a[mask] = subsequence where the mask holds (order kept); len; ndarray.min / argmin (first minimum, ValueError when empty)",
        "floats as reals",
    )
    drops = ("PyVC-U re-reads the source of the function (decorator, annotations, docstring dropped); accepted subset in pyvc/wp.py",)

    def cases(self, tier):
        return iter(())

    def static_obligations(self, tier):
        out = []
        for m in METHODS:
            for r in records(align_spec(m), self.name, prefix=f"[{m}]."):
                r["case"] = f"method {m}, every target axis length"
                out.append(r)
        return out


def _with_selftest(fn):
    def wrapped(self, tier):
        from contracts.unbounded import engine_selftest

        return fn(self, tier) + engine_selftest()

    return wrapped


AlignIndexAllLengths.static_obligations = _with_selftest(AlignIndexAllLengths.static_obligations)
