"""C08 (all axis lengths): `DataProvider.get_axis_slice_from_interval` on a strictly increasing axis of *any*
length n >= 1, for every kind of interval (finite / infinite bounds enumerated, finite bounds symbolic, either order).

PyVC-U executes the AST of the real function over a z3 array of symbolic length.  numpy enters through contracts:
`axis - x` and `np.abs` elementwise, `a.argmin()` = the *first* index of a minimum (ValueError on an empty array:
obligation n >= 1), `np.isinf` on an extended real, `slice(a, b)`.

Postconditions (from the property statement): the slice lies in [0, n]; every axis point inside the closed interval
[min(lo,hi), max(lo,hi)] is selected; an infinite bound reaches the end of the axis; `start` is the (first) axis point
nearest to the lower bound and `stop - 1` the (first) one nearest to the upper bound - hence nothing beyond the nearest
points is selected.  These characterise the result uniquely; `enlarging_never_shrinks` is then a lemma over two
instances of the contract (a caller sees only the contract): I within I' implies slice(I) within slice(I').
"""
from __future__ import annotations

import z3

from contracts.common import proper_kind_pairs
from contracts.unbounded import inb, ints, records
from pyvc import wp
from pyvc.contract import Contract

INF = float("inf")
REAL = z3.RealSort()


def _abs(x):
    return z3.If(x >= 0, x, -x)


def ext_np_abs(ex, st, args, kwargs, node):
    (a,) = args
    if isinstance(a, (wp.Arr, wp.View, wp.ColView, wp.LazyArr)) and a.ndim == 1:
        heap_now = dict(st.heap)
        return wp.LazyArr(a.shape, lambda i: _abs(a.sel(heap_now, i)))
    return _abs(wp._real(a))


def ext_isinf(ex, st, args, kwargs, node):
    (x,) = args
    return wp._is_inf(x)  # a symbolic real is finite; infinite bounds are Python floats (cases enumerated)


def ext_argmin(ex, st, args, kwargs, node):
    (a,) = args
    if a.ndim != 1 or kwargs:
        raise wp.Unsupported("argmin of a 1-d array expected")
    a = wp.materialise(st, a, "argmin_arg")
    n = a.shape[0]
    ex.oblige(f"argmin_of_a_non_empty_array@line{node.lineno}", st, n >= 1)
    k = wp.fresh("argmin", wp.INT)
    j = z3.Int("j!argmin")
    st.pc += [
        inb(k, n),
        z3.ForAll([j], z3.Implies(inb(j, n), a.sel(st.heap, k) <= a.sel(st.heap, j)), patterns=[a.sel(st.heap, j)]),
        z3.ForAll([j], z3.Implies(z3.And(j >= 0, j < k), a.sel(st.heap, k) < a.sel(st.heap, j)), patterns=[a.sel(st.heap, j)]),
    ]
    return k


def ext_slice(ex, st, args, kwargs, node):
    return wp.Opaque("slice", start=args[0], stop=args[1])


def is_pinf(x):
    return isinstance(x, float) and x == INF


def is_ninf(x):
    return isinstance(x, float) and x == -INF


def bound(kind, name):
    return {"fin": z3.Real(name), "+inf": INF, "-inf": -INF}[kind]


def nearest_first(axis_sel, n, k, v):
    """k is the first index of an axis point nearest to the finite value v."""
    j = z3.Int("j!near")
    return z3.And(
        inb(k, n),
        z3.ForAll([j], z3.Implies(inb(j, n), _abs(axis_sel(k) - v) <= _abs(axis_sel(j) - v))),
        z3.ForAll([j], z3.Implies(z3.And(j >= 0, j < k), _abs(axis_sel(k) - v) < _abs(axis_sel(j) - v))),
    )


def lo_hi(lo, hi):
    """min / max of two extended reals, as (value, kind) - decided concretely where a bound is infinite."""
    fin = [not wp._is_inf(x) for x in (lo, hi)]
    if all(fin):
        return z3.If(lo <= hi, lo, hi), z3.If(lo <= hi, hi, lo)
    if fin[0]:  # hi infinite
        return (lo, hi) if is_pinf(hi) else (hi, lo)
    if fin[1]:
        return (lo, hi) if is_ninf(lo) else (hi, lo)
    return (min(lo, hi), max(lo, hi))


def slice_spec(kinds):
    from glotaran.optimization.data_provider import DataProvider

    fn = DataProvider.get_axis_slice_from_interval
    lo, hi = bound(kinds[0], "lo"), bound(kinds[1], "hi")
    mn, mx = lo_hi(lo, hi)
    i, p, q = ints("i", "p", "q")

    def requires(env):
        n = env.shape("axis")
        return [n >= 1, z3.ForAll([p, q], z3.Implies(z3.And(0 <= p, p < q, q < n), env.sel("axis", p) < env.sel("axis", q)), patterns=[z3.MultiPattern(env.sel("axis", p), env.sel("axis", q))])]

    def facts(axis_sel, n, start, stop):
        """The postcondition, as a list of (name, formula)."""
        out = [("slice_is_plain_and_within_the_axis", z3.And(0 <= start, start <= n, 0 <= stop, stop <= n))]
        ins = []
        if not wp._is_inf(mn):
            ins.append(mn <= axis_sel(i))
        if not wp._is_inf(mx):
            ins.append(axis_sel(i) <= mx)
        if is_pinf(mn) or is_ninf(mx):
            ins.append(z3.BoolVal(False))
        out.append(("covers_closed_interval", z3.ForAll([i], z3.Implies(z3.And(inb(i, n), *ins), z3.And(start <= i, i < stop)))))
        if is_ninf(mn):
            out.append(("infinite_lower_bound_reaches_first_point", start == 0))
        elif not wp._is_inf(mn):
            out.append(("start_is_the_first_axis_point_nearest_to_the_lower_bound", nearest_first(axis_sel, n, start, mn)))
        if is_pinf(mx):
            out.append(("infinite_upper_bound_reaches_last_point", stop == n))
        elif not wp._is_inf(mx):
            out.append(("stop_minus_one_is_the_first_axis_point_nearest_to_the_upper_bound", nearest_first(axis_sel, n, stop - 1, mx)))
        return out

    def ensures(old, new, res):
        if not (isinstance(res, wp.Opaque) and res.tag == "slice"):
            return [("returns_a_slice", z3.BoolVal(False))]
        return facts(lambda k: old.sel("axis", k), old.shape("axis"), wp._int(res.start), wp._int(res.stop))

    ext = {"np.isinf": ext_isinf, "np.abs": ext_np_abs, "ndarray.argmin": ext_argmin, "slice": ext_slice}
    params = [("interval", lambda st: (lo, hi)), ("axis", "arr1")]
    return wp.FnSpec(fn, params, requires, (), ensures, {}, ext), facts, (mn, mx)


def monotone_lemma(kinds, kinds2, timeout_s=10.0):
    """I within I' => slice(I) within slice(I'), from two instances of the contract only."""
    A = z3.Const("axis", wp.arr_sort(1))
    n = z3.Int("n")
    p, q = ints("p", "q")

    def sel(k):
        return z3.Select(A, k)

    _, facts1, (mn1, mx1) = slice_spec(kinds)
    s1, e1, s2, e2 = ints("start1", "stop1", "start2", "stop2")
    hyps = [n >= 1, z3.ForAll([p, q], z3.Implies(z3.And(0 <= p, p < q, q < n), sel(p) < sel(q)))]
    hyps += [f for _, f in facts1(sel, n, s1, e1)]
    # second interval: fresh bound names
    lo2, hi2 = bound(kinds2[0], "lo2"), bound(kinds2[1], "hi2")
    mn2, mx2 = lo_hi(lo2, hi2)
    # rebuild the facts of the second call with its own bounds
    import contracts.c08_unbounded as me

    def facts_for(mn, mx, start, stop):
        i = z3.Int("i")
        out = [z3.And(0 <= start, start <= n, 0 <= stop, stop <= n)]
        if is_ninf(mn):
            out.append(start == 0)
        elif not wp._is_inf(mn):
            out.append(nearest_first(sel, n, start, mn))
        if is_pinf(mx):
            out.append(stop == n)
        elif not wp._is_inf(mx):
            out.append(nearest_first(sel, n, stop - 1, mx))
        return out

    hyps += facts_for(mn2, mx2, s2, e2)

    def le(a, b):  # extended reals
        if wp._is_inf(a) or wp._is_inf(b):
            av = a if isinstance(a, float) else 0.0
            bv = b if isinstance(b, float) else 0.0
            if wp._is_inf(a) and wp._is_inf(b):
                return z3.BoolVal(a <= b)
            if wp._is_inf(a):
                return z3.BoolVal(is_ninf(a))
            return z3.BoolVal(is_pinf(b))
        return a <= b

    hyps += [le(mn2, mn1), le(mx1, mx2)]
    ob = wp.Obligation("enlarging_never_shrinks", hyps, z3.Implies(s1 < e1, z3.And(s2 <= s1, e1 <= e2)))
    return wp.discharge(ob, timeout_s)


class AxisSliceAllLengths(Contract):
    prop = "C08"
    name = "AxisSliceAllLengths"
    target = "glotaran.optimization.data_provider:DataProvider.get_axis_slice_from_interval"
    strength = "U"
    trusted = (
        *__import__('contracts.unbounded', fromlist=['WP_ASSUMPTIONS']).WP_ASSUMPTIONS,
        "numpy contracts: `a - x` and np.abs elementwise; ndarray.argmin() = first index of a minimum (ValueError when empty); np.isinf; slice(a, b)",
        "extended reals: an infinite interval bound is the float +-inf (cases enumerated), a finite one a symbolic real; floats as reals",
    )
    drops = ("PyVC-U re-reads the source of the function (decorator, annotations, docstring dropped); accepted subset in pyvc/wp.py",)

    def cases(self, tier):
        return iter(())

    def static_obligations(self, tier):
        out = []
        for kinds in proper_kind_pairs():
            spec, _, _ = slice_spec(kinds)
            for r in records(spec, self.name, prefix=f"[{kinds[0]},{kinds[1]}]."):
                r["case"] = f"interval kinds {kinds}, every axis length"
                out.append(r)
        pairs = [(k, k2) for k in proper_kind_pairs() for k2 in proper_kind_pairs() if not (("-inf" in k and "-inf" not in k2) or ("+inf" in k and "+inf" not in k2))]
        for k, k2 in pairs:
            ob = monotone_lemma(k, k2)
            rec = {"name": f"enlarging_never_shrinks[{k[0]},{k[1]} within {k2[0]},{k2[1]}]", "function": self.target, "backend": ob.backend, "strength": "U", "case": "every axis length", "detail": "lemma over two instances of the contract"}
            if ob.status == "proved":
                rec["ok"] = True
            elif ob.status == "refuted":
                rec.update(ok=False, detail="refuted: " + ", ".join(f"{d.name()}={ob.model[d]}" for d in list(ob.model.decls())[:10]))
            else:
                rec.update(ok=False, undecided=True, detail=ob.reason)
            out.append(rec)
        return out


def _with_selftest(fn):
    def wrapped(self, tier):
        from contracts.unbounded import engine_selftest

        return fn(self, tier) + engine_selftest()

    return wrapped


AxisSliceAllLengths.static_obligations = _with_selftest(AxisSliceAllLengths.static_obligations)
