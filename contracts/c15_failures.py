"""C15 - failures during optimisation are contained and reported."""
from __future__ import annotations

import sys
import warnings

import numpy as np

from contracts import configs, harness
from contracts.c10_purity import _same_term, _snapshot_scheme
from contracts.pipeline import PIPE_MODS, TRUSTED_PIPE, LsqTrace, flat
from pyvc.contract import Contract, L, Raised
from pyvc.sym import SArr, EngineError, PathAbort

METHODS = ("TrustRegionReflection", "Dogbox", "Levenberg-Marquardt")


def _cfg(name):
    return [c for c in configs.quick() if c.name == name][0]


def make_faulty_least_squares(b, trace, symbolic, n_evals, fail_at, persistent):
    from scipy.optimize import OptimizeResult

    def least_squares(fun, x0, jac_=None, bounds=(-np.inf, np.inf), method="trf", max_nfev=None, verbose=0, **kw):
        trace.calls.append({"x0": x0, "method": method, "verbose": verbose})
        x = x0
        f = None
        for k in range(n_evals):
            if k > 0:
                x = np.empty(len(x0), dtype=object if symbolic else float)
                for j in range(len(x0)):
                    x[j] = b.S.named(f"x!{k}_{j}")
                if symbolic:
                    x = x.view(SArr)
            if verbose:
                print(f"       {k}              {k+1}         1.0000e+00                                    1.00e+00    ")
            if fail_at is not None and (k + 1 == fail_at or (persistent and k + 1 >= fail_at)):
                harness.CURRENT["fail_after_matrix_calls"] = 1
            trace.evals.append({"x": x, "k": k + 1})
            try:
                f = fun(x)
            finally:
                harness.CURRENT["fail_after_matrix_calls"] = None
            trace.evals[-1]["f"] = f
        J = np.zeros((len(f), len(x0)))
        return OptimizeResult(x=x, fun=f, jac=J, nfev=n_evals, njev=1, optimality=0.0, message="stub finished", status=1, success=True)

    return least_squares


class FaultAtK(Contract):
    prop = "C15"
    name = "FaultAtK"
    target = "glotaran.optimization.optimize:optimize"
    functions = (
        "glotaran.optimization.optimizer:Optimizer.__init__",
        "glotaran.optimization.optimizer:Optimizer.optimize",
        "glotaran.optimization.optimizer:Optimizer.objective_function",
        "glotaran.optimization.optimizer:Optimizer.calculate_penalty",
        "glotaran.optimization.optimizer:Optimizer.create_result",
        "glotaran.parameter.parameters:Parameters.set_from_history",
        "glotaran.parameter.parameter_history:ParameterHistory.append",
        "glotaran.utils.tee:TeeContext.__enter__",
        "glotaran.utils.tee:TeeContext.__exit__",
    )
    modules = PIPE_MODS + ("glotaran.project.result",)
    trusted = TRUSTED_PIPE + ("least_squares only calls fun and propagates its exceptions unchanged (stub does exactly that)",)
    strength = "S"
    agreement_runs = 0
    max_paths = {"quick": 300, "thorough": 2000}
    not_decided = ("non-finite matrices instead of exceptions: whether scipy raises is T on least_squares",)

    def cases(self, tier):
        for cfgname in ("mc_shared_labels_scales", "two_groups") if tier == "quick" else ("mc_shared_labels_scales", "two_groups", "penalty_linked_two", "full_model_and_plain"):
            for method in METHODS if cfgname == "mc_shared_labels_scales" else METHODS[:1]:
                for raise_exception in (False, True):
                    for verbose in (False, True):
                        for k in (None, 1, 2, 3):
                            for persistent in (False, True) if k == 1 else (False,):
                                if method != METHODS[0] and verbose:
                                    continue
                                yield {"cfg": cfgname, "method": method, "raise_exception": raise_exception, "verbose": verbose, "fail_at": k, "persistent": persistent, "nonneg": cfgname == "mc_shared_labels_scales"}
        # raise_exception=True under a warnings filter that turns warnings into errors (python -W error, pytest filterwarnings = error):
        # the *original* exception propagates, not a warning about it
        for k in (1, 2, 3):
            for verbose in (False, True):
                yield {"cfg": "mc_shared_labels_scales", "method": METHODS[0], "raise_exception": True, "verbose": verbose, "fail_at": k, "persistent": False, "nonneg": True, "warnings_as_errors": True}

    def build(self, S, case):
        b = harness.build(S, _cfg(case["cfg"]))
        b.scheme.optimization_method = case["method"]
        if case["nonneg"]:
            p = next(iter(b.parameters.all()))
            p.non_negative = True
            S.require(L.gt(p.value, 0), "non-negative value positive")
            S.require(L.not_(L.eq(p.value, 1.0)), "not the guard value")
            for k in (1, 2):
                x = b.S.named(f"x!{k}_0")
                S.require(L.not_(L.eq(L.fn("exp", x), 1.0)), "trial point not the guard value")
        return b

    def call(self, S, case, b):
        from glotaran.optimization import optimizer as om

        harness.CURRENT["S"] = b.S
        symbolic = S.symbolic
        trace = LsqTrace()
        saved_ls = om.least_squares
        om.least_squares = make_faulty_least_squares(b, trace, symbolic, 3, case["fail_at"], case["persistent"])
        stdout_before = sys.stdout
        before = _snapshot_scheme(b)
        out = {"trace": trace, "stdout_before": stdout_before}
        calls = []
        harness.CURRENT["matrix_calls"] = calls
        import io

        sink = io.StringIO()
        sys.stdout = sink
        out["stdout_sink"] = sink
        try:
            with harness.residual_stubs(b.S, symbolic) as log, warnings.catch_warnings(record=True) as w:
                warnings.simplefilter("always")
                opt = om.Optimizer(b.scheme, verbose=case["verbose"], raise_exception=case["raise_exception"])
                if case.get("warnings_as_errors"):
                    warnings.simplefilter("error")
                out["opt"] = opt
                out["calls_after_init"] = len(calls)
                try:
                    opt.optimize()
                    out["optimize_exc"] = None
                except (EngineError, PathAbort):
                    raise
                except BaseException as e:
                    out["optimize_exc"] = e
                out["stdout_after_optimize"] = sys.stdout
                out["records_after_optimize"] = opt._parameter_history.number_of_records
                if case["persistent"]:
                    harness.CURRENT["fail_always"] = True
                try:
                    out["result"] = opt.create_result() if out["optimize_exc"] is None else None
                    out["create_exc"] = None
                except (EngineError, PathAbort):
                    raise
                except BaseException as e:
                    out["result"], out["create_exc"] = None, e
                out["warnings"] = [str(x.message) for x in w]
        finally:
            om.least_squares = saved_ls
            harness.CURRENT["matrix_calls"] = None
            harness.CURRENT["fail_always"] = False
            harness.CURRENT["fail_after_matrix_calls"] = None
            out["stdout_at_end"] = sys.stdout
            sys.stdout = stdout_before
        out["before"], out["after"] = before, _snapshot_scheme(b)
        return out

    def observe(self, out):
        return out if isinstance(out, Raised) else None

    def ensures(self, S, case, b, out):
        from glotaran.optimization.optimizer import InitialParameterError

        if isinstance(out, Raised):
            yield "no_unexpected_exception", False
            return
        k, raise_exc = case["fail_at"], case["raise_exception"]
        sink = out["stdout_sink"]
        yield "stdout_restored_after_optimize", out["stdout_after_optimize"] is sink and out["stdout_at_end"] is sink
        yield "nothing_evaluated_in_the_constructor", out["calls_after_init"] == 0
        # history: one record for the initial parameters + one per fault-free evaluation
        ok_evals = 3 if k is None else k - 1
        yield "one_history_record_per_fault_free_evaluation", out["records_after_optimize"] == 1 + ok_evals
        evs = out["trace"].evals
        if k is None:
            yield "fault_free_run_succeeds", out["optimize_exc"] is None and out["create_exc"] is None and out["result"] is not None and out["result"].success is True
            yield "termination_reason_is_the_optimisers_message", out["result"] is not None and out["result"].termination_reason == "stub finished"
        elif raise_exc:
            yield "original_exception_propagates_unchanged", isinstance(out["optimize_exc"], harness.InjectedFault)
        else:
            yield "nothing_propagates_from_optimize", out["optimize_exc"] is None
            yield "failure_is_warned_about", any("Optimization failed" in m for m in out["warnings"])
            if k == 1:
                yield "initial_parameters_not_evaluable_raises_InitialParameterError", isinstance(out["create_exc"], InitialParameterError)
            else:
                res = out["result"]
                yield "failed_result_is_returned", out["create_exc"] is None and res is not None and res.success is False
                if res is not None:
                    yield "termination_reason_carries_the_error", "injected fault" in res.termination_reason
                    # parameters of the result: the record before the last one = a parameter set evaluated without error
                    opt = out["opt"]
                    free = list(opt._free_parameter_labels)
                    src_x = evs[k - 3]["x"] if k == 3 else None  # k=3: record -2 is evaluation 1 (x0); k=2: the initial parameters
                    conds = []
                    init = {p.label: p.value for p in b.scheme.parameters.all()}
                    rp = {p.label: p for p in res.optimized_parameters.all()}
                    for lab, v0 in init.items():
                        conds.append(L.eq(rp[lab].value, v0))  # x0 are the initial values, and record 0 holds them too
                    yield "result_parameters_come_from_a_fault_free_evaluation", L.and_(*conds)
                    yield "result_datasets_present", sorted(res.data.keys()) == sorted(ds.label for ds in b.cfg.datasets)
                    yield "number_of_function_evaluations_is_the_record_count", res.number_of_function_evaluations == out["records_after_optimize"]
        # the caller's scheme is untouched in every case
        before, after = out["before"], out["after"]
        conds = [before["order"] == after["order"], before["model"] == after["model"]]
        for label, old in before["params"].items():
            new = after["params"].get(label)
            conds.append(new is not None and all(_same_term(a, c) is not False for a, c in zip(old[:7], new[:7])))
            if new is not None:
                for a, c in zip(old[:7], new[:7]):
                    conds.append(_same_term(a, c))
        yield "callers_scheme_untouched", L.and_(*conds)


class InvalidSchemes(Contract):
    prop = "C15"
    name = "InvalidSchemes"
    target = "glotaran.optimization.optimizer:Optimizer.__init__"
    functions = ("glotaran.optimization.estimation_provider:EstimationProvider.__init__",)
    modules = PIPE_MODS
    trusted = TRUSTED_PIPE
    strength = "S"
    agreement_runs = 0

    def cases(self, tier):
        for kind in ("missing_data", "no_parameters", "unknown_method", "unknown_residual_function", "valid"):
            for cfgname in ("two_groups", "one_unlinked"):
                yield {"kind": kind, "cfg": cfgname}

    def build(self, S, case):
        b = harness.build(S, _cfg(case["cfg"]))
        kind = case["kind"]
        if kind == "missing_data":
            b.scheme.data = {k: v for k, v in list(b.scheme.data.items())[1:]}
        elif kind == "no_parameters":
            b.scheme.parameters = None
        elif kind == "unknown_method":
            b.scheme.optimization_method = "Nelder-Mead"
        elif kind == "unknown_residual_function":
            g = next(iter(b.model.dataset_groups.values()))
            g.residual_function = "least_absolute_deviation"
        return b

    def call(self, S, case, b):
        from glotaran.optimization import optimizer as om

        harness.CURRENT["S"] = b.S
        calls = []
        harness.CURRENT["matrix_calls"] = calls
        try:
            with harness.residual_stubs(b.S, S.symbolic) as log:
                try:
                    om.Optimizer(b.scheme, verbose=False, raise_exception=True)
                    exc = None
                except (EngineError, PathAbort):
                    raise
                except Exception as e:
                    exc = e
                return {"exc": exc, "matrix_calls": len(calls), "solves": len(log.entries)}
        finally:
            harness.CURRENT["matrix_calls"] = None

    def observe(self, out):
        return out if isinstance(out, Raised) else None

    def ensures(self, S, case, b, out):
        from glotaran.optimization.estimation_provider import UnsupportedResidualFunctionError
        from glotaran.optimization.optimizer import MissingDatasetsError, ParameterNotInitializedError, UnsupportedMethodError

        if isinstance(out, Raised):
            yield "no_unexpected_exception", False
            return
        want = {"missing_data": MissingDatasetsError, "no_parameters": ParameterNotInitializedError, "unknown_method": UnsupportedMethodError, "unknown_residual_function": UnsupportedResidualFunctionError, "valid": None}[case["kind"]]
        if want is None:
            yield "valid_scheme_accepted", out["exc"] is None
        else:
            yield "rejected_with_the_documented_error", type(out["exc"]) is want
        yield "nothing_evaluated_before_rejection", out["matrix_calls"] == 0 and out["solves"] == 0


class PenaltyHistory(Contract):
    """Per-call contract of Optimizer.calculate_penalty over an arbitrary pre-history (induction step)."""

    prop = "C15"
    name = "PenaltyHistory"
    target = "glotaran.optimization.optimizer:Optimizer.calculate_penalty"
    modules = PIPE_MODS
    trusted = TRUSTED_PIPE
    strength = "U"
    agreement_runs = 0

    def cases(self, tier):
        for cfgname in ("one_unlinked", "two_groups"):
            for fault in (None, 1, 2):
                for pre in (1, 2, 4):
                    yield {"cfg": cfgname, "fault_after_matrix_calls": fault, "pre_records": pre}

    def build(self, S, case):
        return harness.build(S, _cfg(case["cfg"]))

    def call(self, S, case, b):
        from glotaran.optimization import optimizer as om

        harness.CURRENT["S"] = b.S
        with harness.residual_stubs(b.S, S.symbolic):
            opt = om.Optimizer(b.scheme, verbose=False, raise_exception=False)
            opt._free_parameter_labels = []
            # arbitrary pre-history: rows of arbitrary values (what earlier evaluations left behind)
            hist = opt._parameter_history
            ncol = len(hist.parameter_labels)
            while hist.number_of_records < case["pre_records"]:
                row = np.array([0.0] + [b.S.named(f"h_{hist.number_of_records}_{j}") for j in range(ncol - 1)], dtype=object if S.symbolic else float)
                hist._parameters.append(row.view(SArr) if S.symbolic else row)
            pre = [np.array(r, dtype=object, copy=True) for r in hist._parameters]
            harness.CURRENT["fail_after_matrix_calls"] = case["fault_after_matrix_calls"]
            try:
                pen = opt.calculate_penalty()
                exc = None
            except harness.InjectedFault as e:
                pen, exc = None, e
            finally:
                harness.CURRENT["fail_after_matrix_calls"] = None
            post = [np.array(r, dtype=object, copy=True) for r in hist._parameters]
            cur = [p.value for p in opt._parameters.all()]
        return {"pre": pre, "post": post, "exc": exc, "cur": cur}

    def observe(self, out):
        return out if isinstance(out, Raised) else None

    def ensures(self, S, case, b, out):
        if isinstance(out, Raised):
            yield "no_unexpected_exception", False
            return
        pre, post = out["pre"], out["post"]
        same_prefix = len(post) >= len(pre) and L.and_(*[L.eq(a, c) for r0, r1 in zip(pre, post) for a, c in zip(r0, r1)])
        n_ds = len(b.cfg.datasets)
        faulted = case["fault_after_matrix_calls"] is not None and out["exc"] is not None
        if case["fault_after_matrix_calls"] is not None and case["fault_after_matrix_calls"] <= n_ds:
            yield "injected_fault_propagates", out["exc"] is not None
        if out["exc"] is not None:
            yield "exceptional_post_history_unchanged", L.and_(len(post) == len(pre), same_prefix)
        else:
            yield "normal_post_history_extended_by_exactly_the_current_parameters", L.and_(len(post) == len(pre) + 1, same_prefix, *[L.eq(a, c) for a, c in zip(list(post[-1])[1:], out["cur"])])


class Tee(Contract):
    prop = "C15"
    name = "Tee"
    target = "glotaran.utils.tee:TeeContext.__exit__"
    functions = ("glotaran.utils.tee:TeeContext.__enter__", "glotaran.utils.tee:TeeContext.__init__")
    strength = "U"

    def cases(self, tier):
        return iter(())

    def static_obligations(self, tier):
        import io

        from glotaran.utils.tee import TeeContext

        res = []
        for raising in (False, True):
            sink = io.StringIO()
            saved = sys.stdout
            sys.stdout = sink
            try:
                tee = TeeContext()
                inside = None
                try:
                    with tee:
                        inside = sys.stdout
                        print("hello")
                        if raising:
                            raise KeyError("boom")
                    exc = None
                except KeyError as e:
                    exc = e
                after = sys.stdout
            finally:
                sys.stdout = saved
            ok = inside is tee and after is sink and tee.read() == "hello\n" and sink.getvalue() == "hello\n" and ((exc is not None) == raising)
            res.append({"name": f"stdout_restored_and_exception_not_swallowed[{'raising' if raising else 'normal'}]", "ok": ok, "detail": "", "function": "glotaran.utils.tee:TeeContext"})
        return res


class OptionsReachTheOptimiser(Contract):
    """A scheme whose options the optimiser itself refuses (`maximum_number_function_evaluations = 0`, all tolerances 0) is
    refused: the options of the scheme reach `least_squares` exactly as they are - zero included - so that its error is the
    one the caller sees (propagated, or InitialParameterError without a single evaluation); they are not replaced by defaults
    behind the caller's back."""

    prop = "C15"
    name = "OptionsReachTheOptimiser"
    target = "glotaran.optimization.optimizer:Optimizer.optimize"
    modules = PIPE_MODS
    trusted = TRUSTED_PIPE
    strength = "S"
    agreement_runs = 0

    OPTIONS = {
        "zero_evaluations": {"maximum_number_function_evaluations": 0},
        "zero_tolerances": {"ftol": 0.0, "gtol": 0.0, "xtol": 0.0},
        "one_zero_tolerance": {"ftol": 0.0},
        "none_evaluations": {"maximum_number_function_evaluations": None},
        "ordinary": {"maximum_number_function_evaluations": 7, "ftol": 1e-5, "gtol": 1e-6, "xtol": 1e-7},
    }

    def cases(self, tier):
        for name in self.OPTIONS:
            for method in ("TrustRegionReflection", "Dogbox", "Levenberg-Marquardt"):
                yield {"options": name, "method": method}

    def build(self, S, case):
        b = harness.build(S, _cfg("one_unlinked"))
        b.scheme.optimization_method = case["method"]
        for k, v in self.OPTIONS[case["options"]].items():
            setattr(b.scheme, k, v)
        return b

    def call(self, S, case, b):
        from contracts.pipeline import run_optimizer

        return run_optimizer(S, b, S.symbolic).trace.calls

    def observe(self, out):
        return out if isinstance(out, Raised) else None

    def ensures(self, S, case, b, out):
        if isinstance(out, Raised):
            yield "no_exception_with_the_contract_stub", False
            return
        yield "least_squares_called_once", len(out) == 1
        if len(out) != 1:
            return
        call, sch = out[0], b.scheme
        same = lambda a, c: (a is None and c is None) or (a is not None and c is not None and type(a) is type(c) and a == c)  # noqa: E731
        yield "options_of_the_scheme_reach_the_optimiser_unchanged", same(call["max_nfev"], sch.maximum_number_function_evaluations) and same(call["ftol"], sch.ftol) and same(call["gtol"], sch.gtol) and same(call["xtol"], sch.xtol)
