"""Race freedom of the numba prange loops (C10, family 3).

For every @jit(parallel=True) function of the builtin kernels that contains nb.prange the
read/write cell sets of two distinct iterations of the *outermost* prange loop (the one numba
parallelises) must be disjoint: W_i ∩ W_j = ∅ and W_i ∩ R_j = ∅ for i != j.  The real
function body (.py_func) is executed on tracing arrays for every small shape; functions whose
prange bodies accumulate into shared cells must carry parallel=False (checked on the AST).
"""
from __future__ import annotations

import ast
import importlib
import inspect
import itertools

import numpy as np

KERNEL_MODULES = (
    "glotaran.builtin.megacomplexes.decay.decay_matrix_gaussian_irf",
    "glotaran.builtin.megacomplexes.decay.util",
    "glotaran.builtin.megacomplexes.damped_oscillation.damped_oscillation_megacomplex",
    "glotaran.builtin.megacomplexes.pfid.pfid_megacomplex",
    "glotaran.builtin.megacomplexes.coherent_artifact.coherent_artifact_megacomplex",
    "glotaran.builtin.megacomplexes.spectral.shape",
)


class Trace:
    def __init__(self):
        self.iter_stack = []
        self.reads = {}
        self.writes = {}

    def key(self):
        return self.iter_stack[0] if self.iter_stack else None

    def log(self, kind, ids):
        k = self.key()
        d = self.reads if kind == "r" else self.writes
        d.setdefault(k, set()).update(int(i) for i in np.asarray(ids).reshape(-1))


class TArr:
    """A float array with a parallel array of cell ids; every element access is logged."""

    def __init__(self, data, ids, trace):
        self.data, self.ids, self.trace = data, ids, trace

    @property
    def shape(self):
        return self.data.shape

    @property
    def size(self):
        return self.data.size

    def __len__(self):
        return len(self.data)

    def __getitem__(self, idx):
        d, i = self.data[idx], self.ids[idx]
        if isinstance(d, np.ndarray):
            return TArr(d, i, self.trace)  # a view: nothing read yet
        self.trace.log("r", i)
        return d

    def __setitem__(self, idx, value):
        self.trace.log("w", self.ids[idx])
        self.data[idx] = value.data if isinstance(value, TArr) else value

    def __array__(self, dtype=None, copy=None):
        self.trace.log("r", self.ids)
        return np.asarray(self.data, dtype=dtype)


def tarr(a, trace, base):
    a = np.array(a, dtype=float)
    ids = base + np.arange(a.size).reshape(a.shape)
    return TArr(a, ids, trace), base + a.size


def _jit_functions(modname):
    mod = importlib.import_module(modname)
    src = inspect.getsource(mod)
    tree = ast.parse(src)
    out = []
    for node in tree.body:
        if not isinstance(node, ast.FunctionDef):
            continue
        for dec in node.decorator_list:
            if isinstance(dec, ast.Call) and ast.unparse(dec.func) in ("nb.jit", "nb.njit", "numba.jit", "numba.njit"):
                kw = {k.arg: ast.literal_eval(k.value) for k in dec.keywords if isinstance(k.value, ast.Constant)}
                pr = [n for n in ast.walk(node) if isinstance(n, ast.Call) and ast.unparse(n.func) in ("nb.prange", "numba.prange")]
                out.append((node.name, kw, len(pr), node))
    return mod, out


def _accumulates_across_outer(node):
    """Does a prange body update cells not indexed by its own loop variable? (AST heuristic used
    only to decide which functions must NOT be parallel)"""
    for loop in ast.walk(node):
        if isinstance(loop, ast.For) and isinstance(loop.iter, ast.Call) and ast.unparse(loop.iter.func) in ("nb.prange", "numba.prange"):
            var = loop.target.id if isinstance(loop.target, ast.Name) else None
            for st in ast.walk(loop):
                if isinstance(st, ast.AugAssign) and isinstance(st.target, ast.Subscript):
                    names = {n.id for n in ast.walk(st.target.slice) if isinstance(n, ast.Name)}
                    if var not in names:
                        return True
            return False
    return False


def race_obligations(tier):
    import numba as nb

    res = []
    found_parallel = 0
    for modname in KERNEL_MODULES:
        try:
            mod, fns = _jit_functions(modname)
        except Exception as e:  # pragma: no cover
            res.append({"name": f"kernels_readable[{modname}]", "ok": False, "detail": repr(e), "function": modname})
            continue
        for name, kw, npr, node in fns:
            fq = f"{modname}:{name}"
            parallel = bool(kw.get("parallel", False))
            if npr and not parallel:
                res.append({"name": f"serial_kernel_stays_serial[{name}]", "ok": True, "detail": f"{fq}: prange present, parallel=False: loops run serially", "function": fq, "strength": "U"})
                continue
            if npr and _accumulates_across_outer(node) and parallel:
                res.append({"name": f"accumulating_prange_not_parallel[{name}]", "ok": False, "detail": f"{fq} accumulates into cells not indexed by its outermost prange variable but is parallel=True", "function": fq, "strength": "U"})
            if not (npr and parallel):
                if parallel and not npr:
                    res.append({"name": f"no_prange_in_parallel_kernel[{name}]", "ok": True, "detail": f"{fq}: parallel=True but no prange loop: only whole-array expressions", "function": fq, "strength": "U"})
                continue
            found_parallel += 1
            fn = getattr(mod, name)
            py = getattr(fn, "py_func", fn)
            shapes = list(itertools.product((1, 2, 3), repeat=3)) if tier == "quick" else list(itertools.product((1, 2, 3, 4), repeat=3))
            ok, detail, n_runs = True, "", 0
            for shape in shapes:
                r = _run_traced(mod, name, py, shape)
                if r is None:
                    ok, detail = False, f"no harness for kernel {fq}"
                    break
                n_runs += 1
                good, why = r
                if not good:
                    ok, detail = False, f"{fq} shape={shape}: {why}"
                    break
            res.append({"name": f"prange_iterations_touch_disjoint_cells[{name}]", "ok": ok, "detail": detail or f"{fq}: {n_runs} shapes, W_i∩W_j=∅ and W_i∩R_j=∅ for all i≠j", "function": fq, "strength": "S", "witness": None if ok else detail})
    res.append({"name": "parallel_kernels_found", "ok": found_parallel >= 2, "detail": f"{found_parallel} parallel prange kernels analysed", "function": "glotaran.builtin.megacomplexes", "strength": "U"})
    return res


def _run_traced(mod, name, py, shape):
    import numba as nb

    trace = Trace()
    depth = {"d": 0}

    def tagging_range(*a):
        lvl = depth["d"]
        depth["d"] += 1
        try:
            for i in range(*a):
                if lvl == 0:
                    trace.iter_stack[:] = [i]
                yield i
        finally:
            depth["d"] -= 1
            if lvl == 0:
                trace.iter_stack[:] = []

    saved = nb.prange
    nb.prange = tagging_range
    saved_globals = {}
    try:
        a, b, c = shape
        base = 0
        rng = np.random.default_rng(0)
        if name == "calculate_decay_matrix_no_irf":
            matrix, base = tarr(np.zeros((b, a)), trace, base)
            rates, base = tarr(rng.uniform(0.1, 1, a), trace, base)
            times, base = tarr(np.linspace(0, 1, b), trace, base)
            py(matrix, rates, times)
        elif name == "calculate_decay_matrix_gaussian_irf":
            n_idx, n_g, n_r = a, b, c
            n_t = 2
            matrix, base = tarr(np.zeros((n_idx, n_t, n_r)), trace, base)
            rates, base = tarr(rng.uniform(0.1, 1, n_r), trace, base)
            times, base = tarr(np.linspace(-1, 1, n_t), trace, base)
            centers, base = tarr(rng.uniform(-0.1, 0.1, (n_idx, n_g)), trace, base)
            widths, base = tarr(rng.uniform(0.1, 0.2, (n_idx, n_g)), trace, base)
            scales, base = tarr(np.ones(n_g), trace, base)
            # the callee is the py_func of the serial kernel
            g = py.__globals__
            callee = g["calculate_decay_matrix_gaussian_irf_on_index"]
            saved_globals["calculate_decay_matrix_gaussian_irf_on_index"] = callee
            g["calculate_decay_matrix_gaussian_irf_on_index"] = _wrap_callee(getattr(callee, "py_func", callee))
            try:
                py(matrix, rates, times, centers, widths, scales, False, None)
            finally:
                g["calculate_decay_matrix_gaussian_irf_on_index"] = callee
        else:
            return None
    finally:
        nb.prange = saved
    its = [k for k in set(trace.writes) | set(trace.reads) if k is not None]
    for i in its:
        for j in its:
            if i == j:
                continue
            ww = trace.writes.get(i, set()) & trace.writes.get(j, set())
            wr = trace.writes.get(i, set()) & trace.reads.get(j, set())
            if ww:
                return False, f"iterations {i} and {j} both write cells {sorted(ww)[:4]}"
            if wr:
                return False, f"iteration {i} writes cells {sorted(wr)[:4]} that iteration {j} reads"
    return True, ""


def _wrap_callee(py):
    class _Sized:
        """scalar-like access helpers for TArr arguments used with .size in the kernel"""

    def call(matrix, rates, times, centers, widths, scales, backsweep, period):
        return py(matrix, _V(rates), _V(times), _V(centers), _V(widths), _V(scales), backsweep, period)

    return call


class _V:
    """1-D view wrapper giving .size and logged element reads."""

    def __init__(self, t):
        self.t = t

    @property
    def size(self):
        return self.t.size

    def __getitem__(self, i):
        return self.t[i]
