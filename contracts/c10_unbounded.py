"""C10 (all sizes): the kernels that numba runs in parallel are race free for every array size.

For a `@nb.jit(parallel=True)` kernel numba executes the iterations of the outermost `nb.prange` loop concurrently.
PyVC-U (`pyvc/wp.py`) executes the loop body twice from the same arbitrary state, for two *different* symbolic iterations
i1 != i2 (inner loops at arbitrary iterations), logs every array cell read or written (a call contributes the frame of the
callee's contract: a written view counts as written everywhere) and obliges, for all sizes:

  * any cell written by one iteration is neither read nor written by the other  (`prange_iterations_touch_disjoint_cells`),
  * the body updates no scalar that is live across iterations             (`prange_body_updates_no_shared_scalar`).

With that, the result of the kernel does not depend on the thread schedule ("however many threads the compiled kernels
use").  Kernels compiled with `parallel=False` run their prange loops sequentially; if one of them were switched to
parallel=True the same obligations would be generated for it (and fail for the accumulating IRF kernel).
"""
from __future__ import annotations

from contracts.unbounded import records
from pyvc.contract import Contract


class PrangeRacesAllSizes(Contract):
    prop = "C10"
    name = "PrangeRacesAllSizes"
    target = "glotaran.builtin.megacomplexes.decay.decay_matrix_gaussian_irf:calculate_decay_matrix_gaussian_irf"
    functions = (
        "glotaran.builtin.megacomplexes.decay.util:calculate_decay_matrix_no_irf",
        "glotaran.builtin.megacomplexes.decay.decay_matrix_gaussian_irf:calculate_decay_matrix_gaussian_irf_on_index",
        "glotaran.builtin.megacomplexes.coherent_artifact.coherent_artifact_megacomplex:_calculate_coherent_artifact_matrix",
    )
    strength = "U"
    trusted = (*__import__('contracts.unbounded', fromlist=['WP_ASSUMPTIONS']).WP_ASSUMPTIONS, "numba parallelises only the outermost nb.prange of a parallel=True kernel and gives every iteration its own copies of the scalars first bound inside the body; race-free iterations compute what the sequential loop computes",)
    drops = ("PyVC-U re-reads the kernels' source; the decorator is read for `parallel=True`, then dropped",)

    def cases(self, tier):
        return iter(())

    def static_obligations(self, tier):
        from contracts.c04_unbounded import no_irf_spec
        from contracts.c05_unbounded import all_indices_spec, on_index_spec
        from contracts.c07_unbounded import all_indices_spec as artifact_spec

        out = []
        specs = [("no_irf.", no_irf_spec()), ("irf_on_index.", on_index_spec()[0]), ("irf_all_indices.", all_indices_spec()), ("artifact_all_indices.", artifact_spec())]
        for prefix, spec in specs:
            rs = records(spec, self.name, prefix=prefix)
            par = any("'parallel': True" in r.get("detail", "") for r in rs)
            keep = [r for r in rs if "prange" in r["name"] or r["name"].endswith("extraction")]
            if not par:
                keep = [{"name": f"{prefix}kernel_is_compiled_sequentially_parallel_False", "ok": True, "function": spec.name, "backend": "structural", "strength": "U", "detail": "decorator read from the source: no parallel=True, prange loops run in order"}]
            elif not keep:
                keep = [{"name": f"{prefix}race_obligations_generated", "ok": False, "undecided": True, "function": spec.name, "backend": "z3-wp", "strength": "U", "detail": "parallel=True kernel without a prange loop that PyVC-U recognised"}]
            out += keep
        return out


def _with_selftest(fn):
    def wrapped(self, tier):
        from contracts.unbounded import engine_selftest

        return fn(self, tier) + engine_selftest()

    return wrapped


PrangeRacesAllSizes.static_obligations = _with_selftest(PrangeRacesAllSizes.static_obligations)
