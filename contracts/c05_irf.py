"""C05 - Gaussian IRF convolution is exact, for every index of a dispersed or shifted IRF."""
from __future__ import annotations

import itertools

import numpy as np

from pyvc.contract import Contract, L, Raised
from pyvc.sym import SArr, SymReal, is_sym

GM = "glotaran.builtin.megacomplexes.decay.decay_matrix_gaussian_irf"
UT = "glotaran.builtin.megacomplexes.decay.util"
IRF = "glotaran.builtin.megacomplexes.decay.irf"
MODS = (GM, UT, IRF, "glotaran.parameter.parameter")
DROPS = ("numba @jit kernels are executed through their .py_func (nopython compilation and the parallel schedule dropped); nb.prange is a plain range; the ctypes erf/erfcx are rebound to the symbolic erf/erfcx",)
TRUSTED = (
    "erf, erfcx, exp uninterpreted with ground axioms: erfcx z = exp(z^2)(1 - erf z), erf(-z) = -erf z, exp a · exp b = exp(a+b)",
    "that 1/2·exp(α(α-2β))(1+erf(β-α)) with α = kσ/√2, β = (t-μ)/(σ√2) is the convolution integral of exp(-kt)H(t) with the area-normalised Gaussian is the Lean theorem PyVC.convolution_closed_form (lemmas/Convolution.lean: erf defined by its integral, σ > 0, all k, μ, t; re-checked every run); scipy's erf / erfcx are trusted to be that function",
)


def closed_form(t, r, center, width, scale, SQRT2):
    alpha = (r * width) / SQRT2
    beta = (t - center) / (width * SQRT2)
    return scale * 0.5 * (1 + L.fn("erf", beta - alpha)) * L.fn("exp", alpha * (alpha - 2 * beta))


def kernel_shapes(t, r, center, width, scale, SQRT2, S):
    """The closed form from the property statement, in the two shapes that are equal for all α, β
        1/2 exp(α(α-2β)) (1 + erf(β-α)) = 1/2 erfcx(α-β) exp(-β²)        (ClosedFormBranchLemma, proved once, U).
    The kernel switches between them for numerical reasons; an obligation built with `any_shape` accepts either shape for
    every Gaussian, so it does not depend on *where* the code switches (moving the switch-over is a harmless edit).
    Natively the form is evaluated in the shape that is numerically sound at the point."""
    alpha = (r * width) / SQRT2
    beta = (t - center) / (width * SQRT2)
    thresh = beta - alpha
    if not S.symbolic:
        if thresh < 0:
            from scipy.special import erfcx as _erfcx

            return [scale * 0.5 * _erfcx(-thresh) * np.exp(-beta * beta)]
        return [closed_form(t, r, center, width, scale, SQRT2)]
    return [closed_form(t, r, center, width, scale, SQRT2), scale * 0.5 * L.fn("erfcx", -thresh) * L.fn("exp", -beta * beta)]


def any_shape(got, base, shape_lists, finish=lambda x: x):
    """got == finish(base + one shape per term), for some choice of shapes (all choices are equal by the lemma)."""
    return L.or_(*[L.eq(got, finish(base + L.sum(list(choice)))) for choice in itertools.product(*shape_lists)])


def backsweep_term(t, r, center, scale, period):
    x1 = L.fn("exp", -r * (t - center + period))
    x2 = L.fn("exp", -r * ((period / 2) - (t - center)))
    x3 = L.fn("exp", -r * period)
    return scale * (x1 + x2) / (1 - x3)


def _kernel_stubs():
    import glotaran.builtin.megacomplexes.decay.decay_matrix_gaussian_irf as gm

    on_index = getattr(gm.calculate_decay_matrix_gaussian_irf_on_index, "py_func", gm.calculate_decay_matrix_gaussian_irf_on_index)
    loop = getattr(gm.calculate_decay_matrix_gaussian_irf, "py_func", gm.calculate_decay_matrix_gaussian_irf)
    return {
        f"{GM}:calculate_decay_matrix_gaussian_irf_on_index": on_index,
        f"{GM}:calculate_decay_matrix_gaussian_irf": loop,
        f"{UT}:calculate_decay_matrix_gaussian_irf_on_index": on_index,
        f"{UT}:calculate_decay_matrix_gaussian_irf": loop,
    }


class ClosedFormBranchLemma(Contract):
    """For all α, β: 1/2 exp(α(α-2β))(1+erf(β-α)) = 1/2 erfcx(α-β) exp(-β²)  (both numerical branches agree)."""

    prop = "C05"
    name = "ClosedFormBranchLemma"
    target = f"{GM}:calculate_decay_matrix_gaussian_irf_on_index"
    trusted = TRUSTED
    strength = "U"
    agreement_runs = 0

    def cases(self, tier):
        yield {"form": "alpha_beta"}

    def build(self, S, case):
        return {"alpha": S.real("alpha"), "beta": S.real("beta")}

    def call(self, S, case, inp):
        return None

    def ensures(self, S, case, inp, out):
        a, b = inp["alpha"], inp["beta"]
        lhs = 0.5 * (1 + L.fn("erf", b - a)) * L.fn("exp", a * (a - 2 * b))
        rhs = 0.5 * L.fn("erfcx", -(b - a)) * L.fn("exp", -b * b)
        yield "erf_branch_equals_erfcx_branch", L.eq(lhs, rhs)


class KernelOnIndex(Contract):
    prop = "C05"
    name = "KernelOnIndex"
    target = f"{GM}:calculate_decay_matrix_gaussian_irf_on_index"
    modules = MODS
    trusted = TRUSTED
    drops = DROPS
    strength = "S"
    agreement_runs = 2
    max_paths = {"quick": 3000, "thorough": 30000}

    def cases(self, tier):
        shapes = [(1, 1, 1), (2, 1, 1), (1, 2, 1), (1, 1, 2), (2, 2, 1)] if tier == "quick" else [(g, r, t) for g in (1, 2, 3) for r in (1, 2) for t in (1, 2)]
        for g, r, t in shapes:
            for bs in (False, True):
                if bs and (g, r, t) not in ((1, 1, 1), (2, 1, 1)):
                    continue
                yield {"gaussians": g, "rates": r, "times": t, "backsweep": bs}

    def build(self, S, case):
        g, r, t = case["gaussians"], case["rates"], case["times"]
        rates = S.real_array("k", r)
        times = S.real_array("t", t)
        centers = S.real_array("mu", g)
        widths = S.real_array("sg", g)
        scales = S.real_array("sc", g)
        for i in range(g):
            S.require(L.gt(widths[i], 0), "widths positive")
        m0 = S.real_array("m0", t, r)
        period = S.real("T") if case["backsweep"] else None
        if period is not None:
            S.require(L.gt(period, 0), "backsweep period positive")
        return {"rates": rates, "times": times, "centers": centers, "widths": widths, "scales": scales, "m0": m0, "period": period, "matrix": np.array(m0, dtype=object if S.symbolic else float, copy=True)}

    def stubs_for(self, S, case, inp):
        return _kernel_stubs() if S.symbolic else {}

    def call(self, S, case, inp):
        import glotaran.builtin.megacomplexes.decay.decay_matrix_gaussian_irf as gm

        M = inp["matrix"].view(SArr) if S.symbolic else inp["matrix"]
        fn = gm.calculate_decay_matrix_gaussian_irf_on_index
        if S.symbolic:
            fn = getattr(fn, "py_func", fn)
        fn(M, inp["rates"], inp["times"], inp["centers"], inp["widths"], inp["scales"], case["backsweep"], inp["period"] if case["backsweep"] else 0.0)
        return np.asarray(M, dtype=object if S.symbolic else float)

    def ensures(self, S, case, inp, out):
        import glotaran.builtin.megacomplexes.decay.decay_matrix_gaussian_irf as gm

        if isinstance(out, Raised):
            yield "no_exception", False
            return
        g, r, t = case["gaussians"], case["rates"], case["times"]
        cells = []
        for ti in range(t):
            for ri in range(r):
                base = inp["m0"][ti, ri]
                shapes = []
                for gi in range(g):
                    shapes.append(kernel_shapes(inp["times"][ti], inp["rates"][ri], inp["centers"][gi], inp["widths"][gi], inp["scales"][gi], gm.SQRT2, S))
                    if case["backsweep"]:
                        valid = _decide(abs(inp["rates"][ri]) * inp["period"] > 0.001, S)
                        if valid:
                            base = base + backsweep_term(inp["times"][ti], inp["rates"][ri], inp["centers"][gi], inp["scales"][gi], inp["period"])
                cells.append(any_shape(out[ti, ri], base, shapes))
        yield "entry_is_initial_plus_sum_over_gaussians_of_closed_form_on_both_branches", L.and_(*cells)


def _kernel_sweep(self, tier, seed):
    from contracts.common import native_sweep

    cases = [{"gaussians": g, "rates": r, "times": t, "backsweep": bs} for g, r, t in ((4, 3, 5), (6, 2, 3)) for bs in (False, True)]

    def env(case, rng):
        e = {f"sg_{i}": round(rng.uniform(0.05, 1.5), 3) for i in range(case["gaussians"])}
        e.update({f"k_{i}": round(rng.uniform(0.05, 3.0), 3) for i in range(case["rates"])})
        e["T"] = round(rng.uniform(5.0, 15.0), 3)
        return e

    return native_sweep(self, cases, envs=env, seed=seed)


KernelOnIndex.bounded_checks = _kernel_sweep


def _per_index_sweep(self, tier, seed):
    from contracts.common import native_sweep

    cases = [{"kind": kind, "normalize": nz, "gaussians": 2, "indices": ni} for kind in ("shift", "dispersion") for nz in (True, False) for ni in ((12, 21) if tier == "quick" else (9, 12, 21, 67))]
    cases += [{"kind": kind, "normalize": True, "gaussians": 2, "indices": 9, "axis_dtype": dt} for kind in ("shift", "dispersion") for dt in ("int64", "int32")]

    def env(case, rng):
        e = {f"w_{i}": round(rng.uniform(0.3, 1.2), 3) for i in range(2)}
        e.update({f"s_{i}": round(rng.uniform(0.5, 2.0), 3) for i in range(2)})
        e.update({"k_0": round(rng.uniform(0.1, 2.0), 3), "wd_0": round(rng.uniform(-0.05, 0.05), 4), "dc_0": 550.0})
        return e

    return native_sweep(self, cases, envs=env, seed=seed)


def _decide(cond, S):
    from pyvc import sym

    if isinstance(cond, (bool, np.bool_)):
        return bool(cond)
    return sym.CUR.decide(cond)


def _params(S, prefix, n):
    from glotaran.parameter import Parameter

    vals = [S.real(f"{prefix}_{i}") for i in range(n)]
    return [Parameter(label=f"{prefix}.{i+1}", value=v) for i, v in enumerate(vals)], vals


class IrfParameter(Contract):
    """IrfMultiGaussian.parameter / IrfSpectralMultiGaussian.parameter: broadcasting, shift, dispersion."""

    prop = "C05"
    name = "IrfParameter"
    target = f"{IRF}:IrfSpectralMultiGaussian.parameter"
    functions = (f"{IRF}:IrfMultiGaussian.parameter", f"{IRF}:IrfMultiGaussian.is_index_dependent", f"{IRF}:IrfSpectralMultiGaussian.is_index_dependent", f"{IRF}:IrfSpectralMultiGaussian.calculate_dispersion")
    modules = MODS
    strength = "S"
    agreement_runs = 2

    def cases(self, tier):
        for nc, nw in ((1, 1), (2, 2), (1, 3), (3, 1), (2, 3)):
            for shift in (False, True):
                yield {"kind": "multi", "nc": nc, "nw": nw, "shift": shift, "scale": nc == 2}
        orders = list(itertools.product(range(0, 4), range(0, 4))) if tier == "thorough" else [(0, 0), (1, 0), (2, 1), (1, 2), (0, 2), (3, 3), (1, 3), (3, 1)]
        for oc, ow in orders:
            for wn in (False, True):
                yield {"kind": "spectral", "nc": 1 if oc % 2 else 2, "nw": 1 if oc % 2 else 2, "oc": oc, "ow": ow, "wavenumber": wn, "shift": (oc + ow) % 3 == 0, "scale": False}

    def build(self, S, case):
        from glotaran.builtin.megacomplexes.decay.irf import IrfMultiGaussian, IrfSpectralMultiGaussian

        nc, nw = case["nc"], case["nw"]
        cp, cv = _params(S, "c", nc)
        wp, wv = _params(S, "w", nw)
        ng = 3
        axis = S.real_array("lam", ng)
        kw = {}
        sv = None
        if case["scale"]:
            sp, sv = _params(S, "s", max(nc, nw))
            kw["scale"] = sp
        shv = None
        if case["shift"]:
            shp, shv = _params(S, "sh", ng)
            kw["shift"] = shp
        if case.get("axis_dtype") and not S.symbolic:
            # native sweep: the global axis as loaded from files (integer wavelengths, float32, descending)
            axis = np.array([round(float(v)) for v in axis]).astype(case["axis_dtype"])
        inp = {"cv": cv, "wv": wv, "sv": sv, "shv": shv, "axis": axis, "ng": ng}
        if case["kind"] == "multi":
            inp["irf"] = IrfMultiGaussian(label="irf", center=cp, width=wp, **kw)
        else:
            dp, dv = _params(S, "dc", 1)
            ccp, ccv = _params(S, "cd", case["oc"])
            wcp, wcv = _params(S, "wd", case["ow"])
            for i in range(ng):
                S.require(L.not_(L.eq(axis[i], 0.0)), "wavelengths non-zero")
            S.require(L.not_(L.eq(dv[0], 0.0)), "dispersion centre non-zero")
            inp.update({"dv": dv[0], "ccv": ccv, "wcv": wcv})
            inp["irf"] = IrfSpectralMultiGaussian(label="irf", center=cp, width=wp, dispersion_center=dp[0], center_dispersion_coefficients=ccp, width_dispersion_coefficients=wcp, model_dispersion_with_wavenumber=case["wavenumber"], **kw)
        return inp

    def call(self, S, case, inp):
        irf = inp["irf"]
        res = []
        for i in range(inp["ng"]):
            c, w, s, sh, bs, bp = irf.parameter(i, inp["axis"])
            res.append((np.array(c, dtype=object if S.symbolic else float, copy=True), np.array(w, dtype=object if S.symbolic else float, copy=True), np.array(s, dtype=object if S.symbolic else float, copy=True), sh, bs, bp))
        extra = {}
        if case["kind"] == "multi" and not case["shift"]:
            c, w, s, sh, bs, bp = irf.parameter(None, inp["axis"])
            extra["none_index"] = (np.array(c, dtype=object if S.symbolic else float), np.array(w, dtype=object if S.symbolic else float), sh)
        return {"per_index": res, "index_dependent": irf.is_index_dependent(), **extra}

    def observe(self, out):
        return out if isinstance(out, Raised) else None

    def ensures(self, S, case, inp, out):
        from glotaran.model import ModelError

        nc, nw = case["nc"], case["nw"]
        if nc != nw and min(nc, nw) != 1:
            yield "incompatible_lengths_raise_ModelError", isinstance(out, Raised) and isinstance(out.exc, ModelError)
            return
        if isinstance(out, Raised):
            yield "no_exception", False
            return
        n = max(nc, nw)
        cv = inp["cv"] if nc == n else [inp["cv"][0]] * n
        wv = inp["wv"] if nw == n else [inp["wv"][0]] * n
        yield "index_dependent_iff_shift_or_dispersion", out["index_dependent"] == (case["shift"] or case["kind"] == "spectral")
        conds_c, conds_w, conds_s, conds_sh = [], [], [], []
        for i, (c, w, s, sh, bs, bp) in enumerate(out["per_index"]):
            if case["kind"] == "spectral":
                lam = inp["axis"][i]
                d = (1e3 / lam - 1e3 / inp["dv"]) if case["wavenumber"] else (lam - inp["dv"]) / 100
                cexp = [cv[g] + L.sum([inp["ccv"][k] * d ** (k + 1) for k in range(case["oc"])]) for g in range(n)]
                wexp = [wv[g] + L.sum([inp["wcv"][k] * d ** (k + 1) for k in range(case["ow"])]) for g in range(n)]
            else:
                cexp, wexp = cv, wv
            conds_c.append(len(c) == n and L.and_(*[L.eq(c[g], cexp[g]) for g in range(n)]))
            conds_w.append(len(w) == n and L.and_(*[L.eq(w[g], wexp[g]) for g in range(n)]))
            if case["scale"]:
                conds_s.append(len(s) == n and L.and_(*[L.eq(s[g], inp["sv"][g]) for g in range(n)]))
            else:
                conds_s.append(len(s) == n and L.and_(*[L.eq(s[g], 1.0) for g in range(n)]))
            if case["shift"]:
                conds_sh.append(L.eq(sh, inp["shv"][i]))
            else:
                conds_sh.append(L.eq(sh, 0.0))
        yield "centres_of_index_i_are_centre_plus_dispersion_polynomial_at_index_i", L.and_(*conds_c)
        yield "widths_of_index_i_are_width_plus_dispersion_polynomial_at_index_i", L.and_(*conds_w)
        yield "scales_default_to_one", L.and_(*conds_s)
        yield "shift_of_index_i", L.and_(*conds_sh)
        yield "parameters_of_the_item_not_modified", L.and_(*[L.eq(p.value, v) for p, v in zip(inp["irf"].center if isinstance(inp["irf"].center, list) else [inp["irf"].center], inp["cv"])])
        if "none_index" in out:
            c, w, sh = out["none_index"]
            yield "index_independent_call_gives_plain_parameters", L.and_(*[L.eq(c[g], cv[g]) for g in range(n)], *[L.eq(w[g], wv[g]) for g in range(n)], L.eq(sh, 0.0))


def _irf_parameter_sweep(self, tier, seed):
    """B: native runs with global axes of the dtypes data files produce (int64/int32/float64 wavelengths; float32 left out: the axis value then carries float32 rounding, which the exact postcondition would misreport)."""
    from contracts.common import native_sweep

    cases = [
        {"kind": "spectral", "nc": 2, "nw": 2, "oc": oc, "ow": ow, "wavenumber": wn, "shift": sh, "scale": False, "axis_dtype": dt}
        for dt in ("int64", "int32", "float64")
        for wn in (False, True)
        for (oc, ow, sh) in ((2, 1, False), (1, 3, True))
    ]

    def env(case, rng):
        lams = rng.sample(range(350, 800), 3)
        e = {f"lam_{i}": float(v) for i, v in enumerate(lams)}
        e["dc_0"] = float(rng.choice([500, 550, 620]))
        for nm, n in (("c", 2), ("w", 2), ("cd", case["oc"]), ("wd", case["ow"]), ("sh", 3)):
            for i in range(n):
                e[f"{nm}_{i}"] = round(rng.uniform(0.1, 2.0), 3)
        return e

    return native_sweep(self, cases, envs=env, tries=3, seed=seed)


IrfParameter.bounded_checks = _irf_parameter_sweep


class ImplementationPerIndex(Contract):
    """decay_matrix_implementation_index_dependent / _independent: matrix[i] is the kernel with
    centres_i - shift_i and widths_i, divided by the sum of scales iff normalize."""

    prop = "C05"
    name = "ImplementationPerIndex"
    target = f"{UT}:decay_matrix_implementation_index_dependent"
    functions = (f"{UT}:decay_matrix_implementation_index_independent", f"{UT}:index_dependent", f"{GM}:calculate_decay_matrix_gaussian_irf")
    modules = MODS
    trusted = TRUSTED
    drops = DROPS
    strength = "S"
    agreement_runs = 0
    max_paths = {"quick": 3000, "thorough": 30000}

    def cases(self, tier):
        for kind in ("shift", "dispersion", "plain"):
            for normalize in (True, False):
                for g in (1, 2):
                    yield {"kind": kind, "normalize": normalize, "gaussians": g, "indices": 2 if kind != "plain" else 1}

    def build(self, S, case):
        from glotaran.builtin.megacomplexes.decay.irf import IrfMultiGaussian, IrfSpectralMultiGaussian

        g, ni = case["gaussians"], case["indices"]
        cp, cv = _params(S, "c", g)
        wp, wv = _params(S, "w", g)
        sp, sv = _params(S, "s", g)
        for i in range(g):
            S.require(L.gt(wv[i], 0), "widths positive")
        axis = np.array([500.0, 620.0])[:ni] if ni <= 2 else np.linspace(500.0, 620.0, ni)
        if case.get("axis_dtype"):
            axis = (500 + 7 * np.arange(ni)).astype(case["axis_dtype"])
        rates = S.real_array("k", 1)
        times = S.real_array("t", 1)
        inp = {"cv": cv, "wv": wv, "sv": sv, "axis": axis, "rates": rates, "times": times, "ni": ni}
        if case["kind"] == "shift":
            shp, shv = _params(S, "sh", ni)
            irf = IrfMultiGaussian(label="irf", center=cp, width=wp, scale=sp, shift=shp, normalize=case["normalize"])
            inp["centers_i"] = [[cv[j] - shv[i] for j in range(g)] for i in range(ni)]
            inp["widths_i"] = [list(wv) for _ in range(ni)]
        elif case["kind"] == "dispersion":
            dp, dv = _params(S, "dc", 1)
            ccp, ccv = _params(S, "cd", 2)
            wcp, wcv = _params(S, "wd", 1)
            irf = IrfSpectralMultiGaussian(label="irf", center=cp, width=wp, scale=sp, normalize=case["normalize"], dispersion_center=dp[0], center_dispersion_coefficients=ccp, width_dispersion_coefficients=wcp)
            ds = [(float(axis[i]) - dv[0]) / 100 for i in range(ni)]
            inp["centers_i"] = [[cv[j] + ccv[0] * ds[i] + ccv[1] * ds[i] ** 2 for j in range(g)] for i in range(ni)]
            inp["widths_i"] = [[wv[j] + wcv[0] * ds[i] for j in range(g)] for i in range(ni)]
            for i in range(ni):
                for j in range(g):
                    S.require(L.gt(inp["widths_i"][i][j], 0), "effective widths positive")
        else:
            irf = IrfMultiGaussian(label="irf", center=cp, width=wp, scale=sp, normalize=case["normalize"])
            inp["centers_i"] = [list(cv)]
            inp["widths_i"] = [list(wv)]
        inp["irf"] = irf
        return inp

    def stubs_for(self, S, case, inp):
        return _kernel_stubs() if S.symbolic else {}

    def call(self, S, case, inp):
        import glotaran.builtin.megacomplexes.decay.util as ut

        class DM:
            irf = inp["irf"]

        dep = ut.index_dependent(DM)
        ni = inp["ni"]
        if dep:
            M = np.zeros((ni, 1, 1), dtype=float)
            if S.symbolic:
                from pyvc.shim import NP

                M = NP.zeros((ni, 1, 1))
            ut.decay_matrix_implementation_index_dependent(M, inp["rates"], inp["axis"], inp["times"], DM)
        else:
            M = np.zeros((1, 1), dtype=float)
            if S.symbolic:
                from pyvc.shim import NP

                M = NP.zeros((1, 1))
            ut.decay_matrix_implementation_index_independent(M, inp["rates"], inp["axis"], inp["times"], DM)
        return {"dep": dep, "M": np.asarray(M, dtype=object if S.symbolic else float)}

    def observe(self, out):
        return out if isinstance(out, Raised) else None

    def ensures(self, S, case, inp, out):
        import glotaran.builtin.megacomplexes.decay.decay_matrix_gaussian_irf as gm

        if isinstance(out, Raised):
            yield "no_exception", False
            return
        yield "index_dependent_iff_shift_or_dispersion", out["dep"] == (case["kind"] != "plain")
        g, ni = case["gaussians"], inp["ni"]
        tot = L.sum(inp["sv"])
        cells = []
        for i in range(ni):
            shapes = [kernel_shapes(inp["times"][0], inp["rates"][0], inp["centers_i"][i][j], inp["widths_i"][i][j], inp["sv"][j], gm.SQRT2, S) for j in range(g)]
            got = out["M"][i, 0, 0] if out["dep"] else out["M"][0, 0]
            cells.append(any_shape(got, 0, shapes, (lambda x: x / tot) if case["normalize"] else (lambda x: x)))
        yield "matrix_at_index_i_is_kernel_with_effective_centre_and_width_of_index_i", L.and_(*cells)


ImplementationPerIndex.bounded_checks = _per_index_sweep


class ConvolutionLemma(Contract):
    """`convolution_closed_form` (Lean 4 + Mathlib, re-checked by `lean` on every run): for σ > 0 and all k, μ, t
        ∫_{-∞}^{t} exp(-k (t - s)) · exp(-(s - μ)²/(2σ²)) / (σ √(2π)) ds = 1/2 · exp(α(α - 2β)) · (1 + erf(β - α)),
    erf being defined by its integral - the step from "the columns are the closed form" (discharged on the kernels) to
    "each decay column equals the convolution of exp(-k t) with the area-normalised Gaussian".  `erf_neg`: erf is odd
    (a ground axiom of the z3 side)."""

    prop = "C05"
    name = "ConvolutionLemma"
    lemma_files = (__import__("pathlib").Path(__file__).resolve().parent.parent / "lemmas" / "Convolution.lean",)
    target = None
    strength = "U"
    trusted = ("Lean 4.33 kernel and Mathlib (Lebesgue integral, Real.exp, Real.sqrt, fundamental theorem of calculus on (-∞, a]); axioms propext, Classical.choice, Quot.sound",)

    def cases(self, tier):
        return iter(())

    def static_obligations(self, tier):
        from pyvc.lean import check_lemmas

        return check_lemmas(
            self.lemma_files[0],
            {
                "PyVC.convolution_closed_form": "lemma_closed_form_is_the_convolution_with_the_area_normalised_gaussian",
                "PyVC.erf_neg": "lemma_erf_is_odd",
                "PyVC.erf_bounds": "lemma_erf_lies_strictly_between_minus_one_and_one",
            },
        )


from contracts.common import FunctionAxiomsBase  # noqa: E402


class FunctionAxioms(FunctionAxiomsBase):
    abstract = False
    prop = "C05"
