"""Running the real optimisation pipeline on a harness scheme, with observation points.

``run_optimizer`` executes the real ``Optimizer.__init__`` and ``Optimizer.optimize`` with
``scipy.optimize.least_squares`` replaced by its contract stub (calls ``fun`` at ``x0`` -
and at further trial points when asked - and hands back an ``OptimizeResult``), and the
residual functions wrapped by the recording stub of harness.SolveLog.
"""
from __future__ import annotations

import numpy as np

from contracts import harness
from pyvc.contract import L, Raised
from pyvc.sym import SArr, SymReal, is_sym

PIPE_MODS = (
    "glotaran.optimization.optimizer",
    "glotaran.optimization.optimization_group",
    "glotaran.optimization.data_provider",
    "glotaran.optimization.matrix_provider",
    "glotaran.optimization.estimation_provider",
    "glotaran.optimization.nnls",
    "glotaran.parameter.parameter",
    "glotaran.parameter.parameters",
    "glotaran.parameter.parameter_history",
    "glotaran.model.interval_item",
    "glotaran.model.clp_constraint",
    "glotaran.model.dataset_group",
    "glotaran.model.dataset_model",
    "glotaran.model.item",
    "glotaran.simulation.simulation",
)

TRUSTED_PIPE = (
    "scipy.optimize.least_squares replaced by its contract: calls fun(x0) first, then fun at arbitrary points within the bounds, returns OptimizeResult(x, fun=fun(x), jac, nfev, njev, optimality, message) for one of the evaluated points - not necessarily the last one evaluated; propagates exceptions of fun",
    "residual functions replaced at the call site by their C01 contract: clp arbitrary (fresh symbols), residual = data - matrix @ clp (recorded in the solve log)",
    "Megacomplex.calculate_matrix interface: abstract megacomplex returning its labels and a fresh matrix of arbitrary reals (named symbols)",
    "xarray/pandas executed for real on object arrays; coordinates are concrete and enumerated",
)


class LsqTrace:
    def __init__(self):
        self.calls = []
        self.evals = []


def make_least_squares(S, trace, symbolic, n_evals=1, jac=False, fail_at=None, fail_exc=None, post_evals=0):
    from scipy.optimize import OptimizeResult

    def least_squares(fun, x0, jac_=None, bounds=(-np.inf, np.inf), method="trf", max_nfev=None, verbose=0, ftol=1e-8, gtol=1e-8, xtol=1e-8, **kw):
        trace.calls.append({"x0": x0, "bounds": bounds, "method": method, "max_nfev": max_nfev, "verbose": verbose, "ftol": ftol, "gtol": gtol, "xtol": xtol})
        x = x0
        f = None
        for k in range(n_evals):
            if k > 0:
                # a trial point anywhere inside the bounds (contract of least_squares)
                x = np.empty(len(x0), dtype=object if symbolic else float)
                for j in range(len(x0)):
                    x[j] = S.named(f"x!{k}_{j}")
                    lo, hi = bounds[0][j], bounds[1][j]
                    S.require(L.le(lo, x[j]), "trial point within bounds")
                    S.require(L.le(x[j], hi), "trial point within bounds")
                if symbolic:
                    x = x.view(SArr)
            if fail_at is not None and k + 1 == fail_at:
                trace.evals.append({"x": x, "f": None, "failed": True})
                harness.CURRENT["fail_next"] = fail_exc
            f = fun(x)
            trace.evals.append({"x": x, "f": f})
        # least_squares may evaluate fun at further points after the one it returns (finite-difference Jacobian,
        # rejected trial steps): result.x / result.fun are those of the returned point, not of the last call
        for k in range(post_evals):
            xp = np.empty(len(x0), dtype=object if symbolic else float)
            for j in range(len(x0)):
                xp[j] = S.named(f"x!post{k}_{j}")
                S.require(L.le(bounds[0][j], xp[j]), "trial point within bounds")
                S.require(L.le(xp[j], bounds[1][j]), "trial point within bounds")
            if symbolic:
                xp = xp.view(SArr)
            trace.evals.append({"x": xp, "f": fun(xp), "post": True})
        n, p = len(f), len(x0)
        J = np.zeros((n, p), dtype=object if (symbolic and jac) else float)
        if jac:
            for i in range(n):
                for j in range(p):
                    J[i, j] = S.named(f"J_{i}_{j}")
        if symbolic and jac:
            J = J.view(SArr)
        return OptimizeResult(x=x, fun=f, jac=J, nfev=n_evals, njev=1, optimality=S.named("optimality") if jac else 0.0, message="stub", status=1, success=True, cost=None)

    return least_squares


class Run:
    """Outcome of a pipeline run (observation points)."""


def run_optimizer(S, b, symbolic, n_evals=1, jac=False, create_result=False, optimizer_kwargs=None, before_optimize=None, post_evals=0):
    from glotaran.optimization import optimizer as om

    r = Run()
    r.b = b
    trace = LsqTrace()
    r.trace = trace
    saved = om.least_squares
    om.least_squares = make_least_squares(b.S, trace, symbolic, n_evals=n_evals, jac=jac, post_evals=post_evals)
    harness.CURRENT["S"] = b.S
    try:
        with harness.residual_stubs(b.S, symbolic) as log:
            r.log = log
            opt = om.Optimizer(b.scheme, **(optimizer_kwargs or {"verbose": False, "raise_exception": True}))
            r.optimizer = opt
            if before_optimize:
                before_optimize(opt)
            r.n_log_init = len(log.entries)
            opt.optimize()
            returned = [e for e in trace.evals if not e.get("post")]
            r.penalty = returned[-1]["f"] if returned else None
            r.n_log_eval = len(log.entries)
            r.groups = list(opt._optimization_groups)
            r.group_names = list(b.model.get_dataset_groups().keys())
            # observation points of the last evaluation
            r.group_penalties = [g.get_full_penalty() for g in r.groups]
            r.snap = [snapshot_group(g) for g in r.groups]
            if create_result:
                r.result = opt.create_result()
                r.n_log_result = len(log.entries)
    finally:
        om.least_squares = saved
    return r


def snapshot_group(g):
    """Label/matrix tables of a group right after an evaluation (state named in the property anchors)."""
    from glotaran.optimization.matrix_provider import MatrixProviderLinked

    mp = g._matrix_provider
    dp = g._data_provider
    s = {"linked": isinstance(mp, MatrixProviderLinked)}
    if s["linked"]:
        s["aligned_axis"] = [float(x) for x in dp.aligned_global_axis]
        s["labels"] = [list(mp.get_aligned_matrix_container(i).clp_labels) for i in range(len(s["aligned_axis"]))]
        s["full_labels"] = [list(x) for x in mp.aligned_full_clp_labels]
        s["group_labels"] = [str(dp.get_aligned_group_label(i)) for i in range(len(s["aligned_axis"]))]
        s["group_definitions"] = {str(k): list(v) for k, v in dp.group_definitions.items()}
        s["dataset_indices"] = [[int(x) for x in dp.get_aligned_dataset_indices(i)] for i in range(len(s["aligned_axis"]))]
    else:
        s["labels"] = {}
        s["full_labels"] = {}
        s["global_labels"] = {}
        for label, dm in g._dataset_group.dataset_models.items():
            s["full_labels"][label] = list(mp.get_matrix_container(label).clp_labels)
            if label in mp._global_matrix_containers:
                s["global_labels"][label] = list(mp.get_global_matrix_container(label).clp_labels)
            else:
                n = len(dp.get_global_axis(label))
                s["labels"][label] = [list(mp.get_prepared_matrix_container(label, i).clp_labels) for i in range(n)]
    s["number_of_clps"] = g.number_of_clps
    return s


def flat(x):
    return list(np.asarray(x, dtype=object).reshape(-1))


def symbols_of(x):
    """Names of the z3 constants occurring in a symbolic scalar."""
    import z3

    out = set()
    if type(x) is not SymReal:
        return out
    stack = [x.t]
    seen = set()
    while stack:
        t = stack.pop()
        if t.get_id() in seen:
            continue
        seen.add(t.get_id())
        if z3.is_const(t) and t.decl().kind() == z3.Z3_OP_UNINTERPRETED:
            out.add(t.decl().name())
        stack.extend(t.children())
    return out


def dof_precondition_violated(b, out):
    """True iff the run raised ZeroDivisionError and the reference degrees of freedom are exactly 0
    (reduced chi-square undefined: outside the precondition of C03/C13, not a defect)."""
    from contracts import harness
    from contracts.c02_objective import compare_solves, ref_penalties

    if not (isinstance(out, Raised) and isinstance(out.exc, ZeroDivisionError)):
        return False
    ref = harness.Ref(b)
    cfg = b.cfg
    n_data = sum(len(ds.model_axis) * len(ds.global_axis) for ds in cfg.datasets)
    n_free = sum(1 for p in b.scheme.parameters.all() if p.vary and p.expression is None)
    n_clps = 0
    n_pen = 0
    for gname in dict.fromkeys(ds.group for ds in cfg.datasets):
        rs = ref.solves(gname)
        for r in rs:
            n_clps += len(r["labels"])
        if cfg.penalties:
            n_pen += len(cfg.penalties) * (1 if ref.is_linked(gname) else sum(1 for ds in ref.group_datasets(gname) if not ds.global_megacomplexes))
    return n_data + n_pen - n_free - n_clps == 0 or (cfg.penalties and n_data - n_free - n_clps <= 0 <= n_data + n_pen - n_free - n_clps)
