"""C11 - parameter transformations, bounds and fixed parameters are respected."""
from __future__ import annotations

import itertools

import numpy as np

from contracts import configs, harness
from contracts.pipeline import PIPE_MODS, TRUSTED_PIPE, flat, run_optimizer
from pyvc import shim
from pyvc.contract import Contract, L, Raised
from pyvc.sym import SArr, SymReal, is_sym, isfloat

INF = float("inf")
MODS = ("glotaran.parameter.parameter", "glotaran.parameter.parameters", "glotaran.parameter.parameter_history")


def _bound(S, name, kind):
    if kind == "fin":
        return S.real(name)
    return {"-inf": -INF, "+inf": INF, "zero": 0.0}[kind]


class RoundTrip(Contract):
    """get_value_and_bounds_for_optimization followed by set_value_from_optimization is the identity."""

    prop = "C11"
    name = "RoundTrip"
    target = "glotaran.parameter.parameter:Parameter.get_value_and_bounds_for_optimization"
    functions = ("glotaran.parameter.parameter:Parameter.set_value_from_optimization", "glotaran.parameter.parameter:_log_value")
    modules = MODS
    trusted = ("exp/log uninterpreted with ground axioms: exp(log x) = x for x > 0, both strictly increasing",)
    strength = "U"
    agreement_runs = 3

    def cases(self, tier):
        for nn in (False, True):
            for lo in ("-inf", "fin") + (("zero",) if nn else ()):
                for hi in ("+inf", "fin"):
                    yield {"non_negative": nn, "min": lo, "max": hi}

    def build(self, S, case):
        from glotaran.parameter import Parameter

        v = S.real("v")
        lo = _bound(S, "lo", case["min"])
        hi = _bound(S, "hi", case["max"])
        if case["non_negative"]:
            S.require(L.gt(v, 0), "non-negative parameter has a positive value")
            if case["min"] == "fin":
                S.require(L.gt(lo, 0), "finite lower bound of a non-negative parameter is positive (log of a negative bound is outside the contract)")
                S.require(L.not_(L.eq(lo, 1.0)), "a bound equal to the guard value 1 is shifted by 1e-10 like a value (excluded: contract note)")
            if case["max"] == "fin":
                S.require(L.gt(hi, 0), "finite upper bound positive")
                S.require(L.not_(L.eq(hi, 1.0)), "a bound equal to the guard value 1 is shifted by 1e-10 like a value (excluded: contract note)")
        p = Parameter(label="p", value=v, minimum=lo, maximum=hi, non_negative=case["non_negative"])
        return {"p": p, "v": v, "lo": lo, "hi": hi}

    def call(self, S, case, inp):
        p = inp["p"]
        x, xlo, xhi = p.get_value_and_bounds_for_optimization()
        before = (p.value, p.minimum, p.maximum)
        p.set_value_from_optimization(x)
        return {"x": x, "xlo": xlo, "xhi": xhi, "after": p.value, "unchanged_by_get": before}

    def observe(self, out):
        return out if isinstance(out, Raised) else (out["x"], out["xlo"], out["xhi"], out["after"])

    def ensures(self, S, case, inp, out):
        if isinstance(out, Raised):
            yield "no_exception", False
            return
        v, lo, hi = inp["v"], inp["lo"], inp["hi"]
        x, xlo, xhi, after = out["x"], out["xlo"], out["xhi"], out["after"]
        if not case["non_negative"]:
            yield "plain_parameter_passes_through", L.and_(L.eq(x, v), _same_ext(xlo, lo), _same_ext(xhi, hi))
            yield "round_trip_is_identity", L.eq(after, v)
            return
        # non-negative: optimised as logarithm
        if S.symbolic:
            yield "value_is_log_with_guard_at_one", L.or_(L.and_(L.not_(L.eq(v, 1.0)), L.eq(x, L.fn("log", v))), L.and_(L.eq(v, 1.0), L.eq(x, L.fn("log", v + 1e-10))))
        yield "round_trip_is_identity_up_to_guard", L.or_(L.and_(L.not_(L.eq(v, 1.0)), L.eq(after, v)), L.and_(L.eq(v, 1.0), L.le(abs(after - v), 2e-10)))
        yield "result_positive", L.gt(after, 0)
        for name, orig, tr in (("lower", lo, xlo), ("upper", hi, xhi)):
            if isfloat(orig) and np.isinf(orig):
                yield f"infinite_{name}_bound_passes_through", isfloat(tr) and tr == orig
            elif isfloat(orig) and orig == 0.0:
                yield "zero_lower_bound_becomes_minus_infinity", isfloat(tr) and tr == -INF
            else:
                # the transformed bound brackets the transformed value iff the original one does
                if name == "lower":
                    yield "lower_bound_brackets_iff_original_does", L.iff(L.le(tr, x), L.or_(L.le(orig, v), L.and_(L.eq(v, 1.0), L.le(orig, v + 1e-10))))
                else:
                    yield "upper_bound_brackets_iff_original_does", L.iff(L.le(x, tr), L.or_(L.and_(L.not_(L.eq(v, 1.0)), L.le(v, orig)), L.and_(L.eq(v, 1.0), L.le(v + 1e-10, orig))))


def _same_ext(a, b):
    if isfloat(a) and isfloat(b) and (np.isinf(a) or np.isinf(b)):
        return a == b
    return L.eq(a, b)


class Selection(Contract):
    """Which parameters are handed to the optimiser, in which order, and where values are written back."""

    prop = "C11"
    name = "Selection"
    target = "glotaran.parameter.parameters:Parameters.get_label_value_and_bounds_arrays"
    functions = (
        "glotaran.parameter.parameters:Parameters.set_from_label_and_value_arrays",
        "glotaran.parameter.parameter:set_transformed_expression",
    )
    modules = MODS
    trusted = ("asteval evaluates the transformed expression with Python's operators (executed for real)",)
    strength = "S"
    agreement_runs = 0

    KINDS = ("free", "fixed", "expr", "nonneg", "bounded")

    def cases(self, tier):
        n = 3 if tier == "quick" else 4
        for idx, kinds in enumerate(itertools.product(self.KINDS, repeat=n)):
            if tier == "quick" and idx % 3:
                continue
            yield {"kinds": kinds}
        yield {"kinds": ("free", "expr", "fixed", "nonneg", "bounded")}
        yield {"kinds": ("expr", "expr", "free", "free", "fixed")}
        # non-negative parameters that also carry finite bounds (minimum below or above 1): both bounds go to the optimiser as logarithms
        yield {"kinds": ("nonneg_bounded", "free", "nonneg_bounded")}
        # `vary` switched on after construction for a parameter that is defined by an expression: still never handed to the optimiser
        yield {"kinds": ("free", "expr_vary_later", "free")}
        yield {"kinds": ("expr_vary_later", "fixed", "free", "expr")}
        yield {"kinds": ("fixed", "nonneg_bounded", "expr", "nonneg")}

    def build(self, S, case):
        from glotaran.parameter import Parameter, Parameters

        pars, vals = {}, {}
        kinds = case["kinds"]
        free_label = next((f"g.{i+1}" for i, k in enumerate(kinds) if k not in ("expr", "expr_vary_later")), None)
        for i, k in enumerate(kinds):
            label = f"g.{i+1}"
            v = S.real(f"v_{i}")
            vals[label] = v
            kw = {}
            if k == "fixed":
                kw["vary"] = False
            elif k in ("expr", "expr_vary_later"):
                if free_label is None:
                    kw["expression"] = "2.0"
                else:
                    kw["expression"] = f"${free_label} * 2"
            elif k == "nonneg":
                kw["non_negative"] = True
                S.require(L.gt(v, 0), "non-negative value positive")
                S.require(L.not_(L.eq(v, 1.0)), "not the guard value")
            elif k == "nonneg_bounded":
                kw["non_negative"] = True
                lo, hi = S.real(f"lo_{i}"), S.real(f"hi_{i}")
                S.require(L.gt(lo, 0), "minimum of a non-negative parameter positive")
                S.require(L.le(lo, v), "value within bounds")
                S.require(L.le(v, hi), "value within bounds")
                for q in (v, lo, hi):
                    S.require(L.not_(L.eq(q, 1.0)), "not the guard value")
                kw["minimum"], kw["maximum"] = lo, hi
            elif k == "bounded":
                lo, hi = S.real(f"lo_{i}"), S.real(f"hi_{i}")
                S.require(L.le(lo, v), "value within bounds")
                S.require(L.le(v, hi), "value within bounds")
                kw["minimum"], kw["maximum"] = lo, hi
            pars[label] = Parameter(label=label, value=v, **kw)
            if k == "expr_vary_later":
                pars[label].vary = True
        new = {label: S.real(f"n_{i}") for i, label in enumerate(pars)}
        return {"pars": pars, "vals": vals, "new": new, "P": Parameters(pars), "free_label": free_label}

    def call(self, S, case, inp):
        P = inp["P"]
        labels, values, lower, upper = P.get_label_value_and_bounds_arrays(exclude_non_vary=True)
        all_labels, all_values, _, _ = P.get_label_value_and_bounds_arrays()
        newvals = [inp["new"][lab] for lab in labels]
        arr = np.array(newvals, dtype=object if S.symbolic else float)
        P.set_from_label_and_value_arrays(labels, arr.view(SArr) if S.symbolic else arr)
        after = {p.label: (p.value, p.vary, p.expression, p.minimum, p.maximum, p.non_negative) for p in P.all()}
        try:
            P.set_from_label_and_value_arrays(labels + ["g.1"], arr)
            mismatch = None
        except ValueError as e:
            mismatch = str(e)
        except Exception as e:
            mismatch = e
        return {"labels": labels, "values": values, "lower": lower, "upper": upper, "all_labels": all_labels, "after": after, "mismatch": mismatch}

    def observe(self, out):
        return out if isinstance(out, Raised) else None

    def ensures(self, S, case, inp, out):
        if isinstance(out, Raised):
            yield "no_exception", False
            return
        kinds = case["kinds"]
        pars, vals, new = inp["pars"], inp["vals"], inp["new"]
        want = [f"g.{i+1}" for i, k in enumerate(kinds) if k in ("free", "nonneg", "bounded", "nonneg_bounded")]
        yield "free_labels_are_varying_non_expression_parameters_in_declaration_order", list(out["labels"]) == want
        yield "all_labels_in_declaration_order", list(out["all_labels"]) == list(pars)
        yield "expression_forces_vary_false", all(pars[f"g.{i+1}"].vary is False for i, k in enumerate(kinds) if k == "expr")
        if list(out["labels"]) != want:
            return
        pos = []
        for j, lab in enumerate(want):
            k = kinds[int(lab.split(".")[1]) - 1]
            v = vals[lab]
            if k == "nonneg_bounded":
                if S.symbolic:
                    pos.append(L.eq(out["values"][j], L.fn("log", v)))
                    pos.append(L.eq(out["lower"][j], L.fn("log", pars[lab].minimum)))
                    pos.append(L.eq(out["upper"][j], L.fn("log", pars[lab].maximum)))
                else:
                    import math

                    pos.append(abs(float(out["lower"][j]) - math.log(float(pars[lab].minimum))) < 1e-9 and abs(float(out["upper"][j]) - math.log(float(pars[lab].maximum))) < 1e-9)
            elif k == "nonneg":
                if S.symbolic:
                    pos.append(L.eq(out["values"][j], L.fn("log", v)))
                pos.append(isfloat(out["lower"][j]) and out["lower"][j] == -INF)
            else:
                pos.append(L.eq(out["values"][j], v))
                pos.append(_same_ext(out["lower"][j], pars[lab].minimum))
                pos.append(_same_ext(out["upper"][j], pars[lab].maximum))
        yield "value_and_bounds_at_position_i_belong_to_label_i", L.and_(*pos)
        wr = []
        for i, k in enumerate(kinds):
            lab = f"g.{i+1}"
            val, vary, expr, mn, mx, nn = out["after"][lab]
            if k in ("free", "bounded"):
                wr.append(L.eq(val, new[lab]))
            elif k in ("nonneg", "nonneg_bounded"):
                if S.symbolic:
                    wr.append(L.eq(val, L.fn("exp", new[lab])))
            elif k == "fixed":
                wr.append(L.eq(val, vals[lab]))
            elif k in ("expr", "expr_vary_later"):
                fl = inp["free_label"]
                if fl is None:
                    wr.append(L.eq(val, 2.0))
                else:
                    src = out["after"][fl][0]
                    wr.append(L.eq(val, src * 2))
            wr.append(vary == pars[lab].vary and expr == pars[lab].expression and nn == pars[lab].non_negative)
        yield "values_written_to_their_labels_only_fixed_and_expressions_keep_definition", L.and_(*wr)
        yield "length_mismatch_rejected", isinstance(out["mismatch"], str) and "not equal" in out["mismatch"]


class HistoryRestore(Contract):
    """Parameters.set_from_history: every parameter gets the history value recorded under *its own label*, whatever the
    order of the history's columns (a history file written for another declaration order), non-negative parameters back
    through exp; ParameterHistory.append records labels and optimiser-space values in one ordering."""

    prop = "C11"
    name = "HistoryRestore"
    target = "glotaran.parameter.parameters:Parameters.set_from_history"
    functions = (
        "glotaran.parameter.parameter_history:ParameterHistory.append",
        "glotaran.parameter.parameter_history:ParameterHistory.get_parameters",
        "glotaran.parameter.parameters:Parameters.set_from_label_and_value_arrays",
    )
    modules = MODS + ("glotaran.parameter.parameter_history",)
    strength = "S"
    agreement_runs = 0

    KINDS = ("free", "nonneg", "bounded", "fixed")

    def cases(self, tier):
        n = 3
        for ki, kinds in enumerate(itertools.product(self.KINDS, repeat=n)):
            if tier == "quick" and ki % 4:
                continue
            for perm in itertools.permutations(range(n)):
                yield {"kinds": kinds, "history_order": perm}

    def build(self, S, case):
        from glotaran.parameter import Parameter, Parameters

        def make(prefix, order):
            pars = {}
            for i in order:
                k = case["kinds"][i]
                v = S.real(f"{prefix}_{i}")
                kw = {}
                if k == "fixed":
                    kw["vary"] = False
                elif k == "nonneg":
                    kw["non_negative"] = True
                    S.require(L.gt(v, 0), "non-negative value positive")
                    S.require(L.not_(L.eq(v, 1.0)), "not the guard value")
                elif k == "bounded":
                    kw["minimum"], kw["maximum"] = -1000.0, 1000.0
                pars[f"g.{i+1}"] = Parameter(label=f"g.{i+1}", value=v, **kw)
            return Parameters(pars)

        n = len(case["kinds"])
        return {"target": make("cur", range(n)), "recorded": make("rec", case["history_order"]), "n": n}

    def call(self, S, case, inp):
        from glotaran.parameter.parameter_history import ParameterHistory

        h = ParameterHistory()
        h.append(inp["recorded"])
        labels = list(h.parameter_labels)
        inp["target"].set_from_history(h, 0)
        out = {"labels": labels, "after": {p.label: p.value for p in inp["target"].all()}, "recorded": {p.label: p.value for p in inp["recorded"].all()}}
        # a second record from a parameter set that holds the same labels in another order (the target, declared 1..n):
        # refused, or stored under its own labels - never silently under the columns of the first order
        second = {p.label: p.value for p in inp["target"].all()}
        try:
            h.append(inp["target"])
            appended = True
        except ValueError:
            appended = False
        out["second"] = (appended, second, inp["recorded"])
        if appended:
            inp["recorded"].set_from_history(h, 1)
            out["second_restored"] = {p.label: p.value for p in inp["recorded"].all()}
        return out

    def observe(self, out):
        return out if isinstance(out, Raised) else None

    def ensures(self, S, case, inp, out):
        if isinstance(out, Raised):
            yield "no_exception", False
            return
        order = [f"g.{i+1}" for i in case["history_order"]]
        yield "history_labels_are_iteration_then_the_recorded_declaration_order", out["labels"] == ["iteration"] + order
        conds = []
        for lab, v in out["after"].items():
            conds.append(L.eq(v, out["recorded"][lab]))
        yield "every_parameter_is_restored_from_the_column_of_its_own_label", L.and_(*conds)
        appended, second, _ = out["second"]
        same_order = list(case["history_order"]) == list(range(len(case["kinds"])))
        if appended:
            yield "a_record_in_another_label_order_is_refused_or_stored_under_its_own_labels", L.and_(*[L.eq(v, second[lab]) for lab, v in out["second_restored"].items()])
        else:
            yield "a_record_in_another_label_order_is_refused_or_stored_under_its_own_labels", not same_order


class OptimizerBounds(Contract):
    """Optimizer.optimize hands x0 / bounds / method / tolerances to least_squares in label order; with
    least_squares staying inside the bounds (T) every recorded iterate respects [minimum, maximum]."""

    prop = "C11"
    name = "OptimizerBounds"
    target = "glotaran.optimization.optimizer:Optimizer.optimize"
    functions = (
        "glotaran.parameter.parameter_history:ParameterHistory.append",
        "glotaran.optimization.optimizer:Optimizer.objective_function",
        "glotaran.optimization.optimizer:Optimizer.calculate_covariance_matrix_and_standard_errors",
    )
    modules = PIPE_MODS + ("glotaran.project.result",)
    trusted = TRUSTED_PIPE + ("least_squares evaluates fun only at points inside the bounds it is given (trial points are constrained accordingly)",)
    strength = "S"
    agreement_runs = 0
    max_paths = {"quick": 600, "thorough": 3000}

    METHODS = {"TrustRegionReflection": "trf", "Dogbox": "dogbox", "Levenberg-Marquardt": "lm"}

    def cases(self, tier):
        for method in self.METHODS:
            for variant in ("plain", "bounded", "nonneg", "nonneg_after_plain", "fixed_and_expr"):
                if method == "Levenberg-Marquardt" and variant in ("bounded", "nonneg", "nonneg_after_plain"):
                    continue  # scipy rejects bounds with lm (T: exceptional contract of least_squares)
                yield {"method": method, "variant": variant}

    def build(self, S, case):
        from contracts.configs import M2, VP
        from contracts.harness import DS, Cfg

        cfg = Cfg("c11_scales", (DS("ds1", (0.0, 1.0, 2.0, 3.0, 4.0, 5.0), (0.0, 1.0), megacomplexes=("m1", "m2"), mc_scales=True, scale=True),), megacomplexes=M2, groups={"default": (False, VP)})
        b = harness.build(S, cfg)
        b.scheme.optimization_method = case["method"]
        b.scheme.ftol, b.scheme.gtol, b.scheme.xtol = 1e-5, 1e-6, 1e-7
        b.scheme.maximum_number_function_evaluations = 7
        labels = [p.label for p in b.parameters.all()]
        v = case["variant"]
        info = {}
        for i, lab in enumerate(labels):
            p = b.parameters.get(lab)
            if v == "bounded":
                lo, hi = b.S.named(f"lo_{i}"), b.S.named(f"hi_{i}")
                S.require(L.le(lo, p.value), "start value within bounds")
                S.require(L.le(p.value, hi), "start value within bounds")
                p.minimum, p.maximum = lo, hi
            elif v in ("nonneg", "nonneg_after_plain"):
                nn = 0 if v == "nonneg" else 1  # position of the non-negative parameter among the free ones
                if i == nn:
                    p.non_negative = True
                    S.require(L.gt(p.value, 0), "non-negative value positive")
                    S.require(L.not_(L.eq(p.value, 1.0)), "not the guard value")
                    hi = b.S.named(f"hi_{i}")
                    S.require(L.le(p.value, hi), "start value within bounds")
                    S.require(L.not_(L.eq(hi, 1.0)), "bound is not the guard value")
                    p.maximum = hi
                    # the trial point of the least_squares stub must not hit the guard value either
                    x1 = b.S.named(f"x!1_{nn}")
                    S.require(L.not_(L.eq(L.fn("exp", x1), 1.0)), "trial point is not the guard value")
                    xp = b.S.named(f"x!post0_{nn}")
                    S.require(L.not_(L.eq(L.fn("exp", xp), 1.0)), "trial point is not the guard value")
                elif i >= 2:
                    p.vary = False
            elif v == "fixed_and_expr":
                if i == 0:
                    p.vary = False
                elif i == 1:
                    p.expression = f"${labels[-1]} + 1"
        b.labels = labels
        return b

    def call(self, S, case, b):
        shim.LINALG_HOOKS["svd"] = _svd
        try:
            return run_optimizer(S, b, S.symbolic, n_evals=2, create_result=True, jac=True, post_evals=1)
        finally:
            shim.LINALG_HOOKS.pop("svd", None)

    def observe(self, out):
        return out if isinstance(out, Raised) else None

    def ensures(self, S, case, b, out):
        if isinstance(out, Raised):
            yield "no_exception", False
            return
        pars = {p.label: p for p in b.scheme.parameters.all()}
        free = [lab for lab in b.labels if pars[lab].vary and pars[lab].expression is None]
        opt = out.optimizer
        call = out.trace.calls[0]
        yield "free_parameter_labels_order", list(opt._free_parameter_labels) == free and list(out.result.free_parameter_labels) == free
        yield "method_and_tolerances_passed_unchanged", call["method"] == self.METHODS[case["method"]] and call["ftol"] == 1e-5 and call["gtol"] == 1e-6 and call["xtol"] == 1e-7 and call["max_nfev"] == 7 and call["verbose"] == 0
        x0, (lo, hi) = call["x0"], call["bounds"]
        ok = len(x0) == len(free) == len(lo) == len(hi)
        yield "x0_and_bounds_have_one_entry_per_free_parameter", ok
        if not ok:
            return
        conds = []
        for j, lab in enumerate(free):
            p = pars[lab]
            if p.non_negative:
                if S.symbolic:
                    conds.append(L.eq(x0[j], L.fn("log", p.value)))
                    if not (isfloat(p.maximum) and np.isinf(p.maximum)):
                        conds.append(L.eq(hi[j], L.fn("log", p.maximum)))
            else:
                conds.append(L.eq(x0[j], p.value))
                conds.append(_same_ext(lo[j], p.minimum))
                conds.append(_same_ext(hi[j], p.maximum))
        yield "x0_and_bounds_at_position_i_belong_to_label_i", L.and_(*conds)
        # every record of the history respects the bounds (record 0: initial, 1: x0, 2: trial point)
        hist = opt._parameter_history
        hl = list(hist.parameter_labels)
        within = []
        for rec in range(hist.number_of_records):
            row = hist.get_parameters(rec)
            for j, lab in enumerate(free):
                p = pars[lab]
                val = row[hl.index(lab)]
                if p.non_negative:
                    # the history holds optimiser-space values: exp(.) of them is what the model sees
                    actual = L.fn("exp", val)
                    within.append(L.gt(actual, 0))
                    if not (isfloat(p.maximum) and np.isinf(p.maximum)):
                        within.append(L.le(actual, p.maximum))
                elif not p.non_negative:
                    if not (isfloat(p.minimum) and np.isinf(p.minimum)):
                        within.append(L.le(p.minimum, val))
                    if not (isfloat(p.maximum) and np.isinf(p.maximum)):
                        within.append(L.le(val, p.maximum))
        yield "every_recorded_iterate_within_bounds_and_positive", L.and_(*within)
        # result parameters: fixed / expression keep value / definition; free ones within bounds
        rp = {p.label: p for p in out.result.optimized_parameters.all()}
        keep = []
        for lab in b.labels:
            p, q = pars[lab], rp[lab]
            keep.append(q.vary == p.vary and q.expression == p.expression and q.non_negative == p.non_negative)
            if not p.vary and p.expression is None:
                keep.append(L.eq(q.value, p.value))
        yield "fixed_parameters_keep_value_and_flags", L.and_(*keep)
        if case["variant"] == "fixed_and_expr":
            q = rp[b.labels[1]]
            yield "expression_parameter_keeps_definition", L.eq(q.value, rp[b.labels[-1]].value + 1)
        # standard errors refer to the same ordering
        cov = np.asarray(out.result.covariance_matrix, dtype=object)
        rm = out.result.root_mean_square_error
        se = []
        for j, lab in enumerate(free):
            q = rp[lab]
            if not q.non_negative:
                se.append(L.eq(q.standard_error, rm * L.fn("sqrt", cov[j, j])))
            else:
                err = rm * L.fn("sqrt", cov[j, j])
                # mapped back from log space: value * (exp(err) - 1); the cap |value| is acceptable only where the log-space error
                # is at least the magnitude of log(value) itself
                capped = L.and_(L.eq(q.standard_error, abs(q.value)), L.ge(err, abs(L.fn("log", q.value))))
                se.append(L.or_(L.eq(q.standard_error, q.value * (L.fn("exp", err) - 1.0)), capped))
        yield "standard_error_of_label_i_from_covariance_entry_i", L.and_(*se)
        jac = np.asarray(out.result.jacobian, dtype=object)
        yield "jacobian_and_covariance_have_one_column_per_free_parameter", jac.shape[1] == len(free) and cov.shape == (len(free), len(free))


def _svd(a, full_matrices=True, **kw):
    from contracts.c13_statistics import svd_stub

    return svd_stub(a, full_matrices=full_matrices, **kw)


from contracts.common import FunctionAxiomsBase  # noqa: E402


class FunctionAxioms(FunctionAxiomsBase):
    abstract = False
    prop = "C11"


class OptionDefaults(Contract):
    """How a parameter set is *built* from lists / nested dicts with group default options: an option the parameter
    states itself wins over the default of its group - also when the stated value is falsy (vary: false, non-negative:
    false, min / max 0) -, an option it does not state takes the group default, else the class default; then exactly the
    parameters that vary and have no expression are handed to the optimiser.  Finite decision table per option
    (own value absent / each listed value x default absent / each listed value), flat and nested labels."""

    prop = "C11"
    name = "OptionDefaults"
    target = "glotaran.parameter.parameter:Parameter.from_list"
    functions = ("glotaran.parameter.parameters:Parameters.from_dict", "glotaran.parameter.parameters:Parameters.from_list")
    strength = "B"

    def cases(self, tier):
        return iter(())

    def static_obligations(self, tier):
        import itertools

        import numpy as np

        from glotaran.parameter import Parameter, Parameters

        ABSENT = object()
        table = {
            "vary": ("vary", [True, False], True),
            "non-negative": ("non_negative", [True, False], False),
            "min": ("minimum", [0, 0.0, 0.5, -2.0], -np.inf),
            "max": ("maximum", [0, 0.0, 3.5, 7.0], np.inf),
        }
        out = []
        for key, (attr, values, class_default) in table.items():
            bad = None
            n = 0
            for own, default in itertools.product([ABSENT] + values, [ABSENT] + values):
                want = own if own is not ABSENT else (default if default is not ABSENT else class_default)
                own_opts = {} if own is ABSENT else {key: own}
                def_opts = {} if default is ABSENT else {key: default}
                value = 1.25 if key in ("min", "max", "vary") else 2.0
                builds = {
                    "Parameter.from_list": lambda: Parameter.from_list(["p", value, own_opts] if own_opts else ["p", value], default_options=def_opts or None),
                    "Parameters.from_list": lambda: Parameters.from_list([["p", value, own_opts] if own_opts else ["p", value], ["q", 0.5], def_opts] if def_opts else [["p", value, own_opts] if own_opts else ["p", value], ["q", 0.5]]).get("p"),
                    "Parameters.from_dict": lambda: Parameters.from_dict({"g": {"h": [["p", value, own_opts] if own_opts else ["p", value], ["q", 0.5]] + ([def_opts] if def_opts else [])}}).get("g.h.p"),
                }
                for how, build in builds.items():
                    n += 1
                    try:
                        got = getattr(build(), attr)
                    except Exception as e:
                        bad = bad or {"how": how, "own": repr(own_opts), "group_default": repr(def_opts), "exception": repr(e)}
                        continue
                    if not (got == want and type(got) is type(want) or (isinstance(want, (int, float)) and not isinstance(want, bool) and float(got) == float(want))):
                        bad = bad or {"how": how, "own": repr(own_opts), "group_default": repr(def_opts), "got": repr(got), "expected": repr(want)}
            out.append({"name": f"own_option_wins_over_group_default_wins_over_class_default[{key}]", "ok": bad is None and n > 0, "detail": f"{n} constructions" if bad is None else str(bad), "function": self.target, "strength": "B", "witness": bad})
        # ... and the parameters built that way reach the optimiser exactly when they vary
        ps = Parameters.from_dict({"g": [["fixed", 1.0, {"vary": False}], ["free", 2.0], ["zero_min", 0.5, {"min": 0}], {"vary": True, "min": 0.25}]})
        labels, _, lo, _ = ps.get_label_value_and_bounds_arrays(exclude_non_vary=True)
        ok = list(labels) == ["g.free", "g.zero_min"] and list(lo) == [0.25, 0.0]
        out.append({"name": "group_with_default_vary_true_hands_only_its_varying_members_to_the_optimiser", "ok": ok, "detail": f"labels {list(labels)}, lower bounds {list(lo)}", "function": "glotaran.parameter.parameters:Parameters.get_label_value_and_bounds_arrays", "strength": "B"})
        return out
