"""C05 (all sizes): the Gaussian-IRF decay kernels, for every number of Gaussians, rates, time points and
global indices - loop invariants over the AST of the real numba kernels (PyVC-U, `pyvc/wp.py`).

`calculate_decay_matrix_gaussian_irf_on_index` adds, to cell (t, r),  sum_i term(i, r, t)  where term is the
closed form of the convolution weighted by the IRF scale (the kernel evaluates it in another, numerically stable
shape for beta - alpha < -1; both shapes agree by `C05.ClosedFormBranchLemma`), plus the back-sweep term when it is valid.  The sum
over a symbolic number of Gaussians is a *ghost function* S with S(0) = 0, S(i+1) = S(i) + term(i): the
contract is proved for an arbitrary S satisfying the recursion.

`calculate_decay_matrix_gaussian_irf` (index dependent IRF) is verified against the *contract* of the former
(not its body): slice n_w of the 3-d matrix gains the same sum evaluated with the centres and widths of index
n_w - "the matrix at each global index equals the index-independent matrix evaluated with that index's
effective centre and width" - and no other slice changes.
"""
from __future__ import annotations

import z3

from contracts.unbounded import accumulated, exp, ext_abs, ext_exp, inb, ints
from contracts.unbounded import records
from pyvc import wp
from pyvc.contract import Contract
from pyvc.sym import UF

REAL, INT = z3.RealSort(), z3.IntSort()


def _erf(ex, st, args, kwargs, node):
    return UF["erf"](wp._real(args[0]))


def _erfcx(ex, st, args, kwargs, node):
    return UF["erfcx"](wp._real(args[0]))


def term(center, width, scale, r_n, t_n, backsweep, period):
    """Contribution of one Gaussian to cell (t, r), from the property statement: scale x closed form of the
    convolution (+ back-sweep when valid).  Also returns the other shape of the closed form (the one the kernel uses for
    beta - alpha < -1), equal to the first by C05.ClosedFormBranchLemma."""
    import glotaran.builtin.megacomplexes.decay.decay_matrix_gaussian_irf as gm

    RV = wp.RV
    center, width, scale, r_n, t_n, period = (RV(x) for x in (center, width, scale, r_n, t_n, period))
    sqrt2 = float(gm.SQRT2)
    alpha = (r_n * width) / sqrt2
    beta = (t_n - center) / (width * sqrt2)
    thresh = beta - alpha
    closed = (scale * 0.5 * (1 + RV(UF["erf"](thresh.t))) * RV(exp((alpha * (alpha - 2 * beta)).t))).t
    stable = (scale * 0.5 * RV(UF["erfcx"]((-thresh).t)) * RV(exp((-beta * beta).t))).t
    valid = z3.And(backsweep, RV(z3.If(r_n.t >= 0, r_n.t, (-r_n).t)) * period > 0.001)
    x1 = RV(exp((-r_n * (t_n - center + period)).t))
    x2 = RV(exp((-r_n * ((period / 2) - (t_n - center))).t))
    x3 = RV(exp((-r_n * period).t))
    return closed + z3.If(valid, (scale * (x1 + x2) / (1 - x3)).t, 0), (closed, stable)


def on_index_spec():
    import glotaran.builtin.megacomplexes.decay.decay_matrix_gaussian_irf as gm

    fn = gm.calculate_decay_matrix_gaussian_irf_on_index
    i, t, r = ints("i", "t", "r")

    def ghosts():
        f = z3.Function(f"irf_sum!{next(wp._counter)}", INT, INT, INT, REAL)
        return {"S": lambda i_, t_, r_: f(i_, t_, r_)}

    def tm_full(env, i_, t_, r_):
        return term(env.sel("centers", i_), env.sel("widths", i_), env.sel("scales", i_), env.sel("rates", r_), env.sel("times", t_), env["backsweep"], env["backsweep_period"])

    def tm(env, i_, t_, r_):
        return tm_full(env, i_, t_, r_)[0]

    def axioms(env):
        closed, stable = tm_full(env, i, t, r)[1]
        return [z3.ForAll([i, t, r], closed == stable, patterns=[stable])]

    def requires(env):
        S = env.ghost["S"]
        ni = env.shape("centers")
        return [
            env.shape("matrix", 0) == env.shape("times"),
            env.shape("matrix", 1) == env.shape("rates"),
            env.shape("widths") == ni,
            env.shape("scales") == ni,
            # the callers hand over a zeroed matrix (np.zeros in calculate_matrix); what the kernel must do is *accumulate* over the Gaussians
            z3.ForAll([t, r], z3.Implies(z3.And(inb(t, env.shape("times")), inb(r, env.shape("rates"))), env.sel("matrix", t, r) == 0), patterns=[env.sel("matrix", t, r)]),
            z3.ForAll([t, r], S(0, t, r) == 0, patterns=[S(0, t, r)]),
            z3.ForAll([i, t, r], z3.Implies(inb(i, ni), S(i + 1, t, r) == S(i, t, r) + tm(env, i, t, r)), patterns=[S(i + 1, t, r)]),
        ]

    def cell(old, now, add):
        nt, nr = old.shape("times"), old.shape("rates")
        return z3.ForAll([t, r], z3.If(z3.And(inb(t, nt), inb(r, nr)), now.sel("matrix", t, r) == old.sel("matrix", t, r) + add, now.sel("matrix", t, r) == old.sel("matrix", t, r)), patterns=[now.sel("matrix", t, r)])

    def ensures(old, new, res):
        S = old.ghost["S"]
        return [("cell_t_r_gains_the_sum_over_the_gaussians_of_scale_times_closed_form_plus_backsweep_and_nothing_else_changes", cell(old, new, S(old.shape("centers"), t, r)))]

    # one invariant for every loop of the nest, written for "the loop over the Gaussians / the rates / the times" whatever
    # their nesting order (loop interchange does not disturb the proof)
    coords = {("rates", 0): r, ("times", 0): t}

    def inv(k):
        def f(old, now, i):
            S = old.ghost["S"]
            acc = accumulated(now, (k, i), coords, ("centers", 0), old.shape("centers"), lambda g: S(g, t, r))
            return [cell(old, now, acc)] + [inb(now.loopvar(j), old.shape(*now.loop_over(j))) for j in now.active_loops() if j < k]

        return f

    inv0, inv1, inv2 = inv(0), inv(1), inv(2)

    params = [("matrix", "arr2"), ("rates", "arr1"), ("times", "arr1"), ("centers", "arr1"), ("widths", "arr1"), ("scales", "arr1"), ("backsweep", "bool"), ("backsweep_period", "real")]
    ext = {"np.exp": ext_exp, "abs": ext_abs, "erf": _erf, "erfcx": _erfcx}
    return wp.FnSpec(fn, params, requires, ("matrix",), ensures, {0: inv0, 1: inv1, 2: inv2}, ext, ghosts=ghosts, axioms=axioms), tm


def all_indices_spec():
    import glotaran.builtin.megacomplexes.decay.decay_matrix_gaussian_irf as gm

    fn = gm.calculate_decay_matrix_gaussian_irf
    callee, _ = on_index_spec()
    w, i, t, r = ints("w", "i", "t", "r")

    def ghosts():
        f = z3.Function(f"irf_sum2!{next(wp._counter)}", INT, INT, INT, INT, REAL)
        return {"S2": lambda w_, i_, t_, r_: f(w_, i_, t_, r_)}

    def tm2(env, w_, i_, t_, r_):
        return term(env.sel("all_centers", w_, i_), env.sel("all_widths", w_, i_), env.sel("scales", i_), env.sel("rates", r_), env.sel("times", t_), env["backsweep"], env["backsweep_period"])[0]

    def requires(env):
        S2 = env.ghost["S2"]
        nw, ni = env.shape("all_centers", 0), env.shape("all_centers", 1)
        return [
            env.shape("matrix", 0) == nw,
            env.shape("matrix", 1) == env.shape("times"),
            env.shape("matrix", 2) == env.shape("rates"),
            env.shape("all_widths", 0) == nw,
            env.shape("all_widths", 1) == ni,
            env.shape("scales") == ni,
            z3.ForAll([w, t, r], z3.Implies(z3.And(inb(w, nw), inb(t, env.shape("times")), inb(r, env.shape("rates"))), env.sel("matrix", w, t, r) == 0), patterns=[env.sel("matrix", w, t, r)]),
            z3.ForAll([w, t, r], S2(w, 0, t, r) == 0, patterns=[S2(w, 0, t, r)]),
            z3.ForAll([w, i, t, r], z3.Implies(z3.And(inb(w, nw), inb(i, ni)), S2(w, i + 1, t, r) == S2(w, i, t, r) + tm2(env, w, i, t, r)), patterns=[S2(w, i + 1, t, r)]),
        ]

    def cell(old, now, done):
        nw, nt, nr, ni = old.shape("all_centers", 0), old.shape("times"), old.shape("rates"), old.shape("all_centers", 1)
        add = z3.If(done, old.ghost["S2"](w, ni, t, r), 0)
        return z3.ForAll([w, t, r], z3.If(z3.And(inb(w, nw), inb(t, nt), inb(r, nr)), now.sel("matrix", w, t, r) == old.sel("matrix", w, t, r) + add, now.sel("matrix", w, t, r) == old.sel("matrix", w, t, r)), patterns=[now.sel("matrix", w, t, r)])

    def ensures(old, new, res):
        return [("slice_w_gains_the_index_independent_sum_evaluated_with_the_centres_and_widths_of_index_w", cell(old, new, z3.BoolVal(True)))]

    def inv0(old, now, k):
        return [cell(old, now, w < k)]

    def ghost_for_callee(ex, st, vars_):
        nw_ = st.vars[ex.loops[0]["var"]]
        S2 = ex.ghost["S2"]
        return {"S": lambda i_, t_, r_: S2(nw_, i_, t_, r_)}

    params = [("matrix", "arr3"), ("rates", "arr1"), ("times", "arr1"), ("all_centers", "arr2"), ("all_widths", "arr2"), ("scales", "arr1"), ("backsweep", "bool"), ("backsweep_period", "real")]
    ext = {"calculate_decay_matrix_gaussian_irf_on_index": wp.call_contract(callee, ghost_for_callee)}
    return wp.FnSpec(fn, params, requires, ("matrix",), ensures, {0: inv0}, ext, ghosts=ghosts)


class IrfKernelsAllSizes(Contract):
    prop = "C05"
    name = "IrfKernelsAllSizes"
    target = "glotaran.builtin.megacomplexes.decay.decay_matrix_gaussian_irf:calculate_decay_matrix_gaussian_irf_on_index"
    functions = ("glotaran.builtin.megacomplexes.decay.decay_matrix_gaussian_irf:calculate_decay_matrix_gaussian_irf",)
    strength = "U"
    trusted = (
        *__import__('contracts.unbounded', fromlist=['WP_ASSUMPTIONS']).WP_ASSUMPTIONS,
        "numba compiles the kernels with Python semantics; nb.prange = range (race freedom: C10 PrangeRaces); a[i] of an n-d array is a view sharing its cells",
        "exp / erf / erfcx uninterpreted; floats as reals (SQRT2, 0.5, 0.001 are the exact rationals of the code's floats)",
        "the two shapes of the closed form agree for all alpha, beta (proved by C05.ClosedFormBranchLemma in the same check); its instances at the cells are assumed as axioms, so the position of the numerical switch-over (`thresh < -1`) is immaterial to the proof",
    )
    drops = ("PyVC-U re-reads the kernels' source and drops the @nb.jit decorators and annotations; accepted subset in pyvc/wp.py",)

    def cases(self, tier):
        return iter(())

    def static_obligations(self, tier):
        import numpy as np

        from contracts.unbounded import crosscheck

        def a1(rng, k):
            nt, nr, ni = rng.integers(0, 4), rng.integers(0, 3), rng.integers(1, 3)
            return {"matrix": np.zeros((nt, nr)), "rates": rng.uniform(0.1, 2, nr), "times": rng.uniform(-3, 3, nt), "centers": rng.uniform(-1, 1, ni), "widths": rng.uniform(0.1, 1, ni), "scales": rng.uniform(0.5, 2, ni), "backsweep": bool(k % 2), "backsweep_period": 3.0}

        def a2(rng, k):
            nw, nt, nr, ni = rng.integers(0, 3), rng.integers(0, 3), rng.integers(0, 3), rng.integers(1, 3)
            return {"matrix": np.zeros((nw, nt, nr)), "rates": rng.uniform(0.1, 2, nr), "times": rng.uniform(-3, 3, nt), "all_centers": rng.uniform(-1, 1, (nw, ni)), "all_widths": rng.uniform(0.1, 1, (nw, ni)), "scales": rng.uniform(0.5, 2, ni), "backsweep": bool(k % 2), "backsweep_period": 3.0}

        spec, _ = on_index_spec()
        return records(spec, self.name, prefix="on_index.") + records(all_indices_spec(), self.name, prefix="all_indices.") + crosscheck(spec, a1) + crosscheck(all_indices_spec(), a2)


def _with_selftest(fn):
    def wrapped(self, tier):
        from contracts.unbounded import engine_selftest

        return fn(self, tier) + engine_selftest()

    return wrapped


IrfKernelsAllSizes.static_obligations = _with_selftest(IrfKernelsAllSizes.static_obligations)
